(* (C15; formerly Proofs/StoreProofs.v, a name now used by C03) Proofs about Model/Store.v: compare-and-set, growing versions, indexes never reused, refinement of the
   per-record CAS register, refused writes. *)
From Coq Require Import List NArith Bool Lia.
From OC Require Import Base.Bytes Model.Atomix Model.Store Spec.Cas.
Import ListNotations.
Open Scope N_scope.

(* ---------------------------------------------------------------- association lists *)
Lemma get_set_log a b lg l : get_log a (set_log b lg l) = if eqb_str b a then lg else get_log a l.
Proof.
  induction l as [|[n x] r IH]; simpl.
  - destruct (eqb_str b a); reflexivity.
  - destruct (eqb_str n b) eqn:Hnb; simpl.
    + apply eqb_str_eq in Hnb; subst n. destruct (eqb_str b a); reflexivity.
    + destruct (eqb_str n a) eqn:Hna.
      * apply eqb_str_eq in Hna; subst n.
        assert (Hba : eqb_str b a = false).
        { rewrite eqb_str_sym. exact Hnb. }
        rewrite Hba. reflexivity.
      * exact IH.
Qed.

Lemma find_entry_some k l e : find_entry k l = Some e -> In e l /\ e_key e = k.
Proof.
  induction l as [|x r IH]; simpl; [discriminate|].
  destruct (eqb_str (e_key x) k) eqn:Hk; intro H.
  - inversion H; subst. split; [left; reflexivity | apply eqb_str_eq; exact Hk].
  - destruct (IH H) as [Hin Hkey]. split; [right; exact Hin | exact Hkey].
Qed.

Lemma find_entry_app k l e :
  find_entry k (l ++ [e]) = match find_entry k l with Some x => Some x | None => if eqb_str (e_key e) k then Some e else None end.
Proof.
  induction l as [|x r IH]; simpl; [reflexivity|].
  destruct (eqb_str (e_key x) k); [reflexivity | exact IH].
Qed.

Lemma find_entry_replace k e' l :
  find_entry k (replace_entry e' l) =
  if eqb_str (e_key e') k then match find_entry k l with Some _ => Some e' | None => None end else find_entry k l.
Proof.
  induction l as [|x r IH]; simpl.
  - destruct (eqb_str (e_key e') k); reflexivity.
  - destruct (eqb_str (e_key x) (e_key e')) eqn:Hx; simpl.
    + apply eqb_str_eq in Hx. rewrite Hx. destruct (eqb_str (e_key e') k); reflexivity.
    + destruct (eqb_str (e_key x) k) eqn:Hxk.
      * apply eqb_str_eq in Hxk. subst k.
        assert (H : eqb_str (e_key e') (e_key x) = false) by (rewrite eqb_str_sym; exact Hx).
        rewrite H. reflexivity.
      * exact IH.
Qed.

Lemma in_replace e e' l : In e (replace_entry e' l) -> e = e' \/ In e l.
Proof.
  induction l as [|x r IH]; simpl; [tauto|].
  destruct (eqb_str (e_key x) (e_key e')); simpl; intros [H|H]; auto.
  destruct (IH H); auto.
Qed.

Lemma value_eqb_stamp a b : v_stamp a <> v_stamp b -> value_eqb a b = false.
Proof.
  intro H. unfold value_eqb. destruct (N.eqb_spec (v_stamp a) (v_stamp b)); [contradiction|].
  rewrite andb_false_r. reflexivity.
Qed.

(* ---------------------------------------------------------------- one log *)
Definition lcur (L : alog) (ky : str) : N := match find_entry ky (l_entries L) with Some e => e_version e | None => 0 end.
Definition lidx (L : alog) (ky : str) : N := match find_entry ky (l_entries L) with Some e => e_index e | None => 0 end.
Definition lpay (L : alog) (ky : str) : option reg :=
  match find_entry ky (l_entries L) with Some e => Some {| r_version := e_version e; r_content := v_payload (e_val e) |} | None => None end.

Definition lwf (L : alog) (clock now : N) : Prop :=
  forall e, In e (l_entries L) -> 0 < e_version e /\ e_version e <= clock /\ e_index e <= l_last L /\ v_stamp (e_val e) <= now.

Lemma lwf_weaken L c n c' n' : lwf L c n -> c <= c' -> n <= n' -> lwf L c' n'.
Proof. intros H Hc Hn e Hin. destruct (H e Hin) as (A & B & C & D). repeat split; try assumption; lia. Qed.

Lemma lwf_cur_pos L c n ky : lwf L c n -> find_entry ky (l_entries L) <> None -> lcur L ky <> 0.
Proof.
  intros H Hf. unfold lcur. destruct (find_entry ky (l_entries L)) eqn:E; [|contradiction].
  destruct (find_entry_some _ _ _ E) as [Hin _]. destruct (H e Hin) as (A & _). lia.
Qed.

Lemma lwf_cur_le L c n ky : lwf L c n -> lcur L ky <= c.
Proof.
  intros H. unfold lcur. destruct (find_entry ky (l_entries L)) eqn:E; [|lia].
  destruct (find_entry_some _ _ _ E) as [Hin _]. destruct (H e Hin) as (_ & B & _). exact B.
Qed.

Lemma lwf_idx_le L c n ky : lwf L c n -> lidx L ky <= l_last L.
Proof.
  intros H. unfold lidx. destruct (find_entry ky (l_entries L)) eqn:E; [|lia].
  destruct (find_entry_some _ _ _ E) as [Hin _]. destruct (H e Hin) as (_ & _ & C & _). exact C.
Qed.

Lemma neq_eqb_false (a b : str) : a <> b -> eqb_str a b = false.
Proof. intro H. apply eqb_str_neq. exact H. Qed.

Lemma append_spec indexed L ky v nv clock now c L' r :
  lwf L clock now -> clock < nv -> v_stamp v <= now ->
  al_append indexed L ky v nv = (c, L', r) ->
  (c = CExists /\ L' = L /\ lcur L ky <> 0) \/
  (c = COk /\ lcur L ky = 0 /\ lwf L' nv now /\ lcur L' ky = nv /\
   lidx L' ky = (if indexed then l_last L + 1 else 0) /\
   r = Some {| e_key := ky; e_index := (if indexed then l_last L + 1 else 0); e_version := nv; e_val := v |} /\
   lpay L' ky = Some {| r_version := nv; r_content := v_payload v |} /\
   (forall k2, k2 <> ky -> lcur L' k2 = lcur L k2 /\ lidx L' k2 = lidx L k2 /\ lpay L' k2 = lpay L k2)).
Proof.
  intros Hwf Hnv Hst. unfold al_append.
  destruct (find_entry ky (l_entries L)) eqn:E; intro H; injection H as Hc HL Hr; subst c L' r.
  - left. repeat split. apply (lwf_cur_pos L clock now); [assumption | rewrite E; discriminate].
  - right. split; [reflexivity|]. split; [unfold lcur; rewrite E; reflexivity|].
    split.
    { intros e Hin. simpl in Hin. apply in_app_or in Hin. destruct Hin as [Hin|[Hin|[]]].
      - destruct (Hwf e Hin) as (A & B & C & D). simpl. repeat split; try assumption; try lia.
        destruct indexed; lia.
      - subst e. simpl. repeat split; try lia; destruct indexed; lia. }
    unfold lcur, lidx, lpay. simpl. rewrite !find_entry_app, E. simpl. rewrite eqb_str_refl.
    repeat split; try reflexivity.
    all: rewrite !find_entry_app; simpl; rewrite (neq_eqb_false ky k2) by (intro; subst; contradiction);
      destruct (find_entry k2 (l_entries L)); reflexivity.
Qed.

Lemma update_spec indexed L ky v ifv nv clock now c L' r ch :
  lwf L clock now -> clock < nv -> now < v_stamp v -> ifv <> 0 ->
  al_update indexed L ky v ifv nv = (c, L', r, ch) ->
  (c = CNotFound /\ L' = L /\ lcur L ky = 0 /\ ch = false) \/
  (c = CConflict /\ L' = L /\ lcur L ky <> 0 /\ lcur L ky <> ifv /\ ch = false) \/
  (c = COk /\ ch = true /\ lcur L ky = ifv /\ lwf L' nv (v_stamp v) /\ lcur L' ky = nv /\ lidx L' ky = lidx L ky /\
   l_last L' = l_last L /\
   r = Some {| e_key := ky; e_index := lidx L ky; e_version := nv; e_val := v |} /\
   lpay L' ky = Some {| r_version := nv; r_content := v_payload v |} /\
   (forall k2, k2 <> ky -> lcur L' k2 = lcur L k2 /\ lidx L' k2 = lidx L k2 /\ lpay L' k2 = lpay L k2)).
Proof.
  intros Hwf Hnv Hst Hifv. unfold al_update.
  destruct (find_entry ky (l_entries L)) eqn:E.
  2:{ intro H; injection H as Hc HL Hr Hch; subst c L' r ch. left. repeat split. unfold lcur. rewrite E. reflexivity. }
  destruct (find_entry_some _ _ _ E) as [Hin Hkey].
  destruct (Hwf e Hin) as (A & B & C & D).
  destruct (N.eqb_spec ifv 0) as [|_]; [contradiction|]. simpl.
  destruct (N.eqb_spec (e_version e) ifv) as [Hv|Hv]; simpl.
  2:{ intro H; injection H as Hc HL Hr Hch; subst c L' r ch. right; left. unfold lcur. rewrite E. repeat split; try assumption. lia. }
  rewrite (value_eqb_stamp (e_val e) v) by lia. rewrite andb_false_r.
  intro H; injection H as Hc HL Hr Hch; subst c L' r ch. right; right.
  split; [reflexivity|]. split; [reflexivity|]. split; [unfold lcur; rewrite E; exact Hv|].
  split.
  { intros e' Hin'. simpl in Hin'. apply in_replace in Hin'. destruct Hin' as [->|Hin'].
    - simpl. repeat split; try lia.
    - destruct (Hwf e' Hin') as (A' & B' & C' & D'). simpl. repeat split; try assumption; lia. }
  unfold lcur, lidx, lpay. simpl. rewrite !find_entry_replace. simpl. rewrite eqb_str_refl, E.
  repeat split; try reflexivity.
  all: rewrite !find_entry_replace; simpl; rewrite (neq_eqb_false ky k2) by (intro; subst; contradiction); reflexivity.
Qed.


(* ---------------------------------------------------------------- well-formed stores *)
Definition wf (st : sstate) : Prop := forall lg, lwf (get_log lg (s_logs st)) (s_clock st) (s_now st).

Lemma wf_init : wf init.
Proof. intros lg e H. simpl in H. contradiction. Qed.

Definition pay (st : sstate) (lg ky : str) : option reg := lpay (get_log lg (s_logs st)) ky.

Lemma cur_lcur st lg ky : cur st lg ky = lcur (get_log lg (s_logs st)) ky.
Proof. reflexivity. Qed.
Lemma idx_lidx st lg ky : idx_of st lg ky = lidx (get_log lg (s_logs st)) ky.
Proof. reflexivity. Qed.

Lemma write_vals_logs k op o st : s_logs (write_vals k op o st) = s_logs st /\ s_clock (write_vals k op o st) = s_clock st /\ s_now (write_vals k op o st) = s_now st.
Proof. unfold write_vals. destruct (has_values k); [destruct (o_vals o); [destruct op|]|]; simpl; auto. Qed.

Lemma write_vals_pvs k op o st : has_values k = false \/ o_vals o = None ->
  s_pvs (write_vals k op o st) = s_pvs st /\ s_apvs (write_vals k op o st) = s_apvs st.
Proof. unfold write_vals. intros [H|H]; rewrite H; [split; reflexivity | destruct (has_values k); split; reflexivity]. Qed.

Definition same_elsewhere (st st' : sstate) (lg0 ky0 : str) : Prop :=
  forall lg ky, (lg <> lg0 \/ ky <> ky0) ->
    cur st' lg ky = cur st lg ky /\ idx_of st' lg ky = idx_of st lg ky /\ pay st' lg ky = pay st lg ky.

Definition refused (k : kind) (o : obj) (st st' : sstate) : Prop :=
  s_logs st' = s_logs st /\ s_clock st' = s_clock st /\ (has_values k = false \/ o_vals o = None -> s_pvs st' = s_pvs st /\ s_apvs st' = s_apvs st).

Lemma valid_update_version k op o : op <> OCreate -> valid k op o = true -> o_version o <> 0.
Proof.
  intros Hop H. unfold valid in H. destruct op; [contradiction| |];
  apply andb_prop in H; destruct H as [_ H]; apply negb_true_iff in H; apply N.eqb_neq in H; exact H.
Qed.

(* what one accepted / refused update looks like, independent of Update vs UpdateStatus *)
Lemma update_cases k op o st st' c o' b rev :
  wf st -> valid k op o = true -> op <> OCreate ->
  (let st1 := write_vals k op o (tick st) in
   match al_update (indexed k) (get_log (o_log o) (s_logs st1)) (o_key o)
           {| v_payload := o_payload o; v_revision := rev; v_stamp := s_now (tick st) |} (o_version o) (s_clock st1 + 1) with
   | (COk, lg', Some e, changed) =>
     ((if changed then put_log st1 (o_log o) lg' (s_clock st1 + 1) else st1), COk,
      with_meta o (e_version e) rev (if indexed k then e_index e else o_index o), changed)
   | (c0, _, _, _) => (st1, c0, with_meta o (o_version o) rev (o_index o), false)
   end) = (st', c, o', b) ->
  wf st' /\
  ( (c <> COk /\ c <> CInvalid /\ refused k o st st' /\ o_version o' = o_version o /\
     ((c = CNotFound /\ cur st (o_log o) (o_key o) = 0) \/
      (c = CConflict /\ cur st (o_log o) (o_key o) <> 0 /\ cur st (o_log o) (o_key o) <> o_version o)))
    \/
    (c = COk /\ s_clock st' = s_clock st + 1 /\
     cur st' (o_log o) (o_key o) = s_clock st + 1 /\ o_version o' = s_clock st + 1 /\
     pay st' (o_log o) (o_key o) = Some {| r_version := s_clock st + 1; r_content := o_payload o |} /\
     same_elsewhere st st' (o_log o) (o_key o) /\
     cur st (o_log o) (o_key o) = o_version o /\ o_version o <> 0 /\
     idx_of st' (o_log o) (o_key o) = idx_of st (o_log o) (o_key o)) ).
Proof.
  intros Hwf Hvalid Hop. cbv zeta.
  pose proof (valid_update_version k op o Hop Hvalid) as Hver.
  destruct (write_vals_logs k op o (tick st)) as (Hl & Hc & Hn).
  pose proof (write_vals_pvs k op o (tick st)) as Hpv.
  set (st1 := write_vals k op o (tick st)) in *.
  simpl in Hl, Hc, Hn, Hpv.
  set (L := get_log (o_log o) (s_logs st1)) in *.
  assert (HL : L = get_log (o_log o) (s_logs st)) by (unfold L; rewrite Hl; reflexivity).
  assert (HwfL : lwf L (s_clock st) (s_now st)) by (rewrite HL; apply Hwf).
  assert (Hwf1 : wf st1).
  { intros lg. rewrite Hl, Hc, Hn. apply (lwf_weaken _ (s_clock st) (s_now st)); [apply Hwf | lia | lia]. }
  assert (Href : refused k o st st1) by (split; [assumption|]; split; [assumption|]; exact Hpv).
  destruct (al_update (indexed k) L (o_key o) {| v_payload := o_payload o; v_revision := rev; v_stamp := s_now (tick st) |} (o_version o) (s_clock st1 + 1))
    as [[[c0 L'] r] ch] eqn:Hupd.
  assert (Hst : s_now st < v_stamp {| v_payload := o_payload o; v_revision := rev; v_stamp := s_now (tick st) |}) by (simpl; lia).
  assert (Hnv : s_clock st < s_clock st1 + 1) by lia.
  destruct (update_spec _ _ _ _ _ _ (s_clock st) (s_now st) _ _ _ _ HwfL Hnv Hst Hver Hupd)
    as [(-> & -> & Hcur & ->) | [(-> & -> & Hcur & Hcur2 & ->) | (-> & -> & Hcur & HwfL' & HcurL' & HidxL' & Hlast & -> & Hpay & Hk2)]].
  - intro Hstep. injection Hstep as <- <- <- <-. split; [exact Hwf1|].
    left. split; [discriminate|]. split; [discriminate|]. split; [exact Href|]. split; [reflexivity|].
    left. split; [reflexivity|]. rewrite cur_lcur, <- HL. exact Hcur.
  - intro Hstep. injection Hstep as <- <- <- <-. split; [exact Hwf1|].
    left. split; [discriminate|]. split; [discriminate|]. split; [exact Href|]. split; [reflexivity|].
    right. rewrite cur_lcur, <- HL. split; [reflexivity|]. split; assumption.
  - intro Hstep. injection Hstep as <- <- <- <-. simpl in HwfL'.
    assert (Hget : get_log (o_log o) (s_logs (put_log st1 (o_log o) L' (s_clock st1 + 1))) = L').
    { unfold put_log. simpl. rewrite get_set_log, eqb_str_refl. reflexivity. }
    split.
    { intros lg. unfold put_log. simpl. rewrite get_set_log, Hn.
      destruct (eqb_str (o_log o) lg); [exact HwfL'|].
      rewrite Hl. apply (lwf_weaken _ (s_clock st) (s_now st)); [apply Hwf | lia | lia]. }
    right. split; [reflexivity|]. split; [simpl; rewrite Hc; reflexivity|].
    split; [rewrite cur_lcur, Hget, HcurL', Hc; reflexivity|].
    split; [simpl; rewrite Hc; reflexivity|].
    split; [unfold pay; rewrite Hget, Hpay, Hc; reflexivity|].
    split.
    { intros lg ky Hne. unfold cur, idx_of, pay, put_log. simpl. rewrite get_set_log.
      destruct (eqb_str (o_log o) lg) eqn:Elg.
      - apply eqb_str_eq in Elg. subst lg. destruct Hne as [Hne|Hne]; [contradiction|].
        destruct (Hk2 ky Hne) as (A & B & C). unfold lcur, lidx, lpay in A, B, C. rewrite HL in A, B, C.
        repeat split; assumption.
      - rewrite Hl. repeat split; reflexivity. }
    split; [rewrite cur_lcur, <- HL; exact Hcur|].
    split; [exact Hver|].
    rewrite !idx_lidx, Hget, <- HL. exact HidxL'.
Qed.

(* one store call, case by case *)
Lemma step_cases k op o st st' c o' b :
  wf st -> step k op o st = (st', c, o', b) ->
  wf st' /\
  ( (valid k op o = false /\ c = CInvalid /\ refused k o st st' /\ o' = o)
    \/
    (valid k op o = true /\ c <> COk /\ c <> CInvalid /\ refused k o st st' /\ o_version o' = o_version o /\
     match op with
     | OCreate => c = CExists /\ cur st (o_log o) (o_key o) <> 0
     | _ => (c = CNotFound /\ cur st (o_log o) (o_key o) = 0) \/
            (c = CConflict /\ cur st (o_log o) (o_key o) <> 0 /\ cur st (o_log o) (o_key o) <> o_version o)
     end)
    \/
    (valid k op o = true /\ c = COk /\ s_clock st' = s_clock st + 1 /\
     cur st' (o_log o) (o_key o) = s_clock st + 1 /\ o_version o' = s_clock st + 1 /\
     pay st' (o_log o) (o_key o) = Some {| r_version := s_clock st + 1; r_content := o_payload o |} /\
     same_elsewhere st st' (o_log o) (o_key o) /\
     match op with
     | OCreate => cur st (o_log o) (o_key o) = 0 /\
                  (indexed k = true -> o_index o' = idx_of st' (o_log o) (o_key o) /\
                                        forall ky, idx_of st (o_log o) ky < o_index o')
     | _ => cur st (o_log o) (o_key o) = o_version o /\ o_version o <> 0 /\
            idx_of st' (o_log o) (o_key o) = idx_of st (o_log o) (o_key o)
     end) ).
Proof.
  intros Hwf Hstep. unfold step in Hstep.
  destruct (valid k op o) eqn:Hvalid; simpl negb in Hstep; cbv iota in Hstep.
  2:{ injection Hstep as <- <- <- <-. split.
      - intros lg. simpl. apply (lwf_weaken _ (s_clock st) (s_now st)); [apply Hwf | lia | lia].
      - left. split; [reflexivity|]. split; [reflexivity|]. split; [|reflexivity].
        split; [reflexivity|]. split; [reflexivity|]. intros _. split; reflexivity. }
  destruct op.
  - (* Create *)
    cbv zeta in Hstep.
    destruct (write_vals_logs k OCreate o (tick st)) as (Hl & Hc & Hn).
    pose proof (write_vals_pvs k OCreate o (tick st)) as Hpv.
    set (st1 := write_vals k OCreate o (tick st)) in *.
    simpl in Hl, Hc, Hn, Hpv.
    set (L := get_log (o_log o) (s_logs st1)) in *.
    assert (HL : L = get_log (o_log o) (s_logs st)) by (unfold L; rewrite Hl; reflexivity).
    assert (HwfL : lwf L (s_clock st) (s_now st + 1)).
    { rewrite HL. apply (lwf_weaken _ (s_clock st) (s_now st)); [apply Hwf | lia | lia]. }
    assert (Hwf1 : wf st1).
    { intros lg. rewrite Hl, Hc, Hn. apply (lwf_weaken _ (s_clock st) (s_now st)); [apply Hwf | lia | lia]. }
    assert (Href : refused k o st st1) by (split; [assumption|]; split; [assumption|]; exact Hpv).
    destruct (al_append (indexed k) L (o_key o) {| v_payload := o_payload o; v_revision := 1; v_stamp := s_now (tick st) |} (s_clock st1 + 1))
      as [[c0 L'] r] eqn:Happ.
    assert (Hst : v_stamp {| v_payload := o_payload o; v_revision := 1; v_stamp := s_now (tick st) |} <= s_now st + 1) by (simpl; lia).
    assert (Hnv : s_clock st < s_clock st1 + 1) by lia.
    destruct (append_spec _ _ _ _ _ (s_clock st) (s_now st + 1) _ _ _ HwfL Hnv Hst Happ)
      as [(-> & -> & Hcur) | (-> & Hcur & HwfL' & HcurL' & HidxL' & -> & Hpay & Hk2)].
    + injection Hstep as <- <- <- <-. split; [exact Hwf1|].
      right; left. split; [reflexivity|]. split; [discriminate|]. split; [discriminate|]. split; [exact Href|]. split; [reflexivity|].
      split; [reflexivity|]. rewrite cur_lcur, <- HL. exact Hcur.
    + injection Hstep as <- <- <- <-.
      assert (Hget : get_log (o_log o) (s_logs (put_log st1 (o_log o) L' (s_clock st1 + 1))) = L').
      { unfold put_log. simpl. rewrite get_set_log, eqb_str_refl. reflexivity. }
      split.
      { intros lg. unfold put_log. simpl. rewrite get_set_log, Hn.
        destruct (eqb_str (o_log o) lg); [exact HwfL'|].
        rewrite Hl. apply (lwf_weaken _ (s_clock st) (s_now st)); [apply Hwf | lia | lia]. }
      right; right. split; [reflexivity|]. split; [reflexivity|]. split; [simpl; rewrite Hc; reflexivity|].
      split; [rewrite cur_lcur, Hget, HcurL', Hc; reflexivity|].
      split; [simpl; rewrite Hc; reflexivity|].
      split; [unfold pay; rewrite Hget, Hpay, Hc; reflexivity|].
      split.
      { intros lg ky Hne. unfold cur, idx_of, pay, put_log. simpl. rewrite get_set_log.
        destruct (eqb_str (o_log o) lg) eqn:Elg.
        - apply eqb_str_eq in Elg. subst lg. destruct Hne as [Hne|Hne]; [contradiction|].
          destruct (Hk2 ky Hne) as (A & B & C). unfold lcur, lidx, lpay in A, B, C. rewrite HL in A, B, C.
          repeat split; assumption.
        - rewrite Hl. repeat split; reflexivity. }
      split; [rewrite cur_lcur, <- HL; exact Hcur|].
      intro Hidx. rewrite idx_lidx, Hget, HidxL'. simpl. rewrite Hidx. split; [reflexivity|].
      intro ky. rewrite idx_lidx, <- HL. pose proof (lwf_idx_le L _ _ ky HwfL). lia.
  - destruct (update_cases k OUpdate o st st' c o' b (o_revision o + 1) Hwf Hvalid ltac:(discriminate) Hstep) as [Hw [H|H]].
    + split; [exact Hw|]. right; left. split; [reflexivity|]. exact H.
    + split; [exact Hw|]. right; right. split; [reflexivity|]. exact H.
  - destruct (update_cases k OStatus o st st' c o' b (o_revision o) Hwf Hvalid ltac:(discriminate) Hstep) as [Hw [H|H]].
    + split; [exact Hw|]. right; left. split; [reflexivity|]. exact H.
    + split; [exact Hw|]. right; right. split; [reflexivity|]. exact H.
Qed.

(* ---------------------------------------------------------------- histories *)
Lemma cur_logs a b lg ky : s_logs a = s_logs b -> cur a lg ky = cur b lg ky.
Proof. unfold cur. intros ->. reflexivity. Qed.

Definition reachable (k : kind) (st : sstate) : Prop := exists cs, fst (run k init cs) = st.

Lemma run_wf k cs : forall st st' r, wf st -> run k st cs = (st', r) ->
  wf st' /\ s_clock st <= s_clock st' /\ (forall lg ky, cur st lg ky <= cur st' lg ky) /\
  (forall lg ky, idx_of st lg ky <> 0 -> idx_of st' lg ky = idx_of st lg ky).
Proof.
  induction cs as [|c cs IH]; intros st st' r Hwf Hrun; simpl in Hrun.
  - injection Hrun as <- <-. split; [assumption|]. split; [lia|]. split; [intros; lia|]. intros; reflexivity.
  - destruct (step k (c_op c) (c_obj c) st) as [[[st1 cd] o1] b1] eqn:Hs.
    destruct (run k st1 cs) as [stf res] eqn:Hr. injection Hrun as <- <-.
    destruct (step_cases _ _ _ _ _ _ _ _ Hwf Hs) as [Hwf1 Hcases].
    destruct (IH _ _ _ Hwf1 Hr) as (Hwff & Hclk & Hmono & Hidx).
    assert (Hone : s_clock st <= s_clock st1 /\ (forall lg ky, cur st lg ky <= cur st1 lg ky) /\
                   (forall lg ky, idx_of st lg ky <> 0 -> idx_of st1 lg ky = idx_of st lg ky)).
    { destruct Hcases as [(_ & _ & (Hl & Hc & _) & _) | [(_ & _ & _ & (Hl & Hc & _) & _) | (_ & _ & Hc & Hcur & _ & _ & Helse & Hop)]].
      - repeat split; [lia | intros; rewrite (cur_logs st1 st) by assumption; lia | intros; unfold idx_of; rewrite Hl; reflexivity].
      - repeat split; [lia | intros; rewrite (cur_logs st1 st) by assumption; lia | intros; unfold idx_of; rewrite Hl; reflexivity].
      - split; [lia|]. split.
        + intros lg ky. destruct (str_eq_dec lg (o_log (c_obj c))) as [->|Hlg]; [destruct (str_eq_dec ky (o_key (c_obj c))) as [->|Hky]|].
          * rewrite Hcur. pose proof (lwf_cur_le _ _ _ (o_key (c_obj c)) (Hwf (o_log (c_obj c)))) as Hle. rewrite <- cur_lcur in Hle. lia.
          * destruct (Helse (o_log (c_obj c)) ky (or_intror Hky)) as (A & _). lia.
          * destruct (Helse lg ky (or_introl Hlg)) as (A & _). lia.
        + intros lg ky Hnz. destruct (str_eq_dec lg (o_log (c_obj c))) as [->|Hlg]; [destruct (str_eq_dec ky (o_key (c_obj c))) as [->|Hky]|].
          * destruct (c_op c).
            -- destruct Hop as (Hz & _). exfalso. apply Hnz. rewrite idx_lidx. unfold lidx.
               rewrite cur_lcur in Hz. unfold lcur in Hz.
               destruct (find_entry (o_key (c_obj c)) (l_entries (get_log (o_log (c_obj c)) (s_logs st)))) eqn:E; [|reflexivity].
               exfalso. apply (lwf_cur_pos _ _ _ (o_key (c_obj c)) (Hwf (o_log (c_obj c)))); [rewrite E; discriminate | unfold lcur; rewrite E; exact Hz].
            -- destruct Hop as (_ & _ & Hi). exact Hi.
            -- destruct Hop as (_ & _ & Hi). exact Hi.
          * destruct (Helse (o_log (c_obj c)) ky (or_intror Hky)) as (_ & B & _). exact B.
          * destruct (Helse lg ky (or_introl Hlg)) as (_ & B & _). exact B. }
    destruct Hone as (H1 & H2 & H3).
    split; [exact Hwff|]. split; [lia|]. split; [intros lg ky; specialize (H2 lg ky); specialize (Hmono lg ky); lia|].
    intros lg ky Hnz. rewrite <- (H3 lg ky Hnz). apply Hidx. rewrite (H3 lg ky Hnz). exact Hnz.
Qed.

Lemma reachable_wf k st : reachable k st -> wf st.
Proof.
  intros [cs <-]. destruct (run k init cs) as [st' r] eqn:E. simpl.
  exact (proj1 (run_wf k cs _ _ _ wf_init E)).
Qed.

Definition is_update (c : call) : Prop := c_op c <> OCreate.
Definition same_record (a b : call) : Prop := o_log (c_obj a) = o_log (c_obj b) /\ o_key (c_obj a) = o_key (c_obj b).

(* C15_cas: in ANY history, of two updates (Update or UpdateStatus, by whichever clients) of one record that
   carry the same read version, at most one succeeds *)
Theorem cas_exclusive : forall k cs1 a cs2 b st1 r1 st2 ca oa ba st3 r2 st4 cb ob bb,
  is_update a -> is_update b -> same_record a b ->
  o_version (c_obj a) = o_version (c_obj b) ->
  run k init cs1 = (st1, r1) ->
  step k (c_op a) (c_obj a) st1 = (st2, ca, oa, ba) ->
  run k st2 cs2 = (st3, r2) ->
  step k (c_op b) (c_obj b) st3 = (st4, cb, ob, bb) ->
  ~ (ca = COk /\ cb = COk).
Proof.
  intros k cs1 a cs2 b st1 r1 st2 ca oa ba st3 r2 st4 cb ob bb Ha Hb [Hlog Hkey] Hver Hr1 Hsa Hr2 Hsb [Hca Hcb].
  destruct (run_wf k cs1 _ _ _ wf_init Hr1) as (Hwf1 & _).
  destruct (step_cases _ _ _ _ _ _ _ _ Hwf1 Hsa) as [Hwf2 Hcases].
  destruct (run_wf k cs2 _ _ _ Hwf2 Hr2) as (Hwf3 & _ & Hmono & _).
  destruct (step_cases _ _ _ _ _ _ _ _ Hwf3 Hsb) as [_ Hcasesb].
  destruct Hcases as [(_ & Hc & _) | [(_ & Hc & _) | (_ & _ & _ & Hcur2 & _ & _ & _ & Hopa)]]; [subst ca; discriminate | contradiction |].
  destruct Hcasesb as [(_ & Hc & _) | [(_ & Hc & _) | (_ & _ & _ & _ & _ & _ & _ & Hopb)]]; [subst cb; discriminate | contradiction |].
  unfold is_update in Ha, Hb.
  assert (Hcura : cur st1 (o_log (c_obj a)) (o_key (c_obj a)) = o_version (c_obj a)) by (destruct (c_op a); [contradiction | apply Hopa | apply Hopa]).
  assert (Hcurb : cur st3 (o_log (c_obj b)) (o_key (c_obj b)) = o_version (c_obj b)) by (destruct (c_op b); [contradiction | apply Hopb | apply Hopb]).
  pose proof (lwf_cur_le _ _ _ (o_key (c_obj a)) (Hwf1 (o_log (c_obj a)))) as Hle. rewrite <- cur_lcur in Hle.
  specialize (Hmono (o_log (c_obj a)) (o_key (c_obj a))).
  rewrite Hlog, Hkey in *. lia.
Qed.

(* C15_versions_grow: along any history the version of every record only grows, and an accepted write
   gives its record a version above every version handed out before *)
Theorem versions_grow : forall k cs1 cs2 st1 r1 st2 r2,
  run k init cs1 = (st1, r1) -> run k st1 cs2 = (st2, r2) ->
  forall lg ky, cur st1 lg ky <= cur st2 lg ky.
Proof.
  intros k cs1 cs2 st1 r1 st2 r2 H1 H2 lg ky.
  destruct (run_wf k cs1 _ _ _ wf_init H1) as (Hwf1 & _).
  destruct (run_wf k cs2 _ _ _ Hwf1 H2) as (_ & _ & Hm & _). apply Hm.
Qed.

Theorem accepted_write_fresh_version : forall k st op o st' o' b,
  reachable k st -> step k op o st = (st', COk, o', b) ->
  cur st' (o_log o) (o_key o) = o_version o' /\
  (forall lg ky, cur st lg ky < o_version o').
Proof.
  intros k st op o st' o' b Hr Hs. pose proof (reachable_wf _ _ Hr) as Hwf.
  destruct (step_cases _ _ _ _ _ _ _ _ Hwf Hs) as [_ [(_ & Hc & _) | [(_ & Hc & _) | (_ & _ & _ & Hcur & Hver & _)]]]; [discriminate | contradiction |].
  split; [rewrite Hcur, Hver; reflexivity|].
  intros lg ky. pose proof (lwf_cur_le _ _ _ ky (Hwf lg)) as Hle. rewrite <- cur_lcur in Hle. lia.
Qed.

(* C15_index_never_reused: a record keeps its log index for life, and an accepted Create receives an index
   above every index of its log *)
Theorem index_never_reused : forall k st op o st' c o' b,
  reachable k st -> step k op o st = (st', c, o', b) ->
  (forall lg ky, idx_of st lg ky <> 0 -> idx_of st' lg ky = idx_of st lg ky) /\
  (indexed k = true -> op = OCreate -> c = COk ->
     o_index o' = idx_of st' (o_log o) (o_key o) /\ forall ky, idx_of st (o_log o) ky < o_index o').
Proof.
  intros k st op o st' c o' b Hr Hs. pose proof (reachable_wf _ _ Hr) as Hwf.
  split.
  - assert (Hrun : run k st [{| c_op := op; c_obj := o |}] = (st', [(c, o')])) by (simpl; rewrite Hs; reflexivity).
    exact (proj2 (proj2 (proj2 (run_wf k _ _ _ _ Hwf Hrun)))).
  - intros Hi -> ->.
    destruct (step_cases _ _ _ _ _ _ _ _ Hwf Hs) as [_ [(_ & Hc & _) | [(_ & Hc & _) | (_ & _ & _ & _ & _ & _ & _ & _ & Hidx)]]]; [discriminate | contradiction |].
    exact (Hidx Hi).
Qed.

(* C15_refines_cas: on the record it addresses, every well-formed store call is exactly the register
   operation of Spec/Cas.v (same answer, same new register, fresh version), and no other record moves *)
Definition code_of (c : cas_code) : code := match c with SOk => COk | SNotFound => CNotFound | SExists => CExists | SConflict => CConflict end.

Theorem refines_cas : forall k st op o st' c o' b,
  reachable k st -> valid k op o = true -> step k op o st = (st', c, o', b) ->
  let spec := match op with
              | OCreate => reg1_create (pay st (o_log o) (o_key o)) (o_payload o) (s_clock st + 1)
              | _ => reg1_update (pay st (o_log o) (o_key o)) (o_version o) (o_payload o) (s_clock st + 1)
              end in
  c = code_of (snd spec) /\ pay st' (o_log o) (o_key o) = fst spec /\
  forall lg ky, (lg <> o_log o \/ ky <> o_key o) -> pay st' lg ky = pay st lg ky.
Proof.
  intros k st op o st' c o' b Hr Hvalid Hs. pose proof (reachable_wf _ _ Hr) as Hwf.
  assert (Hpc : forall lg ky, cur st lg ky = match pay st lg ky with Some r => r_version r | None => 0 end).
  { intros. unfold cur, pay, lpay. destruct (find_entry _ _); reflexivity. }
  assert (Hpn : forall lg ky, cur st lg ky = 0 -> pay st lg ky = None).
  { intros lg ky H0. unfold pay, lpay. destruct (find_entry ky (l_entries (get_log lg (s_logs st)))) eqn:E; [|reflexivity].
    exfalso. apply (lwf_cur_pos _ _ _ ky (Hwf lg)); [rewrite E; discriminate | rewrite <- cur_lcur; exact H0]. }
  destruct (step_cases _ _ _ _ _ _ _ _ Hwf Hs) as [_ [(Hv & _) | [(_ & Hnok & Hninv & (Hl & _) & _ & Hop) | (_ & -> & _ & _ & _ & Hpay & Helse & Hop)]]].
  - rewrite Hv in Hvalid. discriminate.
  - assert (Hsame : forall lg ky, pay st' lg ky = pay st lg ky) by (intros; unfold pay; rewrite Hl; reflexivity).
    destruct op; simpl.
    + destruct Hop as (-> & Hcur). rewrite Hpc in Hcur.
      destruct (pay st (o_log o) (o_key o)) eqn:E; [|contradiction]. simpl. repeat split; auto. rewrite Hsame. exact E.
    + destruct Hop as [(-> & Hcur) | (-> & Hcur & Hcur2)].
      * rewrite (Hpn _ _ Hcur). simpl. repeat split; auto. rewrite Hsame. apply Hpn. exact Hcur.
      * rewrite Hpc in Hcur, Hcur2. destruct (pay st (o_log o) (o_key o)) eqn:E; [|contradiction]. simpl.
        destruct (N.eqb_spec (r_version r) (o_version o)); [contradiction|]. simpl. repeat split; auto. rewrite Hsame. exact E.
    + destruct Hop as [(-> & Hcur) | (-> & Hcur & Hcur2)].
      * rewrite (Hpn _ _ Hcur). simpl. repeat split; auto. rewrite Hsame. apply Hpn. exact Hcur.
      * rewrite Hpc in Hcur, Hcur2. destruct (pay st (o_log o) (o_key o)) eqn:E; [|contradiction]. simpl.
        destruct (N.eqb_spec (r_version r) (o_version o)); [contradiction|]. simpl. repeat split; auto. rewrite Hsame. exact E.
  - assert (Hel : forall lg ky, lg <> o_log o \/ ky <> o_key o -> pay st' lg ky = pay st lg ky) by (intros lg ky H; apply (Helse lg ky H)).
    destruct op; simpl.
    + destruct Hop as (Hcur & _). rewrite (Hpn _ _ Hcur). simpl. repeat split; auto.
    + destruct Hop as (Hcur & Hnz & _). rewrite Hpc in Hcur.
      destruct (pay st (o_log o) (o_key o)) eqn:E; [|congruence]. simpl. rewrite Hcur, N.eqb_refl. simpl. repeat split; auto.
    + destruct Hop as (Hcur & Hnz & _). rewrite Hpc in Hcur.
      destruct (pay st (o_log o) (o_key o)) eqn:E; [|congruence]. simpl. rewrite Hcur, N.eqb_refl. simpl. repeat split; auto.
Qed.

(* a refused call changes no record; outside the configuration stores (or without values) it changes nothing *)
Theorem refused_changes_no_record : forall k st op o st' c o' b,
  reachable k st -> step k op o st = (st', c, o', b) -> c <> COk ->
  s_logs st' = s_logs st /\ s_clock st' = s_clock st /\
  (has_values k = false \/ o_vals o = None -> s_pvs st' = s_pvs st /\ s_apvs st' = s_apvs st).
Proof.
  intros k st op o st' c o' b Hr Hs Hc. pose proof (reachable_wf _ _ Hr) as Hwf.
  destruct (step_cases _ _ _ _ _ _ _ _ Hwf Hs) as [_ [(_ & _ & H & _) | [(_ & _ & _ & H & _) | (_ & Hok & _)]]]; [exact H | exact H | contradiction].
Qed.

(* ---------------------------------------------------------------- F-08 and the v3 loop variable, on the model *)
Definition cobj (key : str) (ver rev payload : N) (vals : option pvmap) : obj :=
  {| o_key := key; o_log := []; o_idok := true; o_tgtok := true; o_txok := true; o_version := ver; o_revision := rev;
     o_index := 0; o_payload := payload; o_vals := vals; o_avals := None; o_last := [] |}.
Definition pv1 (v i : N) : pv := {| pv_val := v; pv_idx := i; pv_del := false |}.

(* F-08: writer A reads, writer B commits /z = 2 @ index 2, A's stale Update is refused with Conflict and
   yet /z is back at 1 @ index 1 *)
Definition f08_history : list call :=
  [ {| c_op := OCreate; c_obj := cobj (B "c") 0 0 1 (Some [(B "/z", pv1 1 1)]) |};
    {| c_op := OUpdate; c_obj := cobj (B "c") 1 1 2 (Some [(B "/z", pv1 2 2)]) |};
    {| c_op := OUpdate; c_obj := cobj (B "c") 1 1 1 (Some [(B "/z", pv1 1 1)]) |} ].

Theorem refused_update_rewrites_values_refuted :
  exists k cs, map fst (snd (run k init cs)) = [COk; COk; CConflict] /\
    get_pvs (B "c") (s_pvs (fst (run k init (firstn 2 cs)))) = [(B "/z", pv1 2 2)] /\
    get_pvs (B "c") (s_pvs (fst (run k init cs))) = [(B "/z", pv1 1 1)].
Proof. exists CfgV2, f08_history. vm_compute. repeat split. Qed.

(* the v3 configuration store as it is now (every iteration works on its own copy of the path value, /repo 2aad659):
   oracle [] - each written path receives its own value, exactly as in the v2 store *)
Lemma v3_values_own_copy : forall vals m, store_vals_v3 [] vals m = store_vals vals m.
Proof. intros. reflexivity. Qed.

(* the v3 configuration store BEFORE 2aad659 (shared loop variable, oracle = the path visited last): one Create with
   two paths stores the same value under both *)
Theorem v3_values_aliased_before_repair :
  exists o, o_vals o = Some [(B "/a", pv1 5 1); (B "/c", pv1 48 3)] /\
    snd (fst (fst (step CfgV3 OCreate o init))) = COk /\
    get_pvs (o_key o) (s_pvs (fst (fst (fst (step CfgV3 OCreate o init))))) = [(B "/a", pv1 5 1); (B "/c", pv1 5 1)].
Proof.
  exists {| o_key := B "c"; o_log := []; o_idok := true; o_tgtok := true; o_txok := true; o_version := 0; o_revision := 0;
            o_index := 0; o_payload := 1; o_vals := Some [(B "/a", pv1 5 1); (B "/c", pv1 48 3)]; o_avals := None; o_last := B "/a" |}.
  vm_compute. repeat split.
Qed.

(* non-trivial inputs satisfy the hypotheses *)
Example reachable_example : reachable TxV2 (fst (run TxV2 init [ {| c_op := OCreate; c_obj := cobj (B "t") 0 0 7 None |} ])).
Proof. eexists. reflexivity. Qed.

Example valid_example : valid PropV2 OUpdate (cobj (B "p") 3 1 7 None) = true.
Proof. reflexivity. Qed.

(* The configuration store's write (Model/CfgStore.v store_write, repaired version) entry by entry - not only through
   the live leaves as in StoreProofs.v: which value every key holds afterwards, that keys stay distinct, and that the
   tombstones above a written live value are gone.  Needed to show that a commit re-establishes the hypotheses of
   commit_store_refines (CommitPreserve.v). *)
From Coq Require Import List NArith Bool.
From OC Require Import Base.Bytes Model.Merge Model.CfgStore Proofs.MergeProofs Proofs.TextPathProofs Proofs.PruneProofs
     Proofs.StoreProofs Proofs.CommitProofs.
Import ListNotations.
Open Scope N_scope.

Section StoreFull.
  Context (M V : cfgmap).

  Definition clr_step (a : cfgmap) (anc : str) : cfgmap :=
    if map_has anc V then a else
    match map_get anc M with
    | Some e => if pv_deleted e then map_del anc a else a
    | None => a
    end.

  (* a tombstone of the stored map that the new values do not name *)
  Definition old_tomb (t : str) : Prop :=
    map_has t V = false /\ exists e, map_get t M = Some e /\ pv_deleted e = true.

  (* q holds what it held, or it is a key outside V that has been removed *)
  Definition same_or_dropped (r acc : cfgmap) (q : str) : Prop :=
    map_get q r = map_get q acc \/ (map_get q r = None /\ map_has q V = false).

  Lemma sod_refl acc q : same_or_dropped acc acc q.
  Proof. left. reflexivity. Qed.

  Lemma sod_trans r1 r2 r3 q : same_or_dropped r2 r1 q -> same_or_dropped r3 r2 q -> same_or_dropped r3 r1 q.
  Proof.
    intros [A|[A A']] [B|[B B']].
    - left. congruence.
    - right. auto.
    - right. split; [congruence | exact A'].
    - right. auto.
  Qed.

  Lemma clr_fold_full ancs : forall acc,
    let r := fold_left clr_step ancs acc in
    (nodup acc -> nodup r) /\
    (forall q, same_or_dropped r acc q) /\
    (forall t, In t ancs -> old_tomb t -> map_get t r = None).
  Proof.
    induction ancs as [|a ancs IH]; intros acc; cbn [fold_left].
    - split; [auto|]. split; [intros q; apply sod_refl | intros t []].
    - destruct (IH (clr_step acc a)) as [R1 [R2 R3]].
      assert (S1 : nodup acc -> nodup (clr_step acc a)).
      { unfold clr_step. destruct (map_has a V); [auto|]. destruct (map_get a M) as [e|]; [|auto].
        destruct (pv_deleted e); [apply nodup_map_del | auto]. }
      assert (S2 : forall q, same_or_dropped (clr_step acc a) acc q).
      { intros q. unfold clr_step. destruct (map_has a V) eqn:HV; [apply sod_refl|].
        destruct (map_get a M) as [e|]; [|apply sod_refl]. destruct (pv_deleted e); [|apply sod_refl].
        unfold same_or_dropped. rewrite map_get_del. deq q a; [right; auto | left; reflexivity]. }
      split; [intros H; apply R1, S1, H|]. split.
      + intros q. apply (sod_trans acc (clr_step acc a)); [apply S2 | apply R2].
      + intros t [<-|HI] OT; [|apply R3; assumption].
        assert (E : map_get a (clr_step acc a) = None).
        { unfold clr_step. destruct OT as [HV [e [GM De]]]. rewrite HV, GM, De. rewrite map_get_del, eqb_str_refl. reflexivity. }
        destruct (R2 a) as [H|[H _]]; [congruence | exact H].
  Qed.

  Lemma clear_full pv acc :
    let r := clear_deleted_ancestors M V pv acc in
    (nodup acc -> nodup r) /\
    (forall q, same_or_dropped r acc q) /\
    (pv_deleted pv = false -> forall t, In t (boundary_ancestors (pv_path pv)) -> old_tomb t -> map_get t r = None).
  Proof.
    unfold clear_deleted_ancestors. destruct (pv_deleted pv).
    - split; [auto|]. split; [intros q; apply sod_refl | discriminate].
    - destruct (clr_fold_full (boundary_ancestors (pv_path pv)) acc) as [R1 [R2 R3]].
      split; [exact R1|]. split; [exact R2|]. intros _. exact R3.
  Qed.

  (* the value the store holds for the path of pv afterwards, and whether pv is written *)
  Definition entry_after (pv : path_value) : option path_value :=
    match map_get (pv_path pv) M with
    | None => if kept (pv_path pv) V then Some pv else None
    | Some e => if negb (kept (pv_path pv) V) then None
                else if negb (pv_index pv =? pv_index e) then Some pv else Some e
    end.

  Definition written (pv : path_value) : bool :=
    match map_get (pv_path pv) M with
    | None => kept (pv_path pv) V
    | Some e => kept (pv_path pv) V && negb (pv_index pv =? pv_index e)
    end.

  Lemma store_step_full acc pv :
    map_has (pv_path pv) V = true ->
    map_get (pv_path pv) acc = map_get (pv_path pv) M ->
    let r := store_step M (prune_path_map V true) V acc pv in
    (nodup acc -> nodup r) /\
    map_get (pv_path pv) r = entry_after pv /\
    (forall q, q <> pv_path pv -> same_or_dropped r acc q) /\
    (written pv = true -> pv_deleted pv = false ->
     forall t, In t (boundary_ancestors (pv_path pv)) -> old_tomb t -> map_get t r = None).
  Proof.
    intros HV F. unfold store_step, entry_after, written. fold (kept (pv_path pv) V).
    destruct (clear_full pv (map_set (pv_path pv) pv acc)) as [C1 [C2 C3]].
    assert (SET : (nodup acc -> nodup (clear_deleted_ancestors M V pv (map_set (pv_path pv) pv acc))) /\
                  map_get (pv_path pv) (clear_deleted_ancestors M V pv (map_set (pv_path pv) pv acc)) = Some pv /\
                  (forall q, q <> pv_path pv ->
                             same_or_dropped (clear_deleted_ancestors M V pv (map_set (pv_path pv) pv acc)) acc q)).
    { split; [intros H; apply C1, nodup_map_set, H|]. split.
      - destruct (C2 (pv_path pv)) as [H|[_ H]]; [|congruence]. rewrite H, map_get_set, eqb_str_refl. reflexivity.
      - intros q Nq. destruct (C2 q) as [H|H]; [left | right; exact H].
        rewrite H, map_get_set. apply eqb_str_neq in Nq. rewrite Nq. reflexivity. }
    destruct SET as [T1 [T2 T3]].
    assert (DEL : (nodup acc -> nodup (map_del (pv_path pv) acc)) /\
                  map_get (pv_path pv) (map_del (pv_path pv) acc) = None /\
                  (forall q, q <> pv_path pv -> same_or_dropped (map_del (pv_path pv) acc) acc q)).
    { split; [apply nodup_map_del|]. split; [rewrite map_get_del, eqb_str_refl; reflexivity|].
      intros q Nq. left. rewrite map_get_del. apply eqb_str_neq in Nq. rewrite Nq. reflexivity. }
    destruct DEL as [D1 [D2 D3]].
    destruct (map_get (pv_path pv) M) as [e|] eqn:GM.
    - destruct (kept (pv_path pv) V) eqn:K; cbn [negb andb].
      + destruct (pv_index pv =? pv_index e) eqn:EI; cbn [negb].
        * split; [auto|]. split; [exact F|]. split; [intros q _; apply sod_refl | discriminate].
        * split; [exact T1|]. split; [exact T2|]. split; [exact T3|]. intros _. exact C3.
      + split; [exact D1|]. split; [exact D2|]. split; [exact D3 | discriminate].
    - destruct (kept (pv_path pv) V) eqn:K.
      + split; [exact T1|]. split; [exact T2|]. split; [exact T3|]. intros _. exact C3.
      + split; [auto|]. split; [exact F|]. split; [intros q _; apply sod_refl | discriminate].
  Qed.

  Lemma store_fold_full l : forall acc,
    NoDup (map pv_path l) -> (forall pv, In pv l -> map_has (pv_path pv) V = true) ->
    (forall pv, In pv l -> map_get (pv_path pv) acc = map_get (pv_path pv) M) ->
    let r := fold_left (store_step M (prune_path_map V true) V) l acc in
    (nodup acc -> nodup r) /\
    (forall pv, In pv l -> map_get (pv_path pv) r = entry_after pv) /\
    (forall q, ~ In q (map pv_path l) -> same_or_dropped r acc q) /\
    (forall pv, In pv l -> written pv = true -> pv_deleted pv = false ->
                forall t, In t (boundary_ancestors (pv_path pv)) -> old_tomb t -> map_get t r = None).
  Proof.
    induction l as [|x l IH]; intros acc ND HV F; cbn [fold_left].
    - split; [auto|]. split; [intros pv []|]. split; [intros q _; apply sod_refl | intros pv []].
    - inversion ND as [|? ? Hn ND']; subst.
      destruct (store_step_full acc x (HV x (or_introl eq_refl)) (F x (or_introl eq_refl))) as [S1 [S2 [S3 S4]]].
      set (r1 := store_step M (prune_path_map V true) V acc x) in *.
      assert (HV' : forall pv, In pv l -> map_has (pv_path pv) V = true) by (intros pv Hp; apply HV; right; exact Hp).
      assert (F' : forall pv, In pv l -> map_get (pv_path pv) r1 = map_get (pv_path pv) M).
      { intros pv Hp. rewrite <- (F pv (or_intror Hp)).
        assert (Nq : pv_path pv <> pv_path x) by (intros E; apply Hn; rewrite <- E; apply in_map; exact Hp).
        destruct (S3 _ Nq) as [H|[_ H]]; [exact H|]. rewrite (HV' pv Hp) in H. discriminate. }
      destruct (IH r1 ND' HV' F') as [R1 [R2 [R3 R4]]].
      split; [intros H; apply R1, S1, H|]. split; [|split].
      + intros pv [<-|Hp]; [|apply R2; exact Hp].
        destruct (R3 (pv_path x) Hn) as [H|[_ H]]; [congruence|].
        rewrite (HV x (or_introl eq_refl)) in H. discriminate.
      + intros q Hq. cbn in Hq.
        apply (sod_trans acc r1); [apply S3; intros E; apply Hq; left; symmetry; exact E|].
        apply R3. intros HI. apply Hq. right. exact HI.
      + intros pv [<-|Hp] W Dp t Ht OT; [|apply (R4 pv Hp W Dp t Ht OT)].
        assert (Nt : ~ In t (map pv_path l)).
        { intros HI. apply in_map_iff in HI. destruct HI as [y [<- Hy]]. destruct OT as [OT _].
          rewrite (HV' y Hy) in OT. discriminate. }
        destruct (R3 t Nt) as [H|[H _]]; [|exact H]. rewrite H. apply (S4 W Dp t Ht OT).
  Qed.
End StoreFull.

Lemma map_has_in_keys k m : In k (map fst m) -> map_has k m = true.
Proof. intros H. apply map_get_in_keys in H. unfold map_has. destruct (map_get k m); [reflexivity | congruence]. Qed.

(* the store write, entry by entry *)
Theorem store_write_full M V : keys_ok V -> nodup V ->
  (nodup M -> nodup (store_write M V)) /\
  (forall q pv, map_get q V = Some pv -> map_get q (store_write M V) = entry_after M V pv) /\
  (forall q, map_get q V = None -> map_get q (store_write M V) = map_get q M \/ map_get q (store_write M V) = None) /\
  (forall p pv, map_get p V = Some pv -> written M V pv = true -> pv_deleted pv = false ->
                forall t, In t (boundary_ancestors p) -> old_tomb M V t -> map_get t (store_write M V) = None).
Proof.
  intros KO ND. unfold store_write.
  assert (PK : map pv_path (map snd V) = map fst V) by (apply paths_are_keys; exact KO).
  destruct (store_fold_full M V (map snd V) M) as [R1 [R2 [R3 R4]]].
  - rewrite PK. exact ND.
  - intros pv HI. apply in_map_iff in HI. destruct HI as [[k v] [E HI]]. cbn in E. subst v.
    apply map_has_in_keys. rewrite <- (KO _ _ HI). apply (in_map fst) in HI. exact HI.
  - reflexivity.
  - split; [exact R1|]. split; [|split].
    + intros q pv G. apply map_get_some_in in G. rewrite (KO _ _ G). apply R2. apply in_map_iff. exists (q, pv). auto.
    + intros q G. destruct (R3 q) as [H|[H _]]; [|left; exact H | right; exact H].
      rewrite PK. apply map_get_none_notin. exact G.
    + intros p pv G W Dp t Ht OT. apply map_get_some_in in G. apply (R4 pv); try assumption.
      * apply in_map_iff. exists (p, pv). auto.
      * rewrite <- (KO _ _ G). exact Ht.
Qed.

(* ------------------------------------------------------------------ PrunePathMap: the converse of kept_intro *)
Lemma is_below_deleted_intro values p t :
  keys_ok values -> tomb values t -> In t (boundary_ancestors p) ->
  is_below_deleted p (map pv_path (filter pv_deleted (isort pv_leb (map snd values)))) = true.
Proof.
  intros KO [e [HI De]] HA.
  set (D := map pv_path (filter pv_deleted (isort pv_leb (map snd values)))).
  assert (HD : In t D).
  { unfold D. rewrite (KO _ _ HI). apply in_map. apply filter_In. split; [|exact De].
    apply (Permutation.Permutation_in _ (isort_perm pv_leb (map snd values))). apply in_map_iff. exists (t, e). auto. }
  unfold is_below_deleted. destruct D as [|d0 D'] eqn:ED; [destruct HD|]. rewrite <- ED.
  apply orb_true_iff. right. destruct p as [|c0 rest]; [destruct HA|].
  apply existsb_exists. exists t. split; [unfold boundary_ancestors in HA; rewrite <- in_rev in HA; exact HA|].
  apply mem_str_in. rewrite ED. exact HD.
Qed.

Lemma kept_elim values p t :
  keys_ok values -> kept p values = true -> tomb values t -> ~ In t (boundary_ancestors p).
Proof.
  intros KO K HT HA. unfold kept, prune_path_map in K. rewrite fold_set_has in K. cbn [map_has map_get orb] in K.
  apply existsb_exists in K. destruct K as [pv [HI E]]. apply eqb_str_eq in E. subst p.
  unfold prune_path_values in HI. apply filter_In in HI. destruct HI as [_ H].
  apply andb_true_iff in H. destruct H as [H _]. apply negb_true_iff in H.
  rewrite (is_below_deleted_intro values (pv_path pv) t KO HT HA) in H. discriminate.
Qed.

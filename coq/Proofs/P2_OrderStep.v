(* Single-step theorems over the v2 protocol model (all worlds, all labels, all oracles, every crash prefix):
     - the committed values of a configuration change only by the Commit of a proposal that is in its Commit phase,
       on top of its predecessor, and become exactly commit_merge of the snapshot (C01);
     - a proposal's validation becomes done only in a step of its own reconciler whose snapshot has the predecessor
       committed, a plugin, an accepting verdict on exactly the candidate built from that snapshot (C05);
     - without plugin / with a rejecting verdict the invocation's only effect marks the proposal validate-FAILED (C05);
     - at a fixpoint of all reconcilers every transaction has all of its proposals committed or none in Commit (C01). *)
From stdpp Require Import gmap.
From RecordUpdate Require Import RecordUpdate.
From Coq Require Import NArith Lia.
From OC Require Import Model.Proto2 Proofs.P2Base Proofs.P2Phases Proofs.P2_Order.
Open Scope N_scope.

Section Step.
  Context {V Ch Req D : Type}.
  Context (candidate : V -> Ch -> V) (candidate_rb : V -> Ch -> V) (rollback_of : V -> Ch -> Ch)
          (overlay : V -> V -> V) (commit_merge : N -> N -> V -> V -> Ch -> V)
          (payload : N -> V -> Ch -> option Req) (record_applied : N -> N -> V -> V -> V -> Ch -> V)
          (touched : N -> V -> Ch -> V) (restore : V -> V -> V)
          (resync_payload : V -> list (option Req)) (doc_ok : V -> bool)
          (dev_apply : D -> Req -> D) (stamp : N -> Ch -> Ch) (v_empty : V) (d_empty : D) (ch_empty : Ch).

  Notation world := (@world V Ch Req D).
  Notation eff := (@eff V Ch Req).
  Notation txn := (@txn Ch).
  Notation prop := (@prop Ch).
  Notation config := (@config V).
  Notation apply_eff := (@apply_eff V Ch Req D dev_apply d_empty).
  Notation rec_tx := (@rec_tx V Ch Req D stamp).
  Notation rec_prop := (@rec_prop V Ch Req D candidate candidate_rb rollback_of overlay commit_merge payload record_applied
                                  touched restore doc_ok v_empty d_empty ch_empty).
  Notation rec_cfg := (@rec_cfg V Ch Req D overlay restore resync_payload v_empty d_empty).
  Notation rec_master := (@rec_master V Ch Req D overlay restore v_empty).
  Notation rec_conn := (@rec_conn V Ch Req D).
  Notation reconcile := (@reconcile V Ch Req D candidate candidate_rb rollback_of overlay commit_merge payload record_applied
                                    touched restore resync_payload doc_ok stamp v_empty d_empty ch_empty).
  Notation step := (@step V Ch Req D candidate candidate_rb rollback_of overlay commit_merge payload record_applied
                          touched restore resync_payload doc_ok dev_apply stamp v_empty d_empty ch_empty).
  Notation reach := (@reach V Ch Req D candidate candidate_rb rollback_of overlay commit_merge payload record_applied
                            touched restore resync_payload doc_ok dev_apply stamp v_empty d_empty ch_empty).
  Notation view := (@view V overlay).
  Notation aview := (@aview V overlay).
  Notation pcase := (@pcase V Ch Req D candidate candidate_rb rollback_of overlay commit_merge doc_ok v_empty ch_empty).
  Notation pwrite := (@pwrite V Ch Req D candidate candidate_rb rollback_of overlay doc_ok ch_empty).
  Notation vdoc := (@vdoc V Ch Req D candidate candidate_rb rollback_of overlay ch_empty).
  Notation rec_prop_pcase := (@rec_prop_pcase V Ch Req D candidate candidate_rb rollback_of overlay commit_merge payload
                                              record_applied touched restore doc_ok v_empty d_empty ch_empty).
  Notation K_reach := (@K_reach V Ch Req D candidate candidate_rb rollback_of overlay commit_merge payload record_applied
                                touched restore resync_payload doc_ok dev_apply stamp v_empty d_empty ch_empty).

  (** * Effects that leave the committed values of an existing configuration alone *)
  Definition vcalm (e : eff) : Prop := match e with EPutValues _ _ => False | _ => True end.
  Lemma calm_vcalm e : calm e -> vcalm e.
  Proof. destruct e; cbn; auto. Qed.

  Lemma cv_eff (w : world) e t :
    vcalm e -> is_Some (cfgs w !! t) -> c_values <$> (cfgs (apply_eff w e) !! t) = c_values <$> (cfgs w !! t).
  Proof.
    intros Hv [C HC]. rewrite cfgs_apply_eff.
    destruct e as [| | |t0 c0|t0 c0|t0 v0|t0 v0| | |]; try reflexivity; try destruct Hv.
    - destruct (cfgs w !! t0) eqn:E0; [reflexivity|]. destruct (decide (t0 = t)) as [->|Hne]; [congruence|].
      rewrite lookup_insert_ne by exact Hne. reflexivity.
    - destruct (cfgs w !! t0) eqn:E0; [|reflexivity]. destruct (decide (t0 = t)) as [->|Hne].
      + rewrite lookup_insert, HC. rewrite HC in E0. injection E0 as <-. reflexivity.
      + rewrite lookup_insert_ne by exact Hne. reflexivity.
    - destruct (cfgs w !! t0) eqn:E0; [|reflexivity]. destruct (decide (t0 = t)) as [->|Hne].
      + rewrite lookup_insert, HC. rewrite HC in E0. injection E0 as <-. reflexivity.
      + rewrite lookup_insert_ne by exact Hne. reflexivity.
  Qed.

  Lemma cv_fold t (effs : list eff) : forall w : world, Forall vcalm effs -> is_Some (cfgs w !! t) ->
    c_values <$> (cfgs (fold_left apply_eff effs w) !! t) = c_values <$> (cfgs w !! t).
  Proof.
    induction effs as [|e r IH]; intros w Hf Hs; [reflexivity|]. inversion Hf as [|? ? He Hr]; subst. cbn.
    rewrite IH; [apply cv_eff; assumption|exact Hr|apply cfgs_keep; exact Hs].
  Qed.

  (** * What the transaction reconciler writes *)
  Definition txeff (w : world) (e : eff) : Prop :=
    match e with
    | EPutTx _ _ => True
    | ECreateProp _ _ => True
    | EPutProp k' P' => exists p : prop, props w !! k' = Some p /\
        (P' = p <| p_apply := Some Doing |> \/ P' = p <| p_abort := Some Doing |> \/
         P' = p <| p_commit := Some Doing |> \/ P' = p <| p_validate := Some Doing |>)
    | _ => False
    end.

  Lemma phase_scan_txeff (w : world) i (T : txn) tg get start stop onf ond :
    (forall p : prop, start p = p <| p_apply := Some Doing |> \/ start p = p <| p_abort := Some Doing |> \/
                      start p = p <| p_commit := Some Doing |> \/ start p = p <| p_validate := Some Doing |>) ->
    Forall (txeff w) (fst (phase_scan w i T tg get start stop onf ond)).
  Proof.
    intros Hs. unfold phase_scan. destruct (scan_props w i tg _) as [[u|[t p]]|] eqn:E; cbn.
    - constructor.
    - apply scan_inr in E. destruct E as (_ & Hp & _). destruct (is_none (get p)); repeat constructor. cbn. eauto.
    - destruct (default false _); repeat constructor.
  Qed.

  Lemma gate_txeff (w : world) i (T : txn) tg need next r : Forall (txeff w) (fst (gate w i T tg need next r)).
  Proof. unfold gate. destruct (all_props w i tg _); [|constructor]. destruct (blocked_by_prev w i tg need); repeat constructor. Qed.

  Lemma create_props_txeff (w w0 : world) i (l : list (N * prop)) : Forall (txeff w) (create_props w0 i l).
  Proof.
    induction l as [|[t p] l IH]; cbn; [constructor|]. destruct (props w0 !! (t, i)); cbn; [exact IH|].
    constructor; [exact I|exact IH].
  Qed.

  Lemma rec_tx_txeff (w : world) i : Forall (txeff w) (fst (rec_tx w i)).
  Proof.
    unfold Proto2.rec_tx, Proto2.fail_init. destruct_matches; cbn [fst];
      first [ solve [apply phase_scan_txeff; intros ?; cbn; first [left; reflexivity | right; left; reflexivity | right; right; left; reflexivity | right; right; right; reflexivity]]
            | apply gate_txeff
            | apply Forall_app_2; [apply create_props_txeff|repeat constructor]
            | solve [repeat constructor]
            | match goal with E : scan_props _ _ _ _ = Some (inr (_, _)) |- _ =>
                apply scan_inr in E; destruct E as (_ & E & _); constructor; [cbn; eauto|constructor] end ].
  Qed.

  Lemma txeff_vcalm (w : world) e : txeff w e -> vcalm e.
  Proof. destruct e; cbn; auto. Qed.

  (** * C01: committed values change only by a commit *)
  Theorem values_only_by_commit (w : world) l t (C C' : config) :
    cfgs w !! t = Some C -> cfgs (step w l) !! t = Some C' -> c_values C' <> c_values C ->
    exists i n o (P : prop), l = LRec (CtlProp (t, i)) n o /\ props w !! (t, i) = Some P /\
      p_commit P = Some Doing /\ p_apply P = None /\ p_abort P = None /\ c_committed C = p_prev P /\ (0 < n)%nat /\
      c_values C' = commit_merge (o_order o) i (c_values C) (view C) (rb_change ch_empty P).
  Proof.
    intros HC HC' Hne.
    assert (Hcalm : forall (w1 : world) effs, cfgs w1 !! t = Some C -> Forall vcalm effs ->
                      cfgs (fold_left apply_eff effs w1) !! t = Some C' -> False).
    { intros w1 effs H1 Hf Hx. pose proof (cv_fold t effs w1 Hf (ex_intro _ C H1)) as Hcv.
      rewrite Hx, H1 in Hcv. cbn in Hcv. congruence. }
    destruct l as [chs sy se|ri|c n o|c t0|c|c t0|t0 p|t0|t0]; cbn [Proto2.step] in HC'.
    1,2,5,7,8,9: cbn in HC'; congruence.
    2: destruct (conns w !! c); cbn in HC'; congruence.
    2: destruct (rels w !! c); cbn in HC'; congruence.
    destruct c as [i|k|t0|t0|cc]; cbn [Proto2.reconcile] in HC'.
    - exfalso. eapply (Hcalm w _ HC); [|exact HC']. apply Forall_take.
      eapply Forall_impl; [apply rec_tx_txeff|]. apply txeff_vcalm.
    - pose proof (rec_prop_pcase o w k) as Hpc. remember (fst (rec_prop o w k)) as effs eqn:Heff. clear Heff.
      destruct Hpc as [effs Hf | pre post k' P P' Hf Hf2 HP Hpw Hk | P C0 ci HP HC0 Hc Ha Hab Hcm Hci].
      + exfalso. eapply (Hcalm w _ HC); [|exact HC']. apply Forall_take. eapply Forall_impl; [exact Hf|]. apply calm_vcalm.
      + exfalso. eapply (Hcalm w _ HC); [|exact HC']. apply Forall_take. apply Forall_app_2.
        * eapply Forall_impl; [exact Hf|]. apply calm_vcalm.
        * constructor; [exact I|]. eapply Forall_impl; [exact Hf2|]. apply calm_vcalm.
      + destruct n as [|n]; [cbn in HC'; congruence|]. cbn [take fold_left] in HC'.
        destruct k as [t1 i]. cbn [fst snd] in *.
        set (v := commit_merge (o_order o) i (c_values C0) (view C0) (rb_change ch_empty P)) in *.
        destruct (decide (t1 = t)) as [->|Hnt].
        * rewrite HC in HC0. injection HC0 as <-.
          match type of HC' with context [fold_left _ (take n ?l) ?w1] =>
            assert (Hf : Forall vcalm (take n l)) by (apply Forall_take; repeat constructor);
            assert (H1 : cfgs w1 !! t = Some (C <| c_values := v |>)) by (cbn; rewrite HC; cbn; rewrite lookup_insert; reflexivity);
            pose proof (cv_fold t _ _ Hf (ex_intro _ _ H1)) as Hcv
          end.
          rewrite HC', H1 in Hcv. cbn in Hcv. injection Hcv as Hcv.
          exists i, (S n), o, P. apply N.eqb_eq in Hcm. repeat split; auto. lia.
        * exfalso.
          match type of HC' with context [fold_left _ (take n ?l) ?w1] =>
            assert (H1 : cfgs w1 !! t = Some C) by (cbn; rewrite HC0; cbn; rewrite lookup_insert_ne by exact Hnt; exact HC)
          end.
          eapply (Hcalm _ _ H1); [|exact HC']. apply Forall_take. repeat constructor.
    - exfalso. eapply (Hcalm w _ HC); [|exact HC']. apply Forall_take. eapply Forall_impl; [apply rec_cfg_calm|]. apply calm_vcalm.
    - exfalso. eapply (Hcalm w _ HC); [|exact HC']. apply Forall_take. eapply Forall_impl; [apply rec_master_calm|]. apply calm_vcalm.
    - exfalso. eapply (Hcalm w _ HC); [|exact HC']. apply Forall_take. eapply Forall_impl; [apply rec_conn_calm|]. apply calm_vcalm.
  Qed.

  (** * C05: when a validation becomes done *)
  Lemma props_fold (effs : list eff) : forall (w : world) k (P P' : prop),
    props w !! k = Some P -> props (fold_left apply_eff effs w) !! k = Some P' -> P' = P \/ In (EPutProp k P') effs.
  Proof.
    induction effs as [|e r IH]; intros w k P P' HP HP'; cbn [fold_left] in HP'; [left; rewrite HP in HP'; injection HP' as <-; reflexivity|].
    assert (Hcase : props (apply_eff w e) !! k = Some P \/ exists P1, e = EPutProp k P1 /\ props (apply_eff w e) !! k = Some P1).
    { rewrite props_apply_eff. destruct e as [|k0 p0|k0 p0| | | | | | |]; auto.
      - destruct (props w !! k0) eqn:E0; auto. destruct (decide (k0 = k)) as [->|Hne]; [congruence|].
        rewrite lookup_insert_ne by exact Hne. auto.
      - destruct (decide (k0 = k)) as [->|Hne]; [right; exists p0; rewrite lookup_insert; auto|].
        rewrite lookup_insert_ne by exact Hne. auto. }
    destruct Hcase as [H1|(P1 & -> & H1)].
    - destruct (IH _ _ _ _ H1 HP') as [->|Hin]; [left; reflexivity|right; right; exact Hin].
    - destruct (IH _ _ _ _ H1 HP') as [->|Hin]; [right; left; reflexivity|right; right; exact Hin].
  Qed.

  Lemma In_take {A} (x : A) n l : In x (take n l) -> In x l.
  Proof. revert n. induction l as [|y l IH]; intros [|n]; cbn; try tauto. intros [->|H]; [auto|right; eauto]. Qed.

  Theorem validated_on_predecessor (w : world) l k (P P' : prop) :
    props w !! k = Some P -> props (step w l) !! k = Some P' -> p_validate P' = Some Done -> p_validate P <> Some Done ->
    exists n o (C : config) cand rbi rbv, l = LRec (CtlProp k) n o /\ cfgs w !! k.1 = Some C /\
      p_validate P = Some Doing /\ p_commit P = None /\ p_apply P = None /\ p_abort P = None /\
      (p_prev P = 0 \/ c_committed C = p_prev P) /\ o_plugin o = true /\ o_verdict o = true /\
      doc_ok cand = true /\ vdoc w k.1 C P cand rbi rbv /\
      P' = P <| p_rbindex := rbi |> <| p_rbvalues := rbv |> <| p_validate := Some Done |>.
  Proof.
    intros HP HP' Hd Hnd.
    destruct l as [chs sy se|ri|c n o|c t0|c|c t0|t0 p|t0|t0]; cbn [Proto2.step] in HP'.
    1,2,5,7,8,9: cbn in HP'; congruence.
    2: destruct (conns w !! c); cbn in HP'; congruence.
    2: destruct (rels w !! c); cbn in HP'; congruence.
    destruct (props_fold _ _ _ _ _ HP HP') as [->|Hin]; [congruence|]. apply In_take in Hin.
    assert (Hnc : forall effs : list eff, Forall calm effs -> In (EPutProp k P') effs -> False).
    { intros effs Hf Hi. rewrite List.Forall_forall in Hf. exact (Hf _ Hi). }
    destruct c as [i|k0|t0|t0|cc]; cbn [Proto2.reconcile] in Hin.
    - exfalso. pose proof (rec_tx_txeff w i) as Hf. rewrite List.Forall_forall in Hf. specialize (Hf _ Hin). cbn in Hf.
      destruct Hf as (p & Hp & Hor). rewrite HP in Hp. injection Hp as <-.
      destruct Hor as [-> | [-> | [-> | ->]]]; cbn in Hd; congruence.
    - pose proof (rec_prop_pcase o w k0) as Hpc. remember (fst (rec_prop o w k0)) as effs eqn:Heff. clear Heff.
      destruct Hpc as [effs Hf | pre post k' P0 P0' Hf Hf2 HP0 Hpw Hk | P0 C0 ci HP0 HC0 Hc Ha Hab Hcm Hci].
      + exfalso. eauto.
      + apply in_app_or in Hin. destruct Hin as [Hin|[Heq|Hin]]; [exfalso; eauto| |exfalso; eauto]. injection Heq as -> ->.
        rewrite HP in HP0. injection HP0 as <-.
        destruct Hk as [-> | [m ->]]; [|cbn in Hd; congruence].
        destruct Hpw; cbn in Hd; try congruence.
        exists n, o, C, cand, rbi, rbv.
        match goal with H : negb (p_prev _ =? 0) && _ = false |- _ => rename H into Hpre end.
        match goal with H : negb (o_plugin o) = false |- _ => apply negb_false_iff in H end.
        match goal with H : negb (doc_ok cand) = false |- _ => apply negb_false_iff in H end.
        repeat split; auto.
        apply andb_false_iff in Hpre. destruct Hpre as [Hpre|Hpre]; apply negb_false_iff, N.eqb_eq in Hpre; auto.
      + exfalso. destruct Hin as [Heq|[Heq|[Heq|[]]]]; try discriminate Heq. injection Heq as -> <-.
        rewrite HP in HP0. injection HP0 as <-. cbn in Hd. congruence.
    - exfalso. exact (Hnc _ (rec_cfg_calm overlay restore resync_payload v_empty d_empty o w t0) Hin).
    - exfalso. exact (Hnc _ (rec_master_calm overlay restore v_empty o w t0) Hin).
    - exfalso. exact (Hnc _ (rec_conn_calm w cc) Hin).
  Qed.

  (** * C05: no plugin / rejecting verdict *)
  Theorem reject_or_no_plugin_fails (o : oracle) (w : world) t i (P : prop) (C : config) :
    props w !! (t, i) = Some P -> p_apply P = None -> p_abort P = None -> p_commit P = None -> p_validate P = Some Doing ->
    cfgs w !! t = Some C -> negb (p_prev P =? 0) && negb (c_committed C =? p_prev P) = false ->
    o_plugin o = false \/ o_verdict o = false ->
    rec_prop o w (t, i) = ([], RRetry) \/
    exists f, rec_prop o w (t, i) = ([EPutProp (t, i) (P <| p_validate := Some Failed |> <| p_vfail := Some f |>)], RDone) /\
              (o_plugin o = false -> f = FInvalid) /\ (forall ch, p_details P = PChange ch -> f = FInvalid).
  Proof.
    intros HP Ea Eb Ec Ev HC Hpre Hor. unfold Proto2.rec_prop, Proto2.vfail. rewrite HP, Ea, Eb, Ec, Ev, HC, Hpre. cbv zeta.
    destruct (o_plugin o) eqn:Epl; cbn [negb].
    2:{ right. exists FInvalid. auto. }
    destruct Hor as [Hx|Hvd]; [discriminate|]. rewrite Hvd.
    destruct_matches;
      first [ left; reflexivity
            | right; eexists; split; [reflexivity|split; [discriminate|intros; congruence]] ].
  Qed.

  Corollary reject_keeps_cfgs (o : oracle) (w : world) t i (P : prop) (C : config) n :
    props w !! (t, i) = Some P -> p_apply P = None -> p_abort P = None -> p_commit P = None -> p_validate P = Some Doing ->
    cfgs w !! t = Some C -> negb (p_prev P =? 0) && negb (c_committed C =? p_prev P) = false ->
    o_plugin o = false \/ o_verdict o = false ->
    cfgs (step w (LRec (CtlProp (t, i)) n o)) = cfgs w.
  Proof.
    intros HP Ea Eb Ec Ev HC Hpre Hor. cbn [Proto2.step Proto2.reconcile].
    destruct (reject_or_no_plugin_fails o w t i P C HP Ea Eb Ec Ev HC Hpre Hor) as [->|(f & -> & _)]; cbn [fst].
    - destruct n; reflexivity.
    - destruct n as [|[|n]]; reflexivity.
  Qed.

  (** * C01: all or none at a fixpoint *)
  Lemma scan_inl (w : world) i tg f u :
    scan_props w i tg f = Some (inl u) -> exists t, In t tg /\ props w !! (t, i) = None.
  Proof.
    induction tg as [|t0 ts IH]; cbn; [discriminate|].
    destruct (props w !! (t0, i)) as [p|] eqn:E; [|eauto].
    destruct (f p); [discriminate|]. intros H. destruct (IH H) as (t & Hin & Hn). eauto.
  Qed.

  Lemma all_props_false (w : world) i tg f :
    (forall t, In t tg -> is_Some (props w !! (t, i))) -> all_props w i tg f <> Some true ->
    exists t (p : prop), In t tg /\ props w !! (t, i) = Some p /\ f p = false.
  Proof.
    unfold all_props. induction tg as [|t0 ts IH]; cbn [foldr]; intros Hex Hne; [congruence|].
    destruct (Hex t0 (or_introl eq_refl)) as [p Hp]. destruct (f p) eqn:Ef.
    - destruct IH as (t & p' & Hin & Hp' & Hf').
      + intros t Hin. apply Hex. right. exact Hin.
      + intros Heq. apply Hne. rewrite Heq, Hp, Ef. reflexivity.
      + exists t, p'. repeat split; auto. right. exact Hin.
    - exists t0, p. repeat split; auto. left. reflexivity.
  Qed.

  Theorem all_or_none_at_fixpoint (w : world) :
    reach w -> (forall c o, fst (reconcile o w c) = []) ->
    forall i (T : txn), txs w !! i = Some T ->
      (forall t, In t (default [] (t_props T)) -> exists P, props w !! (t, i) = Some P /\ p_commit P = Some Done) \/
      (forall t P, props w !! (t, i) = Some P -> p_commit P = None).
  Proof.
    intros Hr Hfix i T HT. pose proof (K_reach w Hr) as HK. pose proof (k_J _ HK) as HJ.
    pose proof (j_tx _ HJ _ _ HT) as Hwf. destruct (wfb_spec _ _ _ _ _ _ Hwf) as (S1 & S2 & S3 & S4 & S5).
    assert (Hex : forall t, In t (default [] (t_props T)) -> exists P, props w !! (t, i) = Some P /\ agree T P).
    { intros t Hin. destruct (t_props T) as [tg|] eqn:Etg; [|destruct Hin]. eapply (k_agree _ HK); eauto. }
    destruct (t_commit T) as [[]|] eqn:Ec.
    - (* Doing: impossible at a fixpoint *)
      exfalso.
      assert (Ea : t_apply T = None) by (apply not_some_none; intros Hs; apply S3 in Hs; discriminate Hs).
      assert (Eb : t_abort T = None) by (apply not_some_none; intros Hs; apply S4 in Hs; destruct Hs; discriminate).
      pose proof (Hfix (CtlTx i) (mkOracle true true COk 0 0)) as Hf. cbn [Proto2.reconcile] in Hf.
      unfold Proto2.rec_tx in Hf. rewrite HT, Ea, Eb, Ec in Hf. unfold phase_scan in Hf.
      destruct (scan_props w i _ _) as [[u|[t p]]|] eqn:Hscan.
      + destruct (scan_inl _ _ _ _ _ Hscan) as (t & Hin & Hn). destruct (Hex t Hin) as (P & HP & _). congruence.
      + destruct (is_none (p_commit p)); discriminate Hf.
      + destruct (all_props w i _ _) as [[|]|] eqn:Hall; try discriminate Hf.
        all: destruct (all_props_false w i (default [] (t_props T)) (fun p => negb (bool_decide (p_commit p = Some Doing))))
               as (t & p & Hin & Hp & Hnd); [intros t Hin; destruct (Hex t Hin) as (P & HP & _); eauto|congruence|].
        all: apply negb_false_iff, bool_decide_eq_true in Hnd.
        all: pose proof (k_pord _ HK _ _ Hp) as Po; apply pordb_spec in Po; destruct Po as (O1 & O2 & O3 & O4 & _).
        all: assert (Epa : p_apply p = None) by (apply not_some_none; intros Hs; apply O3 in Hs; congruence).
        all: assert (Epb : p_abort p = None) by (apply not_some_none; intros Hs; apply O4 in Hs; destruct Hs; congruence).
        all: assert (Epi : p_init p = Some Done) by (apply O1; rewrite (O2 (ex_intro _ _ Hnd)); eauto).
        all: destruct (k_cfg _ HK _ _ _ Hp Epi) as [C HC].
        all: pose proof (Hfix (CtlProp (t, i)) (mkOracle true true COk 0 0)) as Hg; cbn [Proto2.reconcile] in Hg.
        all: unfold Proto2.rec_prop in Hg; rewrite Hp, Epa, Epb, Hnd, HC in Hg; cbv zeta in Hg.
        all: destruct (c_committed C =? p_prev p); discriminate Hg.
    - left. intros t Hin. destruct (Hex t Hin) as (P & HP & _ & _ & A3 & _). eauto.
    - exfalso. pose proof (k_tx2 _ HK _ _ HT) as H2. unfold tx_wf2, twf2b in H2. rewrite Ec in H2. discriminate H2.
    - right. intros t P HP. apply not_some_none. intros Hs.
      destruct (backed_imp (txs w) t i T P (j_back _ HJ _ _ HP) HT) as (_ & B2 & _).
      apply B2 in Hs. rewrite Ec in Hs. destruct Hs; discriminate.
  Qed.

  (* a transaction with a rejected proposal never alters any committed configuration, now or later *)
  Theorem rejected_never_alters (w : world) t i (P : prop) (ls : list (@label Ch)) l t' (C C' : config) :
    reach w -> props w !! (t, i) = Some P -> p_validate P = Some Failed ->
    cfgs (fold_left step ls w) !! t' = Some C -> cfgs (step (fold_left step ls w) l) !! t' = Some C' ->
    c_values C' <> c_values C ->
    exists j n o, l = LRec (CtlProp (t', j)) n o /\ j <> i.
  Proof.
    intros Hr HP Hf HC HC' Hne.
    destruct (values_only_by_commit _ _ _ _ _ HC HC' Hne) as (j & n & o & Q & -> & HQ & Hc & _).
    exists j, n, o. split; [reflexivity|]. intros ->.
    destruct (reject_never_commits candidate candidate_rb rollback_of overlay commit_merge payload record_applied touched restore
                resync_payload doc_ok dev_apply stamp v_empty d_empty ch_empty w t i P ls Hr HP Hf) as [Hno _].
    rewrite (Hno _ _ HQ) in Hc. discriminate Hc.
  Qed.
End Step.

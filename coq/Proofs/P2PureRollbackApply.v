(* C06, value level: applyChangeToConfig by lookup - one call, and the loop of reconcileCommit over the updated change
   values in any order, when no live value of the loop lies beneath a tombstone of the loop. *)
From Coq Require Import List Arith NArith Bool Lia Permutation.
From OC Require Import Base.Bytes Model.P2Pure Proofs.P2PureRollbackBase.
Import ListNotations.
Open Scope N_scope.

Definition is_tombb (m : cmap) (k : str) : bool :=
  match lookup k m with Some e => pv_deleted e | None => false end.
Definition ancb (k p : str) : bool := existsb (eqb_str k) (ancestors p).

Lemma ancb_below k p : proper k -> ancb k p = is_path_below p k.
Proof.
  intros P. unfold ancb. destruct (is_path_below p k) eqn:E.
  - apply existsb_exists. exists k. split; [apply ancestors_below; assumption | apply eqb_str_refl].
  - destruct (existsb _ _) eqn:X; [|reflexivity]. apply existsb_exists in X. destruct X as (a & Ha & Hk).
    apply eqb_str_eq in Hk. subst a. apply (ancestors_below k p P) in Ha. unfold below in Ha. congruence.
Qed.

Lemma is_tombb_proper m k : pk m -> is_tombb m k = true -> proper k.
Proof.
  unfold is_tombb. intros P H. destruct (lookup k m) eqn:E; [|discriminate]. eapply pk_lookup; eauto.
Qed.

(* the ancestor walk *)
Lemma drop_fold l : forall acc d,
  nd acc ->
  let r := fold_left (fun '(acc, dropped) a =>
               match lookup a acc with
               | Some e => if pv_deleted e then (remove a acc, Some (a, e)) else (acc, dropped)
               | None => (acc, dropped)
               end) l (acc, d) in
  nd (fst r) /\
  (forall k, lookup k (fst r) = if existsb (eqb_str k) l && is_tombb acc k then None else lookup k acc) /\
  (forall x, In x (fst r) -> In x acc) /\
  (forall dp dv, snd r = Some (dp, dv) ->
     d = Some (dp, dv) \/ (In dp l /\ lookup dp acc = Some dv /\ pv_deleted dv = true)) /\
  (forall a, In a l -> is_tombb acc a = true -> snd r <> None).
Proof.
  induction l as [|a l IH]; intros acc d N; cbn [fold_left].
  - cbn. split; [exact N|]. split; [reflexivity|]. split; [auto|]. split; [auto | intros a []].
  - destruct (lookup a acc) as [e|] eqn:E; [destruct (pv_deleted e) eqn:D|].
    + specialize (IH (remove a acc) (Some (a, e)) (nd_remove a acc N)). cbv zeta in IH.
      destruct IH as (I1 & I2 & I3 & I4 & I5). cbv zeta. split; [exact I1|]. split; [|split; [|split]].
      * intros k. rewrite I2. unfold is_tombb. rewrite (lookup_remove k a acc N). cbn [existsb].
        case_eqb k a; [subst; rewrite E, D, andb_false_r; reflexivity|]. reflexivity.
      * intros x Hx. eapply in_remove. apply I3. exact Hx.
      * intros dp dv H. apply I4 in H. destruct H as [[= <- <-]|(H1 & H2 & H3)].
        -- right. split; [left; reflexivity | auto].
        -- right. rewrite (lookup_remove dp a acc N) in H2. split; [right; exact H1|].
           destruct (eqb_str dp a); [discriminate | auto].
      * intros a' _ _. intros H.
        assert (forall l0 (s : cmap * option (str * pv)), snd s <> None ->
                snd (fold_left (fun '(acc, dropped) a =>
                       match lookup a acc with
                       | Some e => if pv_deleted e then (remove a acc, Some (a, e)) else (acc, dropped)
                       | None => (acc, dropped)
                       end) l0 s) <> None) as Keep.
        { clear. induction l0 as [|a0 l0 IH0]; intros [acc0 d0] Hs; cbn [fold_left]; [exact Hs|].
          apply IH0. destruct (lookup a0 acc0) as [e0|]; [destruct (pv_deleted e0)|]; cbn in *; congruence. }
        apply (Keep l (remove a acc, Some (a, e))); [cbn; discriminate | exact H].
    + specialize (IH acc d N). cbv zeta in IH. destruct IH as (I1 & I2 & I3 & I4 & I5). cbv zeta.
      split; [exact I1|]. split; [|split; [|split]].
      * intros k. rewrite I2. cbn [existsb]. case_eqb k a; [|reflexivity].
        subst. unfold is_tombb. rewrite E, D, !andb_false_r. reflexivity.
      * exact I3.
      * intros dp dv H. apply I4 in H. destruct H as [H|(H1 & H2)]; [auto | right; split; [right|]; auto].
      * intros a' [<-|Ha] Ht; [unfold is_tombb in Ht; rewrite E, D in Ht; discriminate | eapply I5; eauto].
    + specialize (IH acc d N). cbv zeta in IH. destruct IH as (I1 & I2 & I3 & I4 & I5). cbv zeta.
      split; [exact I1|]. split; [|split; [|split]].
      * intros k. rewrite I2. cbn [existsb]. case_eqb k a; [|reflexivity].
        subst. unfold is_tombb. rewrite E, !andb_false_r. reflexivity.
      * exact I3.
      * intros dp dv H. apply I4 in H. destruct H as [H|(H1 & H2)]; [auto | right; split; [right|]; auto].
      * intros a' [<-|Ha] Ht; [unfold is_tombb in Ht; rewrite E in Ht; discriminate | eapply I5; eauto].
Qed.

(** * one call *)
Lemma apply_lookup m p v k : nd m ->
  lookup k (fst (apply_change_to_config m p v)) =
  if eqb_str k p then Some v
  else if negb (pv_deleted v) && ancb k p && is_tombb m k then None else lookup k m.
Proof.
  intros N. unfold apply_change_to_config. destruct (pv_deleted v) eqn:D; cbn [fst negb andb].
  - apply lookup_insert.
  - destruct (drop_fold (ancestors p) (insert p v m) None (nd_insert p v m N)) as (_ & H & _).
    rewrite H. unfold is_tombb, ancb. rewrite !lookup_insert. case_eqb k p; [rewrite D, andb_false_r; reflexivity | reflexivity].
Qed.

Lemma apply_in m p v x : In x (fst (apply_change_to_config m p v)) -> x = (p, v) \/ In x m.
Proof.
  unfold apply_change_to_config. destruct (pv_deleted v).
  - cbn. destruct x as [k e]. intros H. apply in_insert in H. destruct H as [[-> ->]|H]; auto.
  - intros H.
    assert (forall l (s : cmap * option (str * pv)) y,
              In y (fst (fold_left (fun '(acc, dropped) a =>
                       match lookup a acc with
                       | Some e => if pv_deleted e then (remove a acc, Some (a, e)) else (acc, dropped)
                       | None => (acc, dropped)
                       end) l s)) -> In y (fst s)) as Sub.
    { clear. induction l as [|a l IH]; intros [acc d] y; cbn [fold_left]; [auto|]. intros H. apply IH in H.
      destruct (lookup a acc) as [e|]; [destruct (pv_deleted e)|]; cbn in *; [eapply in_remove; eauto | auto | auto]. }
    apply Sub in H. cbn in H. destruct x as [k e]. apply in_insert in H. destruct H as [[-> ->]|H]; auto.
Qed.

Lemma apply_nd m p v : nd m -> nd (fst (apply_change_to_config m p v)).
Proof.
  intros N. unfold apply_change_to_config. destruct (pv_deleted v); cbn [fst]; [apply nd_insert; exact N|].
  apply (drop_fold (ancestors p) (insert p v m) None (nd_insert p v m N)).
Qed.

Lemma apply_wf m p v : wf m -> pv_path v = p -> proper p -> wf (fst (apply_change_to_config m p v)).
Proof.
  intros (N & K & P) Hp Hq. split; [apply apply_nd; exact N|]. split.
  - intros k e H. apply apply_in in H. destruct H as [[= -> ->]|H]; auto.
  - intros k e H. apply apply_in in H. destruct H as [[= -> ->]|H]; eauto.
Qed.

(* the value handed back: a tombstone of the map that the path lies beneath *)
Lemma apply_dropped m p v dp dv : nd m ->
  snd (apply_change_to_config m p v) = Some (dp, dv) ->
  pv_deleted v = false /\ In dp (ancestors p) /\ lookup dp (insert p v m) = Some dv /\ pv_deleted dv = true.
Proof.
  intros N. unfold apply_change_to_config. destruct (pv_deleted v) eqn:D; [discriminate|].
  intros H. destruct (drop_fold (ancestors p) (insert p v m) None (nd_insert p v m N)) as (_ & _ & _ & H4 & _).
  apply H4 in H. destruct H as [H|H]; [discriminate | tauto].
Qed.

(** * the loop *)
Definition apply_loop (l st : cmap) : cmap :=
  fold_left (fun acc '(p, v) => fst (apply_change_to_config acc p v)) l st.

(* no live value of the loop lies beneath a tombstone of the loop *)
Definition no_conflict (l : cmap) : Prop :=
  forall p u t e, In (p, u) l -> pv_deleted u = false -> In (t, e) l -> pv_deleted e = true -> ~ below p t.

Definition live_below (l : cmap) (k : str) : bool :=
  existsb (fun '(p, u) => negb (pv_deleted u) && is_path_below p k) l.

Lemma wf_app_l (l : cmap) x : wf (l ++ [x]) -> wf l.
Proof.
  intros (N & K & P). unfold nd in N. rewrite map_app in N. cbn in N. apply NoDup_remove_1 in N. rewrite app_nil_r in N.
  split; [exact N|]. split; intros k v H; [apply K | eapply P]; apply in_or_app; left; exact H.
Qed.

Lemma apply_loop_spec l : forall st, wf l -> wf st -> no_conflict l ->
  wf (apply_loop l st) /\
  forall k, lookup k (apply_loop l st) =
            match lookup k l with
            | Some u => Some u
            | None => if is_tombb st k && live_below l k then None else lookup k st
            end.
Proof.
  induction l as [|[p v] l IH] using rev_ind; intros st Wl Ws NC.
  - cbn. split; [exact Ws|]. intros k. rewrite andb_false_r. reflexivity.
  - pose proof (wf_app_l _ _ Wl) as Wl'.
    assert (no_conflict l) as NC'.
    { intros p0 u t e H1 H2 H3 H4. apply (NC p0 u t e); auto; apply in_or_app; left; assumption. }
    destruct (IH st Wl' Ws NC') as (Wst & L). unfold apply_loop in *. rewrite fold_left_snoc.
    set (stl := fold_left _ l st) in *.
    destruct Wl as (Nl & Kl & Pl).
    assert (In (p, v) (l ++ [(p, v)])) as Hin by (apply in_or_app; right; left; reflexivity).
    pose proof (Kl _ _ Hin) as Hpv. pose proof (Pl _ _ Hin) as Hpp.
    split; [apply apply_wf; assumption|].
    intros k. rewrite (apply_lookup stl p v k (proj1 Wst)), lookup_app. cbn [lookup].
    assert (lookup p l = None) as Hpl.
    { apply lookup_none. unfold nd in Nl. rewrite map_app in Nl. cbn in Nl.
      intros H. apply NoDup_remove_2 in Nl. apply Nl. rewrite app_nil_r. exact H. }
    case_eqb k p; [subst k; rewrite Hpl; reflexivity|].
    rewrite L. destruct (lookup k l) as [u|] eqn:Ek.
    + (* a value of the loop is not dropped by a later live value *)
      destruct (negb (pv_deleted v) && ancb k p && is_tombb stl k) eqn:D; [|reflexivity]. exfalso.
      apply andb_true_iff in D. destruct D as [D D3]. apply andb_true_iff in D. destruct D as [D1 D2].
      unfold is_tombb in D3. rewrite L, Ek in D3. apply negb_true_iff in D1.
      assert (proper k) as Pk by (eapply (pk_lookup l); [apply Wl' | exact Ek]).
      rewrite (ancb_below k p Pk) in D2.
      apply (NC p v k u); auto. apply in_or_app. left. apply lookup_in. exact Ek.
    + unfold live_below. rewrite existsb_app. cbn [existsb]. rewrite orb_false_r. fold (live_below l k).
      unfold is_tombb at 1. rewrite L, Ek.
      destruct (is_tombb st k) eqn:T.
      * assert (proper k) as Pk by (eapply is_tombb_proper; [apply Ws | exact T]).
        rewrite (ancb_below k p Pk). cbn [andb].
        destruct (live_below l k); cbn [andb orb]; [rewrite andb_false_r; reflexivity|].
        fold (is_tombb st k). rewrite T, andb_true_r. reflexivity.
      * cbn [andb]. fold (is_tombb st k). rewrite T, andb_false_r. reflexivity.
Qed.

(* Get with wildcards after any history of acknowledged Sets, against the reference semantics: the leaves the Get filter
   returns from the stored map are exactly the leaves of the reference configuration gnmi_history that the query steps
   match (Spec/Gnmi.v qmatch). *)
From Coq Require Import List NArith Bool Lia.
From OC Require Import Base.Bytes Model.Merge Model.CfgStore Model.Wildcard Spec.Gnmi
     Proofs.MergeProofs Proofs.TextPathProofs Proofs.WildcardProofs Proofs.CommitProofs Proofs.CommitPreserve Proofs.CommitHistory
     Proofs.PathAbstraction Proofs.GnmiHistory Proofs.WildcardElements.
Import ListNotations.
Open Scope N_scope.

(* the text of a query never ends in "/" : processRequest's trimming leaves it alone *)
Lemma qrender_last_any q : q <> [] -> Forall qstep_wf q -> exists t c, qrender q = t ++ [c] /\ c <> c_slash.
Proof.
  induction q as [|s q IH]; intros NE F; [congruence|]. inversion F as [|? ? Fs Fq]; subst.
  destruct q as [|s2 q2].
  - unfold qrender. cbn [map concat]. rewrite app_nil_r. destruct s as [n|k v| |k|]; cbn [qrender_step qstep_wf] in *.
    + destruct Fs as [Hn Ln]. destruct (exists_last Hn) as [t [c ->]]. exists (c_slash :: t), c. split; [reflexivity|].
      assert (Q : qchar c = true).
      { unfold qlegal in Ln. rewrite forallb_forall in Ln. apply Ln. apply in_or_app. right. left. reflexivity. }
      destruct (legal_char_facts c (qchar_legal c Q)) as [_ [H _]]. exact H.
    + exists (c_lbr :: k ++ c_eq :: v), c_rbr. split; [cbn; rewrite <- app_assoc; reflexivity | discriminate].
    + exists [c_slash], c_star. split; [reflexivity | discriminate].
    + exists (c_lbr :: k ++ [c_eq; c_star]), c_rbr. split; [cbn; rewrite <- app_assoc; reflexivity | discriminate].
    + exists [c_slash; c_dot; c_dot], c_dot. split; [reflexivity | discriminate].
  - destruct (IH ltac:(discriminate) Fq) as [t [c [E H]]].
    exists (qrender_step s ++ t), c. split; [|exact H].
    unfold qrender in *. cbn [map concat] in *. rewrite E, app_assoc. reflexivity.
Qed.

Lemma trim_slash_query q : Forall qstep_wf q -> trim_slash (qrender q) = qrender q.
Proof.
  intros F. unfold trim_slash. destruct q as [|s0 q0]; [reflexivity|].
  destruct (qrender_last_any (s0 :: q0) ltac:(discriminate) F) as [t [c [E Hc]]]. unfold ends_with. rewrite E.
  destruct (suffixb [c_slash] (t ++ [c])) eqn:S; [|reflexivity]. apply suffixb_spec in S. destruct S as [r S].
  apply app_inj_tail in S. destruct S as [_ S]. congruence.
Qed.

(* what the reference configuration holds was put there by an update *)
Lemma glookup_in g sp v : glookup g sp = Some v -> In (sp, v) g.
Proof.
  induction g as [|[p w] g IH]; cbn; [discriminate|]. destruct (eqb_spath sp p) eqn:E.
  - apply eqb_spath_eq in E. subst p. intros [= ->]. left. reflexivity.
  - intros H. right. apply IH. exact H.
Qed.

Lemma in_deletes ds : forall g e, In e (fold_left gnmi_delete ds g) -> In e g.
Proof.
  induction ds as [|d ds IH]; intros g e H; [exact H|]. cbn [fold_left] in H. apply IH in H.
  unfold gnmi_delete in H. apply filter_In in H. apply H.
Qed.

Lemma in_updates us : forall g e, In e (fold_left gnmi_update us g) -> In e us \/ In e g.
Proof.
  induction us as [|u us IH]; intros g e H; [right; exact H|]. cbn [fold_left] in H. apply IH in H.
  destruct H as [H|H]; [left; right; exact H|]. unfold gnmi_update in H. destruct H as [H|H].
  - left. left. exact H.
  - right. apply filter_In in H. apply H.
Qed.

Lemma in_history rs : forall g e, In e (gnmi_history g rs) -> (exists r, In r rs /\ In e (g_updates r)) \/ In e g.
Proof.
  unfold gnmi_history. induction rs as [|r rs IH]; intros g e H; [right; exact H|]. cbn [fold_left] in H.
  apply IH in H. destruct H as [[r' [H1 H2]]|H]; [left; exists r'; split; [right; exact H1 | exact H2]|].
  unfold gnmi_apply in H. apply in_updates in H. destruct H as [H|H].
  - left. exists r. split; [left; reflexivity | exact H].
  - right. apply in_deletes in H. exact H.
Qed.

Lemma glookup_updated rs sp v : glookup (gnmi_history [] rs) sp = Some v -> gupdated rs sp.
Proof.
  intros H. apply glookup_in, in_history in H. destruct H as [[r [H1 H2]]|[]].
  exists r, (sp, v). auto.
Qed.

(* all paths of the history are over the characters "*" stands for *)
Definition legal_history (h : list (N * greq)) : Prop :=
  forall ir sp, In ir h -> In sp (req_paths (snd ir)) -> lpath sp.

Theorem get_history_reference h q : ghistory_ok h -> legal_history h -> query_wf q ->
  forall t v,
    In (t, v) (get_leaves (run_history [] (map text_req h)) (qrender q)) <->
    exists sp, t = render sp /\ glookup (gnmi_history [] (map snd h)) sp = Some v /\ qmatch q sp = true.
Proof.
  intros H LH Q t v. set (M := run_history [] (map text_req h)).
  destruct (history_invariant _ (text_history_ok h H)) as [KM [NM _]]. fold M in KM, NM.
  unfold get_leaves. rewrite (trim_slash_query q (proj1 Q)). unfold get_filter. rewrite in_map_iff.
  assert (LIVE : forall sp, gupdated (map snd h) sp -> lpath sp).
  { intros sp [r [u [Hr [Hu <-]]]]. apply in_map_iff in Hr. destruct Hr as [ir [<- Hir]].
    apply (LH ir (fst u) Hir). unfold req_paths. apply in_or_app. left. apply in_map. exact Hu. }
  split.
  - intros [pv [E HI]]. injection E as <- <-. apply filter_In in HI. destruct HI as [HI HB].
    apply andb_true_iff in HB. destruct HB as [HM HD]. apply negb_true_iff in HD.
    apply in_map_iff in HI. destruct HI as [[k pv'] [E HI]]. cbn in E. subst pv'.
    pose proof (KM _ _ HI) as Ek. subst k.
    assert (Lv : live M (pv_path pv) = Some (pv_val pv)).
    { unfold live. rewrite (map_get_in _ _ _ NM HI). unfold live_of. rewrite HD. reflexivity. }
    destruct (elements_history_complete h H (pv_path pv)) as [sp [U E]]; [fold M; congruence|].
    pose proof (LIVE sp U) as L. exists sp. split; [exact E|]. split.
    + rewrite <- (elements_history_refines h H sp (lpath_wf sp L)). fold M. rewrite <- E. exact Lv.
    + rewrite E, (wildcard_elements q sp Q L) in HM. exact HM.
  - intros [sp [-> [G HM]]].
    assert (L : lpath sp).
    { apply LIVE. apply (glookup_updated _ sp v G). }
    rewrite <- (elements_history_refines h H sp (lpath_wf sp L)) in G. fold M in G.
    unfold live in G. destruct (map_get (render sp) M) as [pv|] eqn:GM; [|discriminate].
    unfold live_of in G. destruct (pv_deleted pv) eqn:D; [discriminate|]. injection G as <-.
    apply map_get_some_in in GM. exists pv. split.
    + rewrite <- (KM _ _ GM). reflexivity.
    + apply filter_In. split; [apply in_map_iff; exists (render sp, pv); auto|].
      rewrite <- (KM _ _ GM), (wildcard_elements q sp Q L), HM, D. reflexivity.
Qed.

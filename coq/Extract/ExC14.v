From Coq Require Import Extraction ExtrOcamlBasic.
From OC Require Import Base.Bytes Model.Rbac.
Extraction "model.ml" temporary_evaluate set_gate get_all_targets has_identity.

From Coq Require Import Extraction ExtrOcamlBasic.
From OC Require Import Base.Bytes Model.P2Pure Model.Proto2 Model.P2Inst.
Extraction "model.ml" p2_reconcile p2_apply_eff p2_step p2_init mk_world w_txs w_props w_cfgs w_targets w_rels w_conns w_devs
  devlog next_index live overlay is_path_below classify observed tstate_rank add_delete_children permute rb_change view candidate candidate_rb resync_payload aview.

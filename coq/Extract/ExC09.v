From Coq Require Import Extraction ExtrOcamlBasic.
From OC Require Import Base.Bytes Model.P2Pure Model.Proto2 Model.P2Inst Model.Proto2Queue Model.P2QInst.
Extraction "model.ml" q_step q_init q_enabled q_all_ctrls q_summary o_quiet p2_reconcile qw queue
  w_txs w_props w_cfgs w_targets w_rels w_conns.

From Coq Require Import Extraction ExtrOcamlBasic.
From OC Require Import Base.Bytes Model.PanicSkel.
Extraction "model.ml" set_handler get_handler subscribe_handler lsq_handler capabilities_handler list_models_handler
  rollback_handler admin_store_handler state_ok stored_ok set_wire_ok get_wire_ok lsq_wire_ok is_path_valid tree_guard leaf_guard
  str_path wildcard_regexp must_compile.

From Coq Require Import Extraction ExtrOcamlBasic.
From OC Require Import Base.Bytes Model.Failure Model.Watch2 Model.Handler Gen.Tables.
Extraction "model.ml"
  set_wait rollback_wait set_handler rollback_handler set_wait_placed rollback_wait_placed
  delivered log_delivered placement_ok events_of
  path_parses response_rows rows_of
  lib_status status_of status_of_failure class_of_code
  sync_of_N state_of_N failure_of_N code_of_N N_of_code N_of_ctor all_ctors
  reached terminal valid_history awaited last_status
  set_failure_ctor rollback_failure_ctor set_wait_ok rollback_wait_ok.

From Coq Require Import Extraction ExtrOcamlBasic.
From OC Require Import Base.Bytes Model.Subscribe.
Extraction "model.ml" split process run fwd_to relayed names entries_for check_case.

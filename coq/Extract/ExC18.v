From Coq Require Import Extraction ExtrOcamlBasic.
From OC Require Import Base.Bytes Model.Tree Model.TreeSpec.
Extraction "model.ml" build_tree prune prune_map split_path is_path_below below_deleted leaf_of conv dec_of_Z dec_of_N wf_set.

From Coq Require Import Extraction ExtrOcamlBasic ZArith NArith.
From OC Require Import Base.Bytes Model.PathModel Model.SetReq.
Extraction "model.ml" set_resolve response_panics parse_limit dec_z dec_n digits_val
  str_path effective_path json_base_path find_path_from_model check_key_value is_path_valid
  remove_path_indices anonymize_path_indices extract_index_names Z.opp Z.to_N Z.of_N.

From Coq Require Import Extraction ExtrOcamlBasic.
From OC Require Import Base.Bytes Model.Atomix Model.Store Model.Watch Spec.Cas.
Extraction "model.ml" Store.step Store.get Store.list_log Store.init Store.cur
  Watch.wstep Watch.wrun Watch.w0 Watch.settle Watch.quiescent Watch.watch_ok Watch.last_for
  Cas.cas_init Cas.cas_create Cas.cas_update Cas.reg_get.

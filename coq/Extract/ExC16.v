From Coq Require Import Extraction ExtrOcamlBasic.
From OC Require Import Base.Bytes Model.Path.
Extraction "model.ml" str_path_msg str_path str_path_elem render split_path parse_element parse_gnmi_elements
  parse_path get_parent create_update_path index_allowed is_path_valid set_path_text
  find_unescaped find_slow wf_gpath slash_free accepted_gpath.

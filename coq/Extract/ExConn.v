From Coq Require Import Extraction ExtrOcamlBasic.
From OC Require Import Model.ConnMgr.
Extraction "model.ml" init step run_from get chan_ok sampled alternates added_ids loss_seen.

From Coq Require Import Extraction ExtrOcamlBasic.
From OC Require Import Base.Bytes Model.Value.
Extraction "model.ml" to_native to_gnmi journey json_leaf str_decimal64_utils str_decimal64_fixed canon read_Z read_decimal show_Z.

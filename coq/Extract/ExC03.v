From Coq Require Import Extraction ExtrOcamlBasic.
From OC Require Import Base.Bytes Model.Merge Model.CfgStore Model.Wildcard Spec.Gnmi.
Extraction "model.ml" is_path_below get_parent_path boundary_ancestors apply_change_to_config add_delete_children commit_merge apply_all
  validate_change candidate rollback_of prune_path_values prune_path_map compute_change with_index apply_values device_request
  store_write persist_commit cfg_update status_update commit_update apply_update set_cycle stale_update view_values view_applied live_entries
  match_wildcard get_filter get_leaves
  gnmi_apply gnmi_history gnmi_get glookup qmatch sprefix eqb_spath qlit.

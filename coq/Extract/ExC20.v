From Coq Require Import Extraction ExtrOcamlBasic.
From OC Require Import Model.Proto3 Spec.Tla3.
Extraction "model.ml" step run rec_tx rec_cfg rec_master rec_result w0 o0 cview
  order_ok commit_before_apply_ok failed_blocks_later_ok consistency_committed_ok consistency_applied_ok
  all_terminal tx_terminal in_sync pval_eqb path_eqb.


(** val negb : bool -> bool **)

let negb = function
| true -> false
| false -> true

type nat =
| O
| S of nat

(** val option_map : ('a1 -> 'a2) -> 'a1 option -> 'a2 option **)

let option_map f = function
| Some a -> Some (f a)
| None -> None

(** val fst : ('a1 * 'a2) -> 'a1 **)

let fst = function
| (x, _) -> x

(** val snd : ('a1 * 'a2) -> 'a2 **)

let snd = function
| (_, y) -> y

(** val length : 'a1 list -> nat **)

let rec length = function
| [] -> O
| _ :: l' -> S (length l')

(** val app : 'a1 list -> 'a1 list -> 'a1 list **)

let rec app l m =
  match l with
  | [] -> m
  | a :: l1 -> a :: (app l1 m)

type comparison =
| Eq
| Lt
| Gt

(** val compOpp : comparison -> comparison **)

let compOpp = function
| Eq -> Eq
| Lt -> Gt
| Gt -> Lt

module Coq__1 = struct
 (** val add : nat -> nat -> nat **)
 let rec add n0 m =
   match n0 with
   | O -> m
   | S p -> S (add p m)
end
include Coq__1

(** val sub : nat -> nat -> nat **)

let rec sub n0 m =
  match n0 with
  | O -> n0
  | S k -> (match m with
            | O -> n0
            | S l -> sub k l)

module Nat =
 struct
  (** val eqb : nat -> nat -> bool **)

  let rec eqb n0 m =
    match n0 with
    | O -> (match m with
            | O -> true
            | S _ -> false)
    | S n' -> (match m with
               | O -> false
               | S m' -> eqb n' m')

  (** val leb : nat -> nat -> bool **)

  let rec leb n0 m =
    match n0 with
    | O -> true
    | S n' -> (match m with
               | O -> false
               | S m' -> leb n' m')

  (** val ltb : nat -> nat -> bool **)

  let ltb n0 m =
    leb (S n0) m
 end

(** val in_dec : ('a1 -> 'a1 -> bool) -> 'a1 -> 'a1 list -> bool **)

let rec in_dec h a = function
| [] -> false
| y :: l0 -> let s = h y a in if s then true else in_dec h a l0

(** val removelast : 'a1 list -> 'a1 list **)

let rec removelast = function
| [] -> []
| a :: l0 -> (match l0 with
              | [] -> []
              | _ :: _ -> a :: (removelast l0))

(** val rev : 'a1 list -> 'a1 list **)

let rec rev = function
| [] -> []
| x :: l' -> app (rev l') (x :: [])

(** val map : ('a1 -> 'a2) -> 'a1 list -> 'a2 list **)

let rec map f = function
| [] -> []
| a :: t -> (f a) :: (map f t)

(** val flat_map : ('a1 -> 'a2 list) -> 'a1 list -> 'a2 list **)

let rec flat_map f = function
| [] -> []
| x :: t -> app (f x) (flat_map f t)

(** val fold_left : ('a1 -> 'a2 -> 'a1) -> 'a2 list -> 'a1 -> 'a1 **)

let rec fold_left f l a0 =
  match l with
  | [] -> a0
  | b0 :: t -> fold_left f t (f a0 b0)

(** val fold_right : ('a2 -> 'a1 -> 'a1) -> 'a1 -> 'a2 list -> 'a1 **)

let rec fold_right f a0 = function
| [] -> a0
| b0 :: t -> f b0 (fold_right f a0 t)

(** val existsb : ('a1 -> bool) -> 'a1 list -> bool **)

let rec existsb f = function
| [] -> false
| a :: l0 -> (||) (f a) (existsb f l0)

(** val forallb : ('a1 -> bool) -> 'a1 list -> bool **)

let rec forallb f = function
| [] -> true
| a :: l0 -> (&&) (f a) (forallb f l0)

(** val filter : ('a1 -> bool) -> 'a1 list -> 'a1 list **)

let rec filter f = function
| [] -> []
| x :: l0 -> if f x then x :: (filter f l0) else filter f l0

(** val find : ('a1 -> bool) -> 'a1 list -> 'a1 option **)

let rec find f = function
| [] -> None
| x :: tl -> if f x then Some x else find f tl

(** val firstn : nat -> 'a1 list -> 'a1 list **)

let rec firstn n0 l =
  match n0 with
  | O -> []
  | S n1 -> (match l with
             | [] -> []
             | a :: l0 -> a :: (firstn n1 l0))

(** val skipn : nat -> 'a1 list -> 'a1 list **)

let rec skipn n0 l =
  match n0 with
  | O -> l
  | S n1 -> (match l with
             | [] -> []
             | _ :: l0 -> skipn n1 l0)

(** val nodup : ('a1 -> 'a1 -> bool) -> 'a1 list -> 'a1 list **)

let rec nodup decA = function
| [] -> []
| x :: xs -> if in_dec decA x xs then nodup decA xs else x :: (nodup decA xs)

type positive =
| XI of positive
| XO of positive
| XH

type n =
| N0
| Npos of positive

type z =
| Z0
| Zpos of positive
| Zneg of positive

module Pos =
 struct
  type mask =
  | IsNul
  | IsPos of positive
  | IsNeg
 end

module Coq_Pos =
 struct
  (** val succ : positive -> positive **)

  let rec succ = function
  | XI p -> XO (succ p)
  | XO p -> XI p
  | XH -> XO XH

  (** val add : positive -> positive -> positive **)

  let rec add x y =
    match x with
    | XI p ->
      (match y with
       | XI q -> XO (add_carry p q)
       | XO q -> XI (add p q)
       | XH -> XO (succ p))
    | XO p ->
      (match y with
       | XI q -> XI (add p q)
       | XO q -> XO (add p q)
       | XH -> XI p)
    | XH -> (match y with
             | XI q -> XO (succ q)
             | XO q -> XI q
             | XH -> XO XH)

  (** val add_carry : positive -> positive -> positive **)

  and add_carry x y =
    match x with
    | XI p ->
      (match y with
       | XI q -> XI (add_carry p q)
       | XO q -> XO (add_carry p q)
       | XH -> XI (succ p))
    | XO p ->
      (match y with
       | XI q -> XO (add_carry p q)
       | XO q -> XI (add p q)
       | XH -> XO (succ p))
    | XH ->
      (match y with
       | XI q -> XI (succ q)
       | XO q -> XO (succ q)
       | XH -> XI XH)

  (** val pred_double : positive -> positive **)

  let rec pred_double = function
  | XI p -> XI (XO p)
  | XO p -> XI (pred_double p)
  | XH -> XH

  type mask = Pos.mask =
  | IsNul
  | IsPos of positive
  | IsNeg

  (** val succ_double_mask : mask -> mask **)

  let succ_double_mask = function
  | IsNul -> IsPos XH
  | IsPos p -> IsPos (XI p)
  | IsNeg -> IsNeg

  (** val double_mask : mask -> mask **)

  let double_mask = function
  | IsPos p -> IsPos (XO p)
  | x0 -> x0

  (** val double_pred_mask : positive -> mask **)

  let double_pred_mask = function
  | XI p -> IsPos (XO (XO p))
  | XO p -> IsPos (XO (pred_double p))
  | XH -> IsNul

  (** val sub_mask : positive -> positive -> mask **)

  let rec sub_mask x y =
    match x with
    | XI p ->
      (match y with
       | XI q -> double_mask (sub_mask p q)
       | XO q -> succ_double_mask (sub_mask p q)
       | XH -> IsPos (XO p))
    | XO p ->
      (match y with
       | XI q -> succ_double_mask (sub_mask_carry p q)
       | XO q -> double_mask (sub_mask p q)
       | XH -> IsPos (pred_double p))
    | XH -> (match y with
             | XH -> IsNul
             | _ -> IsNeg)

  (** val sub_mask_carry : positive -> positive -> mask **)

  and sub_mask_carry x y =
    match x with
    | XI p ->
      (match y with
       | XI q -> succ_double_mask (sub_mask_carry p q)
       | XO q -> double_mask (sub_mask p q)
       | XH -> IsPos (pred_double p))
    | XO p ->
      (match y with
       | XI q -> double_mask (sub_mask_carry p q)
       | XO q -> succ_double_mask (sub_mask_carry p q)
       | XH -> double_pred_mask p)
    | XH -> IsNeg

  (** val mul : positive -> positive -> positive **)

  let rec mul x y =
    match x with
    | XI p -> add y (XO (mul p y))
    | XO p -> XO (mul p y)
    | XH -> y

  (** val size : positive -> positive **)

  let rec size = function
  | XI p0 -> succ (size p0)
  | XO p0 -> succ (size p0)
  | XH -> XH

  (** val compare_cont : comparison -> positive -> positive -> comparison **)

  let rec compare_cont r x y =
    match x with
    | XI p ->
      (match y with
       | XI q -> compare_cont r p q
       | XO q -> compare_cont Gt p q
       | XH -> Gt)
    | XO p ->
      (match y with
       | XI q -> compare_cont Lt p q
       | XO q -> compare_cont r p q
       | XH -> Gt)
    | XH -> (match y with
             | XH -> r
             | _ -> Lt)

  (** val compare : positive -> positive -> comparison **)

  let compare =
    compare_cont Eq

  (** val eqb : positive -> positive -> bool **)

  let rec eqb p q =
    match p with
    | XI p0 -> (match q with
                | XI q0 -> eqb p0 q0
                | _ -> false)
    | XO p0 -> (match q with
                | XO q0 -> eqb p0 q0
                | _ -> false)
    | XH -> (match q with
             | XH -> true
             | _ -> false)

  (** val iter_op : ('a1 -> 'a1 -> 'a1) -> positive -> 'a1 -> 'a1 **)

  let rec iter_op op p a =
    match p with
    | XI p0 -> op a (iter_op op p0 (op a a))
    | XO p0 -> iter_op op p0 (op a a)
    | XH -> a

  (** val to_nat : positive -> nat **)

  let to_nat x =
    iter_op Coq__1.add x (S O)

  (** val of_succ_nat : nat -> positive **)

  let rec of_succ_nat = function
  | O -> XH
  | S x -> succ (of_succ_nat x)

  (** val eq_dec : positive -> positive -> bool **)

  let rec eq_dec p x0 =
    match p with
    | XI p0 -> (match x0 with
                | XI p1 -> eq_dec p0 p1
                | _ -> false)
    | XO p0 -> (match x0 with
                | XO p1 -> eq_dec p0 p1
                | _ -> false)
    | XH -> (match x0 with
             | XH -> true
             | _ -> false)
 end

module N =
 struct
  (** val succ_double : n -> n **)

  let succ_double = function
  | N0 -> Npos XH
  | Npos p -> Npos (XI p)

  (** val double : n -> n **)

  let double = function
  | N0 -> N0
  | Npos p -> Npos (XO p)

  (** val add : n -> n -> n **)

  let add n0 m =
    match n0 with
    | N0 -> m
    | Npos p -> (match m with
                 | N0 -> n0
                 | Npos q -> Npos (Coq_Pos.add p q))

  (** val sub : n -> n -> n **)

  let sub n0 m =
    match n0 with
    | N0 -> N0
    | Npos n' ->
      (match m with
       | N0 -> n0
       | Npos m' ->
         (match Coq_Pos.sub_mask n' m' with
          | Coq_Pos.IsPos p -> Npos p
          | _ -> N0))

  (** val mul : n -> n -> n **)

  let mul n0 m =
    match n0 with
    | N0 -> N0
    | Npos p -> (match m with
                 | N0 -> N0
                 | Npos q -> Npos (Coq_Pos.mul p q))

  (** val compare : n -> n -> comparison **)

  let compare n0 m =
    match n0 with
    | N0 -> (match m with
             | N0 -> Eq
             | Npos _ -> Lt)
    | Npos n' -> (match m with
                  | N0 -> Gt
                  | Npos m' -> Coq_Pos.compare n' m')

  (** val eqb : n -> n -> bool **)

  let eqb n0 m =
    match n0 with
    | N0 -> (match m with
             | N0 -> true
             | Npos _ -> false)
    | Npos p -> (match m with
                 | N0 -> false
                 | Npos q -> Coq_Pos.eqb p q)

  (** val leb : n -> n -> bool **)

  let leb x y =
    match compare x y with
    | Gt -> false
    | _ -> true

  (** val ltb : n -> n -> bool **)

  let ltb x y =
    match compare x y with
    | Lt -> true
    | _ -> false

  (** val size : n -> n **)

  let size = function
  | N0 -> N0
  | Npos p -> Npos (Coq_Pos.size p)

  (** val pos_div_eucl : positive -> n -> n * n **)

  let rec pos_div_eucl a b0 =
    match a with
    | XI a' ->
      let (q, r) = pos_div_eucl a' b0 in
      let r' = succ_double r in
      if leb b0 r' then ((succ_double q), (sub r' b0)) else ((double q), r')
    | XO a' ->
      let (q, r) = pos_div_eucl a' b0 in
      let r' = double r in
      if leb b0 r' then ((succ_double q), (sub r' b0)) else ((double q), r')
    | XH ->
      (match b0 with
       | N0 -> (N0, (Npos XH))
       | Npos p -> (match p with
                    | XH -> ((Npos XH), N0)
                    | _ -> (N0, (Npos XH))))

  (** val div_eucl : n -> n -> n * n **)

  let div_eucl a b0 =
    match a with
    | N0 -> (N0, N0)
    | Npos na -> (match b0 with
                  | N0 -> (N0, a)
                  | Npos _ -> pos_div_eucl na b0)

  (** val div : n -> n -> n **)

  let div a b0 =
    fst (div_eucl a b0)

  (** val modulo : n -> n -> n **)

  let modulo a b0 =
    snd (div_eucl a b0)

  (** val to_nat : n -> nat **)

  let to_nat = function
  | N0 -> O
  | Npos p -> Coq_Pos.to_nat p

  (** val of_nat : nat -> n **)

  let of_nat = function
  | O -> N0
  | S n' -> Npos (Coq_Pos.of_succ_nat n')

  (** val eq_dec : n -> n -> bool **)

  let eq_dec n0 m =
    match n0 with
    | N0 -> (match m with
             | N0 -> true
             | Npos _ -> false)
    | Npos p -> (match m with
                 | N0 -> false
                 | Npos p0 -> Coq_Pos.eq_dec p p0)
 end

type ascii =
| Ascii of bool * bool * bool * bool * bool * bool * bool * bool

(** val n_of_digits : bool list -> n **)

let rec n_of_digits = function
| [] -> N0
| b0 :: l' ->
  N.add (if b0 then Npos XH else N0) (N.mul (Npos (XO XH)) (n_of_digits l'))

(** val n_of_ascii : ascii -> n **)

let n_of_ascii = function
| Ascii (a0, a1, a2, a3, a4, a5, a6, a7) ->
  n_of_digits
    (a0 :: (a1 :: (a2 :: (a3 :: (a4 :: (a5 :: (a6 :: (a7 :: []))))))))

module Z =
 struct
  (** val double : z -> z **)

  let double = function
  | Z0 -> Z0
  | Zpos p -> Zpos (XO p)
  | Zneg p -> Zneg (XO p)

  (** val succ_double : z -> z **)

  let succ_double = function
  | Z0 -> Zpos XH
  | Zpos p -> Zpos (XI p)
  | Zneg p -> Zneg (Coq_Pos.pred_double p)

  (** val pred_double : z -> z **)

  let pred_double = function
  | Z0 -> Zneg XH
  | Zpos p -> Zpos (Coq_Pos.pred_double p)
  | Zneg p -> Zneg (XI p)

  (** val pos_sub : positive -> positive -> z **)

  let rec pos_sub x y =
    match x with
    | XI p ->
      (match y with
       | XI q -> double (pos_sub p q)
       | XO q -> succ_double (pos_sub p q)
       | XH -> Zpos (XO p))
    | XO p ->
      (match y with
       | XI q -> pred_double (pos_sub p q)
       | XO q -> double (pos_sub p q)
       | XH -> Zpos (Coq_Pos.pred_double p))
    | XH ->
      (match y with
       | XI q -> Zneg (XO q)
       | XO q -> Zneg (Coq_Pos.pred_double q)
       | XH -> Z0)

  (** val add : z -> z -> z **)

  let add x y =
    match x with
    | Z0 -> y
    | Zpos x' ->
      (match y with
       | Z0 -> x
       | Zpos y' -> Zpos (Coq_Pos.add x' y')
       | Zneg y' -> pos_sub x' y')
    | Zneg x' ->
      (match y with
       | Z0 -> x
       | Zpos y' -> pos_sub y' x'
       | Zneg y' -> Zneg (Coq_Pos.add x' y'))

  (** val opp : z -> z **)

  let opp = function
  | Z0 -> Z0
  | Zpos x0 -> Zneg x0
  | Zneg x0 -> Zpos x0

  (** val sub : z -> z -> z **)

  let sub m n0 =
    add m (opp n0)

  (** val compare : z -> z -> comparison **)

  let compare x y =
    match x with
    | Z0 -> (match y with
             | Z0 -> Eq
             | Zpos _ -> Lt
             | Zneg _ -> Gt)
    | Zpos x' -> (match y with
                  | Zpos y' -> Coq_Pos.compare x' y'
                  | _ -> Gt)
    | Zneg x' ->
      (match y with
       | Zneg y' -> compOpp (Coq_Pos.compare x' y')
       | _ -> Lt)

  (** val leb : z -> z -> bool **)

  let leb x y =
    match compare x y with
    | Gt -> false
    | _ -> true

  (** val ltb : z -> z -> bool **)

  let ltb x y =
    match compare x y with
    | Lt -> true
    | _ -> false

  (** val eqb : z -> z -> bool **)

  let eqb x y =
    match x with
    | Z0 -> (match y with
             | Z0 -> true
             | _ -> false)
    | Zpos p -> (match y with
                 | Zpos q -> Coq_Pos.eqb p q
                 | _ -> false)
    | Zneg p -> (match y with
                 | Zneg q -> Coq_Pos.eqb p q
                 | _ -> false)

  (** val abs_N : z -> n **)

  let abs_N = function
  | Z0 -> N0
  | Zpos p -> Npos p
  | Zneg p -> Npos p

  (** val to_nat : z -> nat **)

  let to_nat = function
  | Zpos p -> Coq_Pos.to_nat p
  | _ -> O

  (** val of_nat : nat -> z **)

  let of_nat = function
  | O -> Z0
  | S n1 -> Zpos (Coq_Pos.of_succ_nat n1)

  (** val of_N : n -> z **)

  let of_N = function
  | N0 -> Z0
  | Npos p -> Zpos p
 end

type string =
| EmptyString
| String of ascii * string

type str = n list

(** val b : string -> str **)

let rec b = function
| EmptyString -> []
| String (c, s') -> (n_of_ascii c) :: (b s')

(** val eqb_str : str -> str -> bool **)

let rec eqb_str a b0 =
  match a with
  | [] -> (match b0 with
           | [] -> true
           | _ :: _ -> false)
  | x :: a' ->
    (match b0 with
     | [] -> false
     | y :: b' -> (&&) (N.eqb x y) (eqb_str a' b'))

(** val str_eq_dec : str -> str -> bool **)

let rec str_eq_dec l x =
  match l with
  | [] -> (match x with
           | [] -> true
           | _ :: _ -> false)
  | y :: l0 ->
    (match x with
     | [] -> false
     | a :: l1 -> if N.eq_dec y a then str_eq_dec l0 l1 else false)

(** val prefixb : str -> str -> bool **)

let rec prefixb p s =
  match p with
  | [] -> true
  | x :: p' ->
    (match s with
     | [] -> false
     | y :: s' -> (&&) (N.eqb x y) (prefixb p' s'))

(** val suffixb : str -> str -> bool **)

let suffixb suf s =
  prefixb (rev suf) (rev s)

(** val index_byte : n -> str -> nat option **)

let rec index_byte c = function
| [] -> None
| x :: s' ->
  if N.eqb x c then Some O else option_map (fun x0 -> S x0) (index_byte c s')

(** val last_index_byte : n -> str -> nat option **)

let rec last_index_byte c = function
| [] -> None
| x :: s' ->
  (match last_index_byte c s' with
   | Some i -> Some (S i)
   | None -> if N.eqb x c then Some O else None)

(** val split_on : n -> str -> str list **)

let rec split_on sep = function
| [] -> [] :: []
| c :: s' ->
  if N.eqb c sep
  then [] :: (split_on sep s')
  else (match split_on sep s' with
        | [] -> (c :: []) :: []
        | w :: ws -> (c :: w) :: ws)

(** val join : str -> str list -> str **)

let rec join sep = function
| [] -> []
| x :: l' -> (match l' with
              | [] -> x
              | _ :: _ -> app x (app sep (join sep l')))

(** val ltb_str : str -> str -> bool **)

let rec ltb_str a b0 =
  match a with
  | [] -> (match b0 with
           | [] -> false
           | _ :: _ -> true)
  | x :: a' ->
    (match b0 with
     | [] -> false
     | y :: b' -> (||) (N.ltb x y) ((&&) (N.eqb x y) (ltb_str a' b')))

(** val leb_str : str -> str -> bool **)

let leb_str a b0 =
  negb (ltb_str b0 a)

(** val c_slash : n **)

let c_slash =
  Npos (XI (XI (XI (XI (XO XH)))))

(** val c_bslash : n **)

let c_bslash =
  Npos (XO (XO (XI (XI (XI (XO XH))))))

(** val c_lbr : n **)

let c_lbr =
  Npos (XI (XI (XO (XI (XI (XO XH))))))

(** val c_rbr : n **)

let c_rbr =
  Npos (XI (XO (XI (XI (XI (XO XH))))))

(** val c_eq : n **)

let c_eq =
  Npos (XI (XO (XI (XI (XI XH)))))

(** val c_comma : n **)

let c_comma =
  Npos (XO (XO (XI (XI (XO XH)))))

(** val c_star : n **)

let c_star =
  Npos (XO (XI (XO (XI (XO XH)))))

(** val insert_sorted :
    ('a1 -> 'a1 -> bool) -> 'a1 -> 'a1 list -> 'a1 list **)

let rec insert_sorted leb0 x l = match l with
| [] -> x :: []
| y :: l' -> if leb0 x y then x :: l else y :: (insert_sorted leb0 x l')

(** val isort : ('a1 -> 'a1 -> bool) -> 'a1 list -> 'a1 list **)

let rec isort leb0 = function
| [] -> []
| x :: l' -> insert_sorted leb0 x (isort leb0 l')

type 'a outcome =
| Ok of 'a
| Err of n
| Panic of n

(** val bind : 'a1 outcome -> ('a1 -> 'a2 outcome) -> 'a2 outcome **)

let bind o k =
  match o with
  | Ok a -> k a
  | Err c -> Err c
  | Panic w -> Panic w

(** val is_panic : 'a1 outcome -> bool **)

let is_panic = function
| Panic _ -> true
| _ -> false

(** val w_slice : n **)

let w_slice =
  Npos XH

(** val w_index : n **)

let w_index =
  Npos (XO XH)

(** val w_nil : n **)

let w_nil =
  Npos (XI XH)

(** val w_regexp : n **)

let w_regexp =
  Npos (XO (XO XH))

(** val w_fuel : n **)

let w_fuel =
  Npos (XI (XI XH))

(** val c_unknown : n **)

let c_unknown =
  Npos (XO XH)

(** val c_invalid : n **)

let c_invalid =
  Npos (XI XH)

(** val c_notfound : n **)

let c_notfound =
  Npos (XI (XO XH))

(** val c_internal : n **)

let c_internal =
  Npos (XI (XO (XI XH)))

(** val c_some : n **)

let c_some =
  N0

(** val zlen : str -> z **)

let zlen s =
  Z.of_nat (length s)

(** val slice : str -> z -> z -> str outcome **)

let slice s lo hi =
  if (&&) ((&&) (Z.leb Z0 lo) (Z.leb lo hi)) (Z.leb hi (zlen s))
  then Ok (firstn (Z.to_nat (Z.sub hi lo)) (skipn (Z.to_nat lo) s))
  else Panic w_slice

(** val zindex : n -> str -> z **)

let zindex c s =
  match index_byte c s with
  | Some i -> Z.of_nat i
  | None -> Zneg XH

(** val zlast_index : n -> str -> z **)

let zlast_index c s =
  match last_index_byte c s with
  | Some i -> Z.of_nat i
  | None -> Zneg XH

(** val has_byte : n -> str -> bool **)

let has_byte c s =
  existsb (fun x -> N.eqb x c) s

(** val replace_first : str -> str -> str -> str **)

let rec replace_first old new0 s =
  if prefixb old s
  then app new0 (skipn (length old) s)
  else (match s with
        | [] -> []
        | c :: s' -> c :: (replace_first old new0 s'))

(** val replace_all_aux : str -> str -> nat -> str -> str **)

let rec replace_all_aux old new0 skip s = match s with
| [] -> []
| c :: s' ->
  (match skip with
   | O ->
     if prefixb old s
     then app new0 (replace_all_aux old new0 (sub (length old) (S O)) s')
     else c :: (replace_all_aux old new0 O s')
   | S k -> replace_all_aux old new0 k s')

(** val replace_all : str -> str -> str -> str **)

let replace_all old new0 s =
  replace_all_aux old new0 O s

(** val c_nl : n **)

let c_nl =
  Npos (XO (XI (XO XH)))

type elem = { e_name : str; e_keys : (str * str) list }

type gpath = { p_target : str; p_elem : elem option list; p_element : str list }

type scalar =
| SStr of str
| SAscii of str
| SInt of z
| SUint of n
| SBool of bool
| SBytes of str
| SDecimal of (z * n) option
| SFloat of bool
| SOther

type tval =
| TScalar of scalar
| TJson of str
| TLeaflist of scalar option list

type plugin_answer =
| PErr of n
| PPaths of str list

type update = { u_path : gpath option; u_val : tval option;
                u_plugin : plugin_answer }

type ext_payload =
| XBad
| XStrategy of bool
| XOverrides of (str * (str * str) option) list

type extension =
| ERegistered of (n * ext_payload) option
| EOther

type rwpath = { rw_path : str; rw_iskey : bool; rw_attr : str }

type plugin = { pl_type : str; pl_version : str; pl_rw : rwpath list }

type target = { tg_id : str; tg_type : str; tg_version : str }

type nval = { nv_type : n; nv_blen : n; nv_opts : z list; nv_str : str option }

type stored = { sv_path : str; sv_deleted : bool; sv_val : nval }

type config = { cf_id : str; cf_values : stored list }

type env = { en_topo : target list; en_plugins : plugin list;
             en_size_limit : n }

type state = config list

(** val pair_leb : (str * str) -> (str * str) -> bool **)

let pair_leb a b0 =
  leb_str (fst a) (fst b0)

(** val safe_string : n -> str -> str **)

let safe_string esc s =
  flat_map (fun c ->
    if (||) (N.eqb c esc) (N.eqb c c_bslash)
    then c_bslash :: (c :: [])
    else c :: []) s

(** val str_keys : (str * str) list -> str **)

let str_keys ks =
  flat_map (fun kv ->
    app (c_lbr :: [])
      (app (fst kv)
        (app (c_eq :: []) (app (safe_string c_rbr (snd kv)) (c_rbr :: [])))))
    (isort pair_leb ks)

(** val str_path_elem : elem option list -> str outcome **)

let rec str_path_elem = function
| [] -> Ok []
| o :: es' ->
  (match o with
   | Some e ->
     bind (str_path_elem es') (fun rest -> Ok
       (app (c_slash :: [])
         (app (safe_string c_slash e.e_name) (app (str_keys e.e_keys) rest))))
   | None -> Panic w_nil)

(** val root : str **)

let root =
  c_slash :: []

(** val str_path : gpath option -> str outcome **)

let str_path = function
| Some p0 ->
  (match p0.p_elem with
   | [] ->
     (match p0.p_element with
      | [] -> Ok root
      | _ :: _ -> Ok (app (c_slash :: []) (join (c_slash :: []) p0.p_element)))
   | _ :: _ -> str_path_elem p0.p_elem)
| None -> Ok root

(** val index_matches_aux : str option -> str -> str list **)

let rec index_matches_aux cur = function
| [] -> []
| c :: s' ->
  (match cur with
   | Some acc ->
     if N.eqb c c_rbr
     then (app (c_lbr :: []) (app (rev acc) (c_rbr :: []))) :: (index_matches_aux
                                                                 None s')
     else if N.eqb c c_nl
          then index_matches_aux None s'
          else index_matches_aux (Some (c :: acc)) s'
   | None ->
     if N.eqb c c_lbr
     then index_matches_aux (Some []) s'
     else index_matches_aux None s')

(** val index_matches : str -> str list **)

let index_matches s =
  index_matches_aux None s

(** val remove_indices : str -> str **)

let remove_indices path =
  fold_left (fun p m -> replace_first m [] p) (index_matches path) path

(** val anonymize_match : str -> str **)

let anonymize_match m =
  join (c_eq :: [])
    (app (removelast (split_on c_eq m)) ((c_star :: (c_rbr :: [])) :: []))

(** val anonymize_indices : str -> str **)

let anonymize_indices path =
  fold_left (fun p m -> replace_first m (anonymize_match m) p)
    (index_matches path) path

(** val extract_one : str -> (str * str) outcome **)

let extract_one m =
  let eq = zlast_index c_eq m in
  if Z.ltb eq Z0
  then bind (slice m (Zpos XH) (Z.sub (zlen m) (Zpos XH))) (fun n0 -> Ok (n0,
         []))
  else bind (slice m (Zpos XH) eq) (fun n0 ->
         bind (slice m (Z.add eq (Zpos XH)) (Z.sub (zlen m) (Zpos XH)))
           (fun v -> Ok (n0, v)))

(** val extract_all : str list -> (str * str) list outcome **)

let rec extract_all = function
| [] -> Ok []
| m :: ms' ->
  bind (extract_one m) (fun nv ->
    bind (extract_all ms') (fun rest -> Ok (nv :: rest)))

(** val extract_index_names : str -> (str * str) list outcome **)

let extract_index_names path =
  extract_all (index_matches path)

(** val last_elem : 'a1 list -> 'a1 outcome **)

let last_elem l =
  match rev l with
  | [] -> Panic w_index
  | x :: _ -> Ok x

(** val lookup_rw : str -> rwpath list -> rwpath option **)

let lookup_rw p rw =
  find (fun r -> eqb_str r.rw_path p) rw

(** val find_path_from_model :
    str -> rwpath list -> bool -> (bool * rwpath option) outcome **)

let find_path_from_model path rw exact =
  let search = remove_indices path in
  (match lookup_rw (anonymize_indices path) rw with
   | Some r -> Ok (true, (Some r))
   | None ->
     if exact
     then Err c_internal
     else bind
            (if suffixb (c_rbr :: []) path
             then bind (extract_index_names path) (fun idx ->
                    match idx with
                    | [] -> Ok search
                    | _ :: _ ->
                      bind (last_elem idx) (fun l -> Ok
                        (app search (app (c_slash :: []) (fst l)))))
             else Ok search) (fun search' ->
            if existsb (fun r -> prefixb search' (remove_indices r.rw_path))
                 rw
            then Ok (false, None)
            else Err c_invalid))

(** val is_alnum : n -> bool **)

let is_alnum c =
  (||)
    ((||)
      ((&&) (N.leb (Npos (XO (XO (XO (XO (XI XH)))))) c)
        (N.leb c (Npos (XI (XO (XO (XI (XI XH))))))))
      ((&&) (N.leb (Npos (XI (XO (XO (XO (XO (XO XH))))))) c)
        (N.leb c (Npos (XO (XI (XO (XI (XI (XO XH))))))))))
    ((&&) (N.leb (Npos (XI (XO (XO (XO (XO (XI XH))))))) c)
      (N.leb c (Npos (XO (XI (XO (XI (XI (XI XH)))))))))

(** val index_char_ok : n -> bool **)

let index_char_ok c =
  (||)
    ((||)
      ((||) ((||) (is_alnum c) (N.eqb c (Npos (XO (XI (XO (XI (XO XH))))))))
        (N.eqb c (Npos (XI (XO (XI (XI (XO XH))))))))
      (N.eqb c (Npos (XO (XI (XI (XI (XO XH))))))))
    (N.eqb c (Npos (XI (XI (XI (XI (XI (XO XH))))))))

(** val index_value_ok : str -> bool **)

let index_value_ok v =
  (&&) (negb (eqb_str v [])) (forallb index_char_ok v)

(** val get_parent_path : str -> str outcome **)

let get_parent_path path =
  let i = zlast_index c_slash path in
  if Z.leb i Z0 then Ok [] else slice path Z0 i

(** val check_key_value : str -> rwpath -> nval -> unit outcome **)

let check_key_value path r v =
  bind (extract_index_names path) (fun idx ->
    match idx with
    | [] -> Ok ()
    | _ :: _ ->
      if negb (forallb (fun nv -> index_value_ok (snd nv)) idx)
      then Err c_invalid
      else if negb r.rw_iskey
           then Ok ()
           else bind (get_parent_path path) (fun parent ->
                  bind
                    (slice parent
                      (Z.add (zlast_index c_slash parent) (Zpos XH))
                      (zlen parent)) (fun last_seg ->
                    bind (extract_index_names last_seg) (fun pidx ->
                      if existsb (fun nv ->
                           (&&) (eqb_str r.rw_attr (fst nv))
                             (match v.nv_str with
                              | Some s -> eqb_str (snd nv) s
                              | None -> false)) pidx
                      then Ok ()
                      else Err c_invalid))))

(** val path_char_ok : n -> bool **)

let path_char_ok c =
  (||)
    ((||)
      ((||)
        ((||)
          ((||)
            ((||)
              ((||) (is_alnum c) (N.eqb c (Npos (XO (XI (XO (XI (XI XH))))))))
              (N.eqb c (Npos (XI (XO (XI (XI (XI XH))))))))
            (N.eqb c (Npos (XI (XO (XI (XI (XO XH))))))))
          (N.eqb c (Npos (XO (XI (XI (XI (XO XH))))))))
        (N.eqb c (Npos (XI (XI (XI (XI (XI (XO XH)))))))))
      (N.eqb c (Npos (XI (XI (XO (XI (XI (XO XH)))))))))
    (N.eqb c (Npos (XI (XO (XI (XI (XI (XO XH))))))))

(** val is_path_valid : str -> bool **)

let is_path_valid = function
| [] -> false
| c :: rest ->
  (&&) (N.eqb c c_slash)
    (forallb (fun seg ->
      (&&) (negb (eqb_str seg [])) (forallb path_char_ok seg))
      (split_on c_slash rest))

(** val json_base_path : str -> str outcome **)

let json_base_path path =
  if (&&) (Z.ltb (Zpos XH) (zlen path)) (suffixb (c_slash :: []) path)
  then slice path Z0 (Z.sub (zlen path) (Zpos XH))
  else Ok path

(** val mag_len : n -> n **)

let mag_len n0 =
  N.div (N.add (N.size n0) (Npos (XI (XI XH)))) (Npos (XO (XO (XO XH))))

(** val zsign_opt : z -> z **)

let zsign_opt z0 =
  if Z.ltb z0 Z0 then Zpos XH else Z0

(** val dec_digits_pos : nat -> n -> str -> str **)

let rec dec_digits_pos fuel n0 acc =
  match fuel with
  | O -> acc
  | S f ->
    let acc' =
      (N.add (Npos (XO (XO (XO (XO (XI XH))))))
        (N.modulo n0 (Npos (XO (XI (XO XH)))))) :: acc
    in
    if N.ltb n0 (Npos (XO (XI (XO XH))))
    then acc'
    else dec_digits_pos f (N.div n0 (Npos (XO (XI (XO XH))))) acc'

(** val dec_n : n -> str **)

let dec_n n0 =
  dec_digits_pos (S (N.to_nat (N.size n0))) n0 []

(** val dec_z : z -> str **)

let dec_z z0 =
  if Z.ltb z0 Z0
  then (Npos (XI (XO (XI (XI (XO XH)))))) :: (dec_n (Z.abs_N z0))
  else dec_n (Z.abs_N z0)

(** val vt_string : n **)

let vt_string =
  Npos XH

(** val vt_int : n **)

let vt_int =
  Npos (XO XH)

(** val vt_uint : n **)

let vt_uint =
  Npos (XI XH)

(** val vt_bool : n **)

let vt_bool =
  Npos (XO (XO XH))

(** val vt_decimal : n **)

let vt_decimal =
  Npos (XI (XO XH))

(** val vt_float : n **)

let vt_float =
  Npos (XO (XI XH))

(** val vt_bytes : n **)

let vt_bytes =
  Npos (XI (XI XH))

(** val vt_ll_string : n **)

let vt_ll_string =
  Npos (XO (XO (XO XH)))

(** val vt_ll_int : n **)

let vt_ll_int =
  Npos (XI (XO (XO XH)))

(** val vt_ll_uint : n **)

let vt_ll_uint =
  Npos (XO (XI (XO XH)))

(** val vt_ll_bool : n **)

let vt_ll_bool =
  Npos (XI (XI (XO XH)))

(** val vt_ll_decimal : n **)

let vt_ll_decimal =
  Npos (XO (XO (XI XH)))

(** val vt_ll_float : n **)

let vt_ll_float =
  Npos (XI (XO (XI XH)))

(** val vt_ll_bytes : n **)

let vt_ll_bytes =
  Npos (XO (XI (XI XH)))

(** val lenN : str -> n **)

let lenN s =
  N.of_nat (length s)

(** val sumN : n list -> n **)

let sumN l =
  fold_right N.add N0 l

type ll_acc = { la_str : str list; la_int : z list; la_uint : n list;
                la_bool : bool list; la_bytes : str list; la_dec : z list;
                la_float : nat }

(** val la_empty : ll_acc **)

let la_empty =
  { la_str = []; la_int = []; la_uint = []; la_bool = []; la_bytes = [];
    la_dec = []; la_float = O }

(** val leaf_list_collect : scalar option list -> ll_acc -> ll_acc outcome **)

let rec leaf_list_collect l a =
  match l with
  | [] -> Ok a
  | o :: l' ->
    (match o with
     | Some s ->
       (match s with
        | SStr x ->
          leaf_list_collect l' { la_str = (app a.la_str (x :: [])); la_int =
            a.la_int; la_uint = a.la_uint; la_bool = a.la_bool; la_bytes =
            a.la_bytes; la_dec = a.la_dec; la_float = a.la_float }
        | SAscii x ->
          leaf_list_collect l' { la_str = (app a.la_str (x :: [])); la_int =
            a.la_int; la_uint = a.la_uint; la_bool = a.la_bool; la_bytes =
            a.la_bytes; la_dec = a.la_dec; la_float = a.la_float }
        | SInt z0 ->
          leaf_list_collect l' { la_str = a.la_str; la_int =
            (app a.la_int (z0 :: [])); la_uint = a.la_uint; la_bool =
            a.la_bool; la_bytes = a.la_bytes; la_dec = a.la_dec; la_float =
            a.la_float }
        | SUint n0 ->
          leaf_list_collect l' { la_str = a.la_str; la_int = a.la_int;
            la_uint = (app a.la_uint (n0 :: [])); la_bool = a.la_bool;
            la_bytes = a.la_bytes; la_dec = a.la_dec; la_float = a.la_float }
        | SBool b0 ->
          leaf_list_collect l' { la_str = a.la_str; la_int = a.la_int;
            la_uint = a.la_uint; la_bool = (app a.la_bool (b0 :: []));
            la_bytes = a.la_bytes; la_dec = a.la_dec; la_float = a.la_float }
        | SBytes b0 ->
          leaf_list_collect l' { la_str = a.la_str; la_int = a.la_int;
            la_uint = a.la_uint; la_bool = a.la_bool; la_bytes =
            (app a.la_bytes (b0 :: [])); la_dec = a.la_dec; la_float =
            a.la_float }
        | SDecimal d0 ->
          (match d0 with
           | Some p ->
             let (d, _) = p in
             leaf_list_collect l' { la_str = a.la_str; la_int = a.la_int;
               la_uint = a.la_uint; la_bool = a.la_bool; la_bytes =
               a.la_bytes; la_dec = (app a.la_dec (d :: [])); la_float =
               a.la_float }
           | None -> Panic w_nil)
        | SFloat _ ->
          leaf_list_collect l' { la_str = a.la_str; la_int = a.la_int;
            la_uint = a.la_uint; la_bool = a.la_bool; la_bytes = a.la_bytes;
            la_dec = a.la_dec; la_float = (S a.la_float) }
        | SOther -> Err c_internal)
     | None -> Ok a)

(** val has_nil_elem : scalar option list -> bool **)

let has_nil_elem l =
  existsb (fun o -> match o with
                    | Some _ -> false
                    | None -> true) l

(** val mk_nval : n -> n -> z list -> str option -> nval **)

let mk_nval t blen opts s =
  { nv_type = t; nv_blen = blen; nv_opts = opts; nv_str = s }

(** val handle_leaf_list : scalar option list -> nval outcome **)

let handle_leaf_list l =
  if has_nil_elem l
  then Err c_internal
  else bind (leaf_list_collect l la_empty) (fun a ->
         match a.la_str with
         | [] ->
           (match a.la_int with
            | [] ->
              (match a.la_uint with
               | [] ->
                 (match a.la_bool with
                  | [] ->
                    (match a.la_bytes with
                     | [] ->
                       (match a.la_dec with
                        | [] ->
                          (match a.la_float with
                           | O -> Err c_internal
                           | S n0 ->
                             Ok
                               (mk_nval vt_ll_float
                                 (N.mul (Npos (XO (XO (XO XH))))
                                   (N.of_nat (S n0))) [] None))
                        | _ :: _ ->
                          Ok
                            (mk_nval vt_ll_decimal
                              (sumN
                                (map (fun z0 -> mag_len (Z.abs_N z0))
                                  a.la_dec))
                              (Z0 :: (flat_map (fun z0 ->
                                       (Z.of_N (mag_len (Z.abs_N z0))) :: (
                                       (zsign_opt z0) :: [])) a.la_dec)) None))
                     | _ :: _ ->
                       Ok
                         (mk_nval vt_ll_bytes (sumN (map lenN a.la_bytes))
                           (map (fun b0 -> Z.of_N (lenN b0)) a.la_bytes) None))
                  | _ :: _ ->
                    Ok
                      (mk_nval vt_ll_bool (N.of_nat (length a.la_bool)) []
                        None))
               | _ :: _ ->
                 Ok
                   (mk_nval vt_ll_uint (sumN (map mag_len a.la_uint)) ((Zpos
                     (XO (XO (XO (XO (XO
                     XH)))))) :: (map (fun n0 -> Z.of_N (mag_len n0))
                                   a.la_uint)) None))
            | _ :: _ ->
              Ok
                (mk_nval vt_ll_int
                  (sumN (map (fun z0 -> mag_len (Z.abs_N z0)) a.la_int))
                  ((Zpos (XO (XO (XO (XO (XO
                  XH)))))) :: (flat_map (fun z0 ->
                                (Z.of_N (mag_len (Z.abs_N z0))) :: ((zsign_opt
                                                                    z0) :: []))
                                a.la_int)) None))
         | _ :: _ ->
           Ok
             (mk_nval vt_ll_string
               (N.add (sumN (map lenN a.la_str))
                 (N.of_nat (sub (length a.la_str) (S O)))) [] (Some
               (join (c_comma :: []) a.la_str))))

(** val to_native : tval option -> nval outcome **)

let to_native = function
| Some t ->
  (match t with
   | TScalar s ->
     (match s with
      | SStr x -> Ok (mk_nval vt_string (lenN x) [] (Some x))
      | SAscii x -> Ok (mk_nval vt_string (lenN x) [] (Some x))
      | SInt z0 ->
        Ok
          (mk_nval vt_int (mag_len (Z.abs_N z0)) ((Zpos (XO (XO (XO (XO (XO
            XH)))))) :: ((zsign_opt z0) :: [])) (Some (dec_z z0)))
      | SUint n0 ->
        Ok
          (mk_nval vt_uint (mag_len n0) ((Zpos (XO (XO (XO (XO (XO
            XH)))))) :: []) (Some (dec_n n0)))
      | SBool b0 ->
        Ok
          (mk_nval vt_bool (Npos XH) [] (Some
            (if b0
             then b (String ((Ascii (false, false, true, false, true, true,
                    true, false)), (String ((Ascii (false, true, false,
                    false, true, true, true, false)), (String ((Ascii (true,
                    false, true, false, true, true, true, false)), (String
                    ((Ascii (true, false, true, false, false, true, true,
                    false)), EmptyString))))))))
             else b (String ((Ascii (false, true, true, false, false, true,
                    true, false)), (String ((Ascii (true, false, false,
                    false, false, true, true, false)), (String ((Ascii
                    (false, false, true, true, false, true, true, false)),
                    (String ((Ascii (true, true, false, false, true, true,
                    true, false)), (String ((Ascii (true, false, true, false,
                    false, true, true, false)), EmptyString)))))))))))))
      | SBytes b0 ->
        Ok (mk_nval vt_bytes (lenN b0) ((Z.of_N (lenN b0)) :: []) None)
      | SDecimal d0 ->
        (match d0 with
         | Some p0 ->
           let (d, p) = p0 in
           Ok
           (mk_nval vt_decimal (mag_len (Z.abs_N d))
             ((Z.of_N
                (N.modulo p (Npos (XO (XO (XO (XO (XO (XO (XO (XO XH))))))))))) :: (
             (zsign_opt d) :: [])) None)
         | None -> Panic w_nil)
      | SFloat isnan ->
        if isnan
        then Err c_internal
        else Ok (mk_nval vt_float (Npos (XO (XI (XO XH)))) [] None)
      | SOther -> Err c_internal)
   | TJson _ -> Err c_internal
   | TLeaflist l -> handle_leaf_list l)
| None -> Err c_internal

(** val run_slices : nat -> z list -> z -> z -> unit outcome **)

let rec run_slices step opts pos blen =
  match opts with
  | [] -> Ok ()
  | o :: rest ->
    if (&&) ((&&) (Z.leb Z0 pos) (Z.leb pos (Z.add pos o)))
         (Z.leb (Z.add pos o) blen)
    then (match step with
          | O -> run_slices step rest (Z.add pos o) blen
          | S n0 ->
            (match n0 with
             | O ->
               (match rest with
                | [] -> Ok ()
                | _ :: rest' -> run_slices step rest' (Z.add pos o) blen)
             | S _ -> run_slices step rest (Z.add pos o) blen))
    else Panic w_slice

(** val take_pairs : z list -> z list **)

let rec take_pairs = function
| [] -> []
| a :: l ->
  (match l with
   | [] -> []
   | b0 :: rest -> a :: (b0 :: (take_pairs rest)))

(** val ll_bytes_walk : nat -> z -> z -> z list -> unit outcome **)

let rec ll_bytes_walk nbytes i start opts =
  match nbytes with
  | O -> Ok ()
  | S k ->
    (match opts with
     | [] -> Panic w_index
     | vl :: rest ->
       if Z.eqb (Z.sub i start) vl
       then ll_bytes_walk k (Z.add i (Zpos XH)) (Z.add start vl) rest
       else ll_bytes_walk k (Z.add i (Zpos XH)) start opts)

(** val leaf_guard : nval -> unit outcome **)

let leaf_guard v =
  let t = v.nv_type in
  if N.eqb t vt_bool
  then if N.leb (Npos XH) v.nv_blen then Ok () else Panic w_index
  else if (||) (N.eqb t vt_ll_int) (N.eqb t vt_ll_decimal)
       then (match v.nv_opts with
             | [] -> Panic w_index
             | _ :: rest ->
               run_slices (S O) (take_pairs rest) Z0 (Z.of_N v.nv_blen))
       else if N.eqb t vt_ll_uint
            then (match v.nv_opts with
                  | [] -> Panic w_index
                  | _ :: rest -> run_slices O rest Z0 (Z.of_N v.nv_blen))
            else if N.eqb t vt_ll_bytes
                 then ll_bytes_walk (N.to_nat v.nv_blen) Z0 Z0 v.nv_opts
                 else Ok ()

(** val next_token : bool -> bool -> str -> str * str **)

let rec next_token inbr esc s = match s with
| [] -> ([], [])
| c :: s' ->
  if (&&) ((&&) (N.eqb c c_slash) (negb inbr)) (negb esc)
  then ([], s)
  else if N.eqb c c_lbr
       then let inbr' = true in
            let esc' = false in
            let (tok0, rest) = next_token inbr' esc' s' in ((c :: tok0), rest)
       else if N.eqb c c_rbr
            then let inbr' = if esc then inbr else false in
                 let esc' = false in
                 let (tok0, rest) = next_token inbr' esc' s' in
                 ((c :: tok0), rest)
            else if N.eqb c c_bslash
                 then let esc' = negb esc in
                      let (tok0, rest) = next_token inbr esc' s' in
                      ((c :: tok0), rest)
                 else let esc' = false in
                      let (tok0, rest) = next_token inbr esc' s' in
                      ((c :: tok0), rest)

(** val strip_slash : str -> str **)

let strip_slash s = match s with
| [] -> []
| c :: s' -> if N.eqb c c_slash then s' else s

(** val split_path_aux : nat -> str -> str list **)

let rec split_path_aux fuel s =
  match fuel with
  | O -> []
  | S f ->
    (match s with
     | [] -> []
     | _ :: _ ->
       let (tok0, rest) = next_token false false s in
       tok0 :: (split_path_aux f (strip_slash rest)))

(** val split_path : str -> str list **)

let split_path p =
  split_path_aux (S (length p)) (strip_slash p)

(** val key_loop : nat -> str -> unit outcome **)

let rec key_loop fuel ks =
  match fuel with
  | O -> Panic w_fuel
  | S f ->
    if has_byte c_eq ks
    then let b1 = zindex c_lbr ks in
         let e = zindex c_eq ks in
         let b2 = zindex c_rbr ks in
         bind (slice ks (Z.add b1 (Zpos XH)) e) (fun _ ->
           bind (slice ks (Z.add e (Zpos XH)) b2) (fun _ ->
             bind (slice ks (Z.add b2 (Zpos XH)) (zlen ks)) (fun ks' ->
               key_loop f ks')))
    else Ok ()

(** val tree_guard_aux : nat -> str -> unit outcome **)

let rec tree_guard_aux fuel path =
  match fuel with
  | O -> Panic w_fuel
  | S f ->
    (match split_path path with
     | [] -> Panic w_index
     | e0 :: rest ->
       (match rest with
        | [] -> Ok ()
        | _ :: _ ->
          let refine = join (c_slash :: []) rest in
          if has_byte c_eq e0
          then if eqb_str refine []
               then Ok ()
               else let b0 = zindex c_lbr e0 in
                    bind (slice e0 Z0 b0) (fun _ ->
                      bind (slice e0 b0 (zlen e0)) (fun ks ->
                        bind (key_loop (S (length ks)) ks) (fun _ ->
                          tree_guard_aux f (c_slash :: refine))))
          else if eqb_str refine []
               then Ok ()
               else tree_guard_aux f (c_slash :: refine)))

(** val tree_guard : str -> unit outcome **)

let tree_guard path =
  tree_guard_aux (S (length path)) path

(** val is_meta : n -> bool **)

let is_meta c =
  existsb (fun m -> N.eqb c m) ((Npos (XO (XO (XI (XI (XI (XO
    XH))))))) :: ((Npos (XO (XI (XI (XI (XO XH)))))) :: ((Npos (XI (XI (XO
    (XI (XO XH)))))) :: ((Npos (XO (XI (XO (XI (XO XH)))))) :: ((Npos (XI (XI
    (XI (XI (XI XH)))))) :: ((Npos (XO (XO (XO (XI (XO XH)))))) :: ((Npos (XI
    (XO (XO (XI (XO XH)))))) :: ((Npos (XO (XO (XI (XI (XI (XI
    XH))))))) :: ((Npos (XI (XI (XO (XI (XI (XO XH))))))) :: ((Npos (XI (XO
    (XI (XI (XI (XO XH))))))) :: ((Npos (XI (XI (XO (XI (XI (XI
    XH))))))) :: ((Npos (XI (XO (XI (XI (XI (XI XH))))))) :: ((Npos (XO (XI
    (XI (XI (XI (XO XH))))))) :: ((Npos (XO (XO (XI (XO (XO
    XH)))))) :: []))))))))))))))

(** val quote_meta : str -> str **)

let quote_meta s =
  flat_map (fun c -> if is_meta c then c_bslash :: (c :: []) else c :: []) s

(** val legal_class : str **)

let legal_class =
  b (String ((Ascii (true, true, false, true, true, false, true, false)),
    (String ((Ascii (true, false, false, false, false, true, true, false)),
    (String ((Ascii (true, false, true, true, false, true, false, false)),
    (String ((Ascii (false, true, false, true, true, true, true, false)),
    (String ((Ascii (true, false, false, false, false, false, true, false)),
    (String ((Ascii (true, false, true, true, false, true, false, false)),
    (String ((Ascii (false, true, false, true, true, false, true, false)),
    (String ((Ascii (false, false, false, false, true, true, false, false)),
    (String ((Ascii (true, false, true, true, false, true, false, false)),
    (String ((Ascii (true, false, false, true, true, true, false, false)),
    (String ((Ascii (true, true, true, true, true, false, true, false)),
    (String ((Ascii (false, true, false, true, true, true, false, false)),
    (String ((Ascii (false, false, true, true, false, true, false, false)),
    (String ((Ascii (false, false, true, true, true, false, true, false)),
    (String ((Ascii (true, false, true, true, false, true, false, false)),
    (String ((Ascii (false, false, true, true, true, false, true, false)),
    (String ((Ascii (false, true, true, true, false, true, false, false)),
    (String ((Ascii (true, false, true, true, true, false, true, false)),
    (String ((Ascii (false, true, false, true, false, true, false, false)),
    (String ((Ascii (true, true, true, true, true, true, false, false)),
    EmptyString))))))))))))))))))))))))))))))))))))))))

(** val wildcard_regexp : str -> bool -> str **)

let wildcard_regexp query exact =
  let q1 =
    replace_all
      (b (String ((Ascii (false, false, true, true, true, false, true,
        false)), (String ((Ascii (false, true, true, true, false, true,
        false, false)), (String ((Ascii (false, false, true, true, true,
        false, true, false)), (String ((Ascii (false, true, true, true,
        false, true, false, false)), (String ((Ascii (false, false, true,
        true, true, false, true, false)), (String ((Ascii (false, true, true,
        true, false, true, false, false)), EmptyString)))))))))))))
      (b (String ((Ascii (false, true, true, true, false, true, false,
        false)), (String ((Ascii (false, true, false, true, false, true,
        false, false)), EmptyString))))) (quote_meta query)
  in
  let q2 =
    replace_all
      (b (String ((Ascii (false, false, true, true, true, false, true,
        false)), (String ((Ascii (false, true, false, true, false, true,
        false, false)), EmptyString))))) legal_class q1
  in
  if exact
  then app
         (b (String ((Ascii (false, true, true, true, true, false, true,
           false)), EmptyString)))
         (app q2
           (b (String ((Ascii (false, false, true, false, false, true, false,
             false)), EmptyString))))
  else if (||) (suffixb (c_slash :: []) query)
            (suffixb
              (b (String ((Ascii (false, true, true, true, false, true,
                false, false)), (String ((Ascii (false, true, true, true,
                false, true, false, false)), (String ((Ascii (false, true,
                true, true, false, true, false, false)), EmptyString)))))))
              query)
       then app
              (b (String ((Ascii (false, true, true, true, true, false, true,
                false)), EmptyString))) q2
       else app
              (b (String ((Ascii (false, true, true, true, true, false, true,
                false)), EmptyString)))
              (app q2
                (b (String ((Ascii (false, false, false, true, false, true,
                  false, false)), (String ((Ascii (true, true, true, true,
                  true, true, false, false)), (String ((Ascii (false, true,
                  false, true, true, true, false, false)), (String ((Ascii
                  (false, false, true, false, false, true, false, false)),
                  (String ((Ascii (false, false, true, true, true, true,
                  true, false)), (String ((Ascii (true, true, false, true,
                  true, false, true, false)), (String ((Ascii (true, true,
                  true, true, false, true, false, false)), (String ((Ascii
                  (false, false, true, true, true, false, true, false)),
                  (String ((Ascii (true, true, false, true, true, false,
                  true, false)), (String ((Ascii (true, false, true, true,
                  true, false, true, false)), (String ((Ascii (true, false,
                  false, true, false, true, false, false)),
                  EmptyString))))))))))))))))))))))))

type tok =
| TLit of n
| TAny
| TLegal

type rend =
| EndExact
| EndOpen
| EndBoundary

(** val re_atoms : nat -> str -> (tok list * rend) option **)

let rec re_atoms fuel s =
  match fuel with
  | O -> None
  | S f ->
    if eqb_str s []
    then Some ([], EndOpen)
    else if eqb_str s
              (b (String ((Ascii (false, false, true, false, false, true,
                false, false)), EmptyString)))
         then Some ([], EndExact)
         else if eqb_str s
                   (b (String ((Ascii (false, false, false, true, false,
                     true, false, false)), (String ((Ascii (true, true, true,
                     true, true, true, false, false)), (String ((Ascii
                     (false, true, false, true, true, true, false, false)),
                     (String ((Ascii (false, false, true, false, false, true,
                     false, false)), (String ((Ascii (false, false, true,
                     true, true, true, true, false)), (String ((Ascii (true,
                     true, false, true, true, false, true, false)), (String
                     ((Ascii (true, true, true, true, false, true, false,
                     false)), (String ((Ascii (false, false, true, true,
                     true, false, true, false)), (String ((Ascii (true, true,
                     false, true, true, false, true, false)), (String ((Ascii
                     (true, false, true, true, true, false, true, false)),
                     (String ((Ascii (true, false, false, true, false, true,
                     false, false)), EmptyString)))))))))))))))))))))))
              then Some ([], EndBoundary)
              else if prefixb legal_class s
                   then option_map (fun r -> ((TLegal :: (fst r)), (snd r)))
                          (re_atoms f (skipn (length legal_class) s))
                   else (match s with
                         | [] -> None
                         | c :: s' ->
                           (match c with
                            | N0 ->
                              if is_meta c
                              then None
                              else option_map (fun r -> (((TLit
                                     c) :: (fst r)), (snd r))) (re_atoms f s')
                            | Npos p ->
                              (match p with
                               | XO p0 ->
                                 (match p0 with
                                  | XI p1 ->
                                    (match p1 with
                                     | XI p2 ->
                                       (match p2 with
                                        | XI p3 ->
                                          (match p3 with
                                           | XO p4 ->
                                             (match p4 with
                                              | XH ->
                                                (match s' with
                                                 | [] ->
                                                   if is_meta c
                                                   then None
                                                   else option_map (fun r ->
                                                          (((TLit
                                                          c) :: (fst r)),
                                                          (snd r)))
                                                          (re_atoms f s')
                                                 | n0 :: s'0 ->
                                                   (match n0 with
                                                    | N0 ->
                                                      if is_meta c
                                                      then None
                                                      else option_map
                                                             (fun r ->
                                                             (((TLit
                                                             c) :: (fst r)),
                                                             (snd r)))
                                                             (re_atoms f s')
                                                    | Npos p5 ->
                                                      (match p5 with
                                                       | XO p6 ->
                                                         (match p6 with
                                                          | XI p7 ->
                                                            (match p7 with
                                                             | XO p8 ->
                                                               (match p8 with
                                                                | XI p9 ->
                                                                  (match p9 with
                                                                   | XO p10 ->
                                                                    (match p10 with
                                                                    | XH ->
                                                                    option_map
                                                                    (fun r ->
                                                                    ((TAny :: 
                                                                    (fst r)),
                                                                    (snd r)))
                                                                    (re_atoms
                                                                    f s'0)
                                                                    | _ ->
                                                                    if 
                                                                    is_meta c
                                                                    then None
                                                                    else 
                                                                    option_map
                                                                    (fun r ->
                                                                    (((TLit
                                                                    c) :: 
                                                                    (fst r)),
                                                                    (snd r)))
                                                                    (re_atoms
                                                                    f s'))
                                                                   | _ ->
                                                                    if 
                                                                    is_meta c
                                                                    then None
                                                                    else 
                                                                    option_map
                                                                    (fun r ->
                                                                    (((TLit
                                                                    c) :: 
                                                                    (fst r)),
                                                                    (snd r)))
                                                                    (re_atoms
                                                                    f s'))
                                                                | _ ->
                                                                  if is_meta c
                                                                  then None
                                                                  else 
                                                                    option_map
                                                                    (fun r ->
                                                                    (((TLit
                                                                    c) :: 
                                                                    (fst r)),
                                                                    (snd r)))
                                                                    (re_atoms
                                                                    f s'))
                                                             | _ ->
                                                               if is_meta c
                                                               then None
                                                               else option_map
                                                                    (fun r ->
                                                                    (((TLit
                                                                    c) :: 
                                                                    (fst r)),
                                                                    (snd r)))
                                                                    (re_atoms
                                                                    f s'))
                                                          | _ ->
                                                            if is_meta c
                                                            then None
                                                            else option_map
                                                                   (fun r ->
                                                                   (((TLit
                                                                   c) :: 
                                                                   (fst r)),
                                                                   (snd r)))
                                                                   (re_atoms
                                                                    f s'))
                                                       | _ ->
                                                         if is_meta c
                                                         then None
                                                         else option_map
                                                                (fun r ->
                                                                (((TLit
                                                                c) :: 
                                                                (fst r)),
                                                                (snd r)))
                                                                (re_atoms f
                                                                  s'))))
                                              | _ ->
                                                if is_meta c
                                                then None
                                                else option_map (fun r ->
                                                       (((TLit
                                                       c) :: (fst r)),
                                                       (snd r)))
                                                       (re_atoms f s'))
                                           | _ ->
                                             if is_meta c
                                             then None
                                             else option_map (fun r ->
                                                    (((TLit c) :: (fst r)),
                                                    (snd r))) (re_atoms f s'))
                                        | _ ->
                                          if is_meta c
                                          then None
                                          else option_map (fun r -> (((TLit
                                                 c) :: (fst r)), (snd r)))
                                                 (re_atoms f s'))
                                     | _ ->
                                       if is_meta c
                                       then None
                                       else option_map (fun r -> (((TLit
                                              c) :: (fst r)), (snd r)))
                                              (re_atoms f s'))
                                  | XO p1 ->
                                    (match p1 with
                                     | XI p2 ->
                                       (match p2 with
                                        | XI p3 ->
                                          (match p3 with
                                           | XI p4 ->
                                             (match p4 with
                                              | XO p5 ->
                                                (match p5 with
                                                 | XH ->
                                                   (match s' with
                                                    | [] ->
                                                      if is_meta c
                                                      then None
                                                      else option_map
                                                             (fun r ->
                                                             (((TLit
                                                             c) :: (fst r)),
                                                             (snd r)))
                                                             (re_atoms f s')
                                                    | c0 :: s'0 ->
                                                      if is_meta c0
                                                      then option_map
                                                             (fun r ->
                                                             (((TLit
                                                             c0) :: (fst r)),
                                                             (snd r)))
                                                             (re_atoms f s'0)
                                                      else None)
                                                 | _ ->
                                                   if is_meta c
                                                   then None
                                                   else option_map (fun r ->
                                                          (((TLit
                                                          c) :: (fst r)),
                                                          (snd r)))
                                                          (re_atoms f s'))
                                              | _ ->
                                                if is_meta c
                                                then None
                                                else option_map (fun r ->
                                                       (((TLit
                                                       c) :: (fst r)),
                                                       (snd r)))
                                                       (re_atoms f s'))
                                           | _ ->
                                             if is_meta c
                                             then None
                                             else option_map (fun r ->
                                                    (((TLit c) :: (fst r)),
                                                    (snd r))) (re_atoms f s'))
                                        | _ ->
                                          if is_meta c
                                          then None
                                          else option_map (fun r -> (((TLit
                                                 c) :: (fst r)), (snd r)))
                                                 (re_atoms f s'))
                                     | _ ->
                                       if is_meta c
                                       then None
                                       else option_map (fun r -> (((TLit
                                              c) :: (fst r)), (snd r)))
                                              (re_atoms f s'))
                                  | XH ->
                                    if is_meta c
                                    then None
                                    else option_map (fun r -> (((TLit
                                           c) :: (fst r)), (snd r)))
                                           (re_atoms f s'))
                               | _ ->
                                 if is_meta c
                                 then None
                                 else option_map (fun r -> (((TLit
                                        c) :: (fst r)), (snd r)))
                                        (re_atoms f s'))))

(** val must_compile : str -> (tok list * rend) outcome **)

let must_compile = function
| [] -> Panic w_regexp
| n0 :: body ->
  (match n0 with
   | N0 -> Panic w_regexp
   | Npos p ->
     (match p with
      | XO p0 ->
        (match p0 with
         | XI p1 ->
           (match p1 with
            | XI p2 ->
              (match p2 with
               | XI p3 ->
                 (match p3 with
                  | XI p4 ->
                    (match p4 with
                     | XO p5 ->
                       (match p5 with
                        | XH ->
                          (match re_atoms (S (length body)) body with
                           | Some r -> Ok r
                           | None -> Panic w_regexp)
                        | _ -> Panic w_regexp)
                     | _ -> Panic w_regexp)
                  | _ -> Panic w_regexp)
               | _ -> Panic w_regexp)
            | _ -> Panic w_regexp)
         | _ -> Panic w_regexp)
      | _ -> Panic w_regexp))

(** val legal_char : n -> bool **)

let legal_char c =
  (||)
    ((||)
      ((||)
        ((||)
          ((||) (is_alnum c)
            (N.eqb c (Npos (XI (XI (XI (XI (XI (XO XH)))))))))
          (N.eqb c (Npos (XO (XI (XO (XI (XI XH))))))))
        (N.eqb c (Npos (XO (XO (XI (XI (XO XH))))))))
      (N.eqb c (Npos (XI (XO (XI (XI (XO XH))))))))
    (N.eqb c (Npos (XO (XI (XI (XI (XO XH)))))))

(** val re_match : tok list -> rend -> str -> bool **)

let rec re_match toks e s =
  match toks with
  | [] ->
    (match e with
     | EndExact -> eqb_str s []
     | EndOpen -> true
     | EndBoundary ->
       (match s with
        | [] -> true
        | c :: _ -> (||) (N.eqb c c_slash) (N.eqb c c_lbr)))
  | t0 :: t ->
    (match t0 with
     | TLit c ->
       (match s with
        | [] -> false
        | x :: s' -> (&&) (N.eqb x c) (re_match t e s'))
     | TAny ->
       let rec go s0 =
         (||) (re_match t e s0)
           (match s0 with
            | [] -> false
            | x :: s' -> (&&) (negb (N.eqb x c_nl)) (go s'))
       in go s
     | TLegal ->
       let rec go s0 =
         (||) (re_match t e s0)
           (match s0 with
            | [] -> false
            | x :: s' -> (&&) (legal_char x) (go s'))
       in go s)

(** val extract_ext : n -> extension list -> ext_payload option outcome **)

let rec extract_ext id = function
| [] -> Ok None
| e :: rest ->
  (match e with
   | ERegistered r ->
     (match r with
      | Some p0 ->
        let (i, p) = p0 in
        if N.eqb i id then Ok (Some p) else extract_ext id rest
      | None -> Panic w_nil)
   | EOther -> extract_ext id rest)

(** val id_strategy : n **)

let id_strategy =
  Npos (XI (XI (XI (XI (XO (XI XH))))))

(** val id_overrides : n **)

let id_overrides =
  Npos (XO (XO (XO (XO (XI (XI XH))))))

(** val get_overrides :
    extension list -> (str * (str * str) option) list outcome **)

let get_overrides exts =
  bind (extract_ext id_overrides exts) (fun x ->
    match x with
    | Some e -> (match e with
                 | XOverrides m -> Ok m
                 | _ -> Err c_invalid)
    | None -> Ok [])

(** val get_strategy : extension list -> bool outcome **)

let get_strategy exts =
  bind (extract_ext id_strategy exts) (fun x ->
    match x with
    | Some e -> (match e with
                 | XStrategy b0 -> Ok b0
                 | _ -> Err c_invalid)
    | None -> Ok false)

(** val find_target : env -> str -> target option **)

let find_target e id =
  find (fun t -> eqb_str t.tg_id id) e.en_topo

(** val find_plugin : env -> str -> str -> plugin option **)

let find_plugin e ty ver =
  find (fun p -> (&&) (eqb_str p.pl_type ty) (eqb_str p.pl_version ver))
    e.en_plugins

(** val lookup_override :
    (str * (str * str) option) list -> str -> (str * str) option option **)

let lookup_override m id =
  option_map snd (find (fun kv -> eqb_str (fst kv) id) m)

(** val resolve_target :
    env -> (str * (str * str) option) list -> str -> plugin outcome **)

let resolve_target e ov id =
  match find_target e id with
  | Some t ->
    bind
      (match lookup_override ov id with
       | Some o -> (match o with
                    | Some tv -> Ok tv
                    | None -> Err c_invalid)
       | None -> Ok (t.tg_type, t.tg_version)) (fun tv ->
      match find_plugin e (fst tv) (snd tv) with
      | Some p -> Ok p
      | None -> Err c_notfound)
  | None -> Err c_notfound

type set_req = { s_prefix : gpath option; s_delete : gpath option list;
                 s_replace : update option list;
                 s_update : update option list; s_ext : extension list }

(** val path_target : gpath option -> str **)

let path_target = function
| Some p0 -> p0.p_target
| None -> []

(** val full_path : gpath option -> gpath option -> str outcome **)

let full_path prefix p =
  bind (str_path prefix) (fun pp ->
    bind (str_path p) (fun s -> Ok (if eqb_str pp root then s else app pp s)))

(** val do_delete :
    rwpath list -> gpath option -> gpath option -> str outcome **)

let do_delete rw prefix p =
  bind (full_path prefix p) (fun path ->
    bind (find_path_from_model path rw false) (fun r ->
      let (b0, o) = r in
      if b0
      then (match o with
            | Some rp ->
              if (&&) rp.rw_iskey (negb (suffixb (c_rbr :: []) path))
              then slice path Z0 (zlast_index c_slash path)
              else Ok path
            | None -> Ok path)
      else Ok path))

(** val do_update :
    rwpath list -> gpath option -> update option -> str list outcome **)

let do_update rw prefix = function
| Some u0 ->
  bind (full_path prefix u0.u_path) (fun path ->
    match u0.u_val with
    | Some t ->
      (match t with
       | TScalar s ->
         bind (find_path_from_model path rw true) (fun r ->
           let (_, o) = r in
           (match o with
            | Some rp ->
              bind (to_native (Some (TScalar s))) (fun nv ->
                bind (check_key_value path rp nv) (fun _ -> Ok (path :: [])))
            | None -> Panic w_nil))
       | TJson _ ->
         bind (json_base_path path) (fun _ ->
           match u0.u_plugin with
           | PErr c -> Err c
           | PPaths ps -> Ok ps)
       | TLeaflist l ->
         bind (find_path_from_model path rw true) (fun r ->
           let (_, o) = r in
           (match o with
            | Some rp ->
              bind (to_native (Some (TLeaflist l))) (fun nv ->
                bind (check_key_value path rp nv) (fun _ -> Ok (path :: [])))
            | None -> Panic w_nil)))
    | None ->
      bind (find_path_from_model path rw true) (fun r ->
        let (_, o) = r in
        (match o with
         | Some rp ->
           bind (to_native None) (fun nv ->
             bind (check_key_value path rp nv) (fun _ -> Ok (path :: [])))
         | None -> Panic w_nil)))
| None -> Panic w_nil

type tinfo = { ti_id : str; ti_plugin : plugin; ti_updates : str list;
               ti_removes : str list }

(** val set_target_id : gpath option -> str -> str **)

let set_target_id prefix path_tgt =
  let pt = path_target prefix in if eqb_str pt [] then path_tgt else pt

(** val get_tinfo :
    env -> (str * (str * str) option) list -> tinfo list -> str ->
    (tinfo * tinfo list) outcome **)

let get_tinfo e ov ts id =
  match find (fun t -> eqb_str t.ti_id id) ts with
  | Some t -> Ok (t, ts)
  | None ->
    bind (resolve_target e ov id) (fun p ->
      let t = { ti_id = id; ti_plugin = p; ti_updates = []; ti_removes = [] }
      in
      Ok (t, (t :: ts)))

(** val put_tinfo : tinfo -> tinfo list -> tinfo list **)

let put_tinfo t ts =
  map (fun x -> if eqb_str x.ti_id t.ti_id then t else x) ts

(** val set_deletes :
    env -> (str * (str * str) option) list -> gpath option -> gpath option
    list -> tinfo list -> tinfo list outcome **)

let rec set_deletes e ov prefix ds ts =
  match ds with
  | [] -> Ok ts
  | d :: ds' ->
    bind (get_tinfo e ov ts (set_target_id prefix (path_target d))) (fun r ->
      let (t, ts1) = r in
      bind (do_delete t.ti_plugin.pl_rw prefix d) (fun path ->
        set_deletes e ov prefix ds'
          (put_tinfo { ti_id = t.ti_id; ti_plugin = t.ti_plugin; ti_updates =
            t.ti_updates; ti_removes = (app t.ti_removes (path :: [])) } ts1)))

(** val set_updates :
    env -> (str * (str * str) option) list -> gpath option -> update option
    list -> tinfo list -> tinfo list outcome **)

let rec set_updates e ov prefix us ts =
  match us with
  | [] -> Ok ts
  | u :: us' ->
    bind
      (match u with
       | Some u0 -> Ok (path_target u0.u_path)
       | None -> Panic w_nil) (fun tgt ->
      bind (get_tinfo e ov ts (set_target_id prefix tgt)) (fun r ->
        let (t, ts1) = r in
        bind (do_update t.ti_plugin.pl_rw prefix u) (fun ps ->
          set_updates e ov prefix us'
            (put_tinfo { ti_id = t.ti_id; ti_plugin = t.ti_plugin;
              ti_updates = (app t.ti_updates ps); ti_removes = t.ti_removes }
              ts1))))

(** val dedup_count : str list -> n **)

let dedup_count l =
  N.of_nat (length (nodup str_eq_dec l))

(** val set_handler : env -> set_req -> bool outcome **)

let set_handler e r =
  bind (get_overrides r.s_ext) (fun ov ->
    bind (get_strategy r.s_ext) (fun _ ->
      if Nat.ltb
           (add (add (length r.s_update) (length r.s_replace))
             (length r.s_delete)) (S O)
      then Err c_invalid
      else bind (set_deletes e ov r.s_prefix r.s_delete []) (fun ts ->
             bind (set_updates e ov r.s_prefix r.s_replace ts) (fun ts0 ->
               bind (set_updates e ov r.s_prefix r.s_update ts0) (fun ts1 ->
                 if (&&) (N.ltb N0 e.en_size_limit)
                      ((||) (negb (Nat.eqb (length ts1) (S O)))
                        (existsb (fun t ->
                          N.ltb e.en_size_limit
                            (N.add (dedup_count t.ti_updates)
                              (N.of_nat (length t.ti_removes)))) ts1))
                 then Err c_invalid
                 else if forallb (fun t ->
                           (&&) (forallb is_path_valid t.ti_updates)
                             (forallb is_path_valid t.ti_removes)) ts1
                      then Ok false
                      else Err c_invalid)))))

type get_req = { g_prefix : gpath option; g_path : gpath option list;
                 g_encoding : n; g_type : n; g_ext : extension list }

(** val enc_json : n **)

let enc_json =
  N0

(** val enc_proto : n **)

let enc_proto =
  Npos (XO XH)

(** val enc_json_ietf : n **)

let enc_json_ietf =
  Npos (XO (XO XH))

(** val c_dash : n **)

let c_dash =
  Npos (XI (XO (XI (XI (XO XH)))))

(** val config_id : str -> str -> str -> str **)

let config_id id ty ver =
  app id (app (c_dash :: []) (app ty (app (c_dash :: []) ver)))

(** val find_config : state -> str -> str -> str -> config option **)

let find_config st id ty ver =
  find (fun c -> eqb_str c.cf_id (config_id id ty ver)) st

(** val add_target :
    env -> state -> (str * (str * str) option) list -> str -> config outcome **)

let add_target e st ov id =
  bind (resolve_target e ov id) (fun p ->
    match find_config st id p.pl_type p.pl_version with
    | Some c -> Ok c
    | None -> Err c_notfound)

(** val forall_guard : ('a1 -> unit outcome) -> 'a1 list -> unit outcome **)

let rec forall_guard f = function
| [] -> Ok ()
| x :: l' -> bind (f x) (fun _ -> forall_guard f l')

(** val get_update : config -> n -> str -> bool outcome **)

let get_update c enc query =
  bind (must_compile (wildcard_regexp query false)) (fun re ->
    let sel =
      filter (fun v ->
        (&&) (re_match (fst re) (snd re) v.sv_path) (negb v.sv_deleted))
        c.cf_values
    in
    (match sel with
     | [] -> Ok true
     | _ :: _ ->
       if (||) (N.eqb enc enc_json) (N.eqb enc enc_json_ietf)
       then bind
              (forall_guard (fun v ->
                bind (tree_guard v.sv_path) (fun _ -> leaf_guard v.sv_val))
                sel) (fun _ -> Ok false)
       else if N.eqb enc enc_proto
            then bind (forall_guard (fun v -> leaf_guard v.sv_val) sel)
                   (fun _ -> Ok false)
            else Err c_invalid))

(** val trim_slash : str -> str **)

let trim_slash s =
  if suffixb (c_slash :: []) s then removelast s else s

(** val prefix_has_elems : gpath option -> bool **)

let prefix_has_elems = function
| Some p -> (match p.p_elem with
             | [] -> false
             | _ :: _ -> true)
| None -> false

(** val get_paths :
    env -> state -> (str * (str * str) option) list -> gpath option -> gpath
    option list -> (str * config) list -> (str * str) list -> ((str * config)
    list * (str * str) list) option outcome **)

let rec get_paths e st ov prefix ps seen acc =
  match ps with
  | [] -> Ok (Some (seen, acc))
  | o :: ps' ->
    (match o with
     | Some p ->
       if (||)
            (eqb_str p.p_target
              (b (String ((Ascii (false, true, false, true, false, true,
                false, false)), EmptyString))))
            (eqb_str (path_target prefix)
              (b (String ((Ascii (false, true, false, true, false, true,
                false, false)), EmptyString))))
       then Ok None
       else let id =
              if eqb_str p.p_target [] then path_target prefix else p.p_target
            in
            if eqb_str id []
            then Err c_invalid
            else bind
                   (match find (fun sc -> eqb_str (fst sc) id) seen with
                    | Some _ -> Ok seen
                    | None ->
                      bind (add_target e st ov id) (fun c -> Ok ((id,
                        c) :: seen))) (fun seen' ->
                   bind (str_path (Some p)) (fun s ->
                     bind
                       (if prefix_has_elems prefix
                        then bind (str_path prefix) (fun pp -> Ok (app pp s))
                        else Ok s) (fun s0 ->
                       get_paths e st ov prefix ps' seen'
                         (app acc ((id, (trim_slash s0)) :: [])))))
     | None -> Panic w_nil)

(** val get_updates :
    (str * config) list -> n -> (str * str) list -> bool -> bool outcome **)

let rec get_updates seen enc qs definite =
  match qs with
  | [] -> Ok definite
  | p :: qs' ->
    let (id, q) = p in
    (match find (fun sc -> eqb_str (fst sc) id) seen with
     | Some p0 ->
       let (_, c) = p0 in
       bind (get_update c enc q) (fun d ->
         get_updates seen enc qs' ((&&) definite d))
     | None -> get_updates seen enc qs' definite)

(** val get_handler : env -> state -> get_req -> bool outcome **)

let get_handler e st r =
  if negb
       ((||)
         ((||) (N.eqb r.g_encoding enc_proto)
           (N.eqb r.g_encoding enc_json_ietf)) (N.eqb r.g_encoding enc_json))
  then Err c_invalid
  else bind (get_strategy r.g_ext) (fun sync ->
         if (||) (N.eqb r.g_type (Npos (XO XH)))
              (N.eqb r.g_type (Npos (XI XH)))
         then let rec go ps any =
                match ps with
                | [] -> if any then Err c_some else Ok true
                | o :: ps' ->
                  (match o with
                   | Some p ->
                     let id =
                       if eqb_str p.p_target []
                       then path_target r.g_prefix
                       else p.p_target
                     in
                     if eqb_str id [] then Err c_invalid else go ps' true
                   | None -> Panic w_nil)
              in go r.g_path false
         else bind
                (match get_overrides r.g_ext with
                 | Err _ -> Err c_internal
                 | x -> x) (fun ov ->
                bind (get_paths e st ov r.g_prefix r.g_path [] []) (fun x ->
                  match x with
                  | Some p ->
                    let (seen, qs) = p in
                    bind
                      (match r.g_path with
                       | [] ->
                         (match r.g_prefix with
                          | Some pf ->
                            if eqb_str pf.p_target []
                            then Err c_invalid
                            else bind
                                   (match add_target e st ov pf.p_target with
                                    | Err _ -> Err c_invalid
                                    | x0 -> x0) (fun c ->
                                   bind (str_path (Some pf)) (fun q ->
                                     bind (get_update c r.g_encoding q)
                                       (fun d -> Ok (d, ((pf.p_target,
                                       c) :: [])))))
                          | None -> Ok (true, seen))
                       | _ :: _ -> Ok (true, seen)) (fun r1 ->
                      bind (get_updates seen r.g_encoding qs (fst r1))
                        (fun d ->
                        if (&&) sync
                             (negb
                               (match snd r1 with
                                | [] -> true
                                | _ :: _ -> false))
                        then Ok false
                        else Ok d))
                  | None -> Ok true)))

type sub_msg =
| MSubscribe of gpath option * gpath option list
| MPoll
| MOther

(** val subscribe_step : bool -> sub_msg -> bool outcome **)

let subscribe_step subscribed = function
| MSubscribe (prefix, subs) ->
  if subscribed
  then Err c_unknown
  else if negb (eqb_str (path_target prefix) [])
       then Ok true
       else if existsb (fun s -> negb (eqb_str (path_target s) [])) subs
            then Ok true
            else Err c_unknown
| MPoll -> if subscribed then Ok true else Err c_unknown
| MOther -> Err c_unknown

(** val subscribe_handler : bool -> sub_msg list -> bool outcome **)

let rec subscribe_handler subscribed = function
| [] -> Ok true
| m :: ms' ->
  bind (subscribe_step subscribed m) (fun _ ->
    subscribe_handler
      ((||) subscribed (match m with
                        | MSubscribe (_, _) -> true
                        | _ -> false)) ms')

type lsq_req = { l_target : str; l_type : str; l_version : str;
                 l_ctx : set_req option }

(** val lsq_updates :
    rwpath list -> gpath option -> update option list -> str list -> str list
    outcome **)

let rec lsq_updates rw prefix us acc =
  match us with
  | [] -> Ok acc
  | u :: us' ->
    bind (do_update rw prefix u) (fun ps ->
      lsq_updates rw prefix us' (app acc ps))

(** val lsq_deletes :
    rwpath list -> gpath option -> gpath option list -> str list -> str list
    outcome **)

let rec lsq_deletes rw prefix ds acc =
  match ds with
  | [] -> Ok acc
  | d :: ds' ->
    bind (do_delete rw prefix d) (fun p ->
      lsq_deletes rw prefix ds' (app acc (p :: [])))

(** val lsq_merge : stored list -> str list -> str list -> stored list **)

let lsq_merge vals ups dels =
  let marked =
    map (fun v ->
      if existsb (eqb_str v.sv_path) dels
      then { sv_path = v.sv_path; sv_deleted = true; sv_val = v.sv_val }
      else v) vals
  in
  app (filter (fun v -> negb (existsb (eqb_str v.sv_path) ups)) marked)
    (map (fun p -> { sv_path = p; sv_deleted = false; sv_val =
      (mk_nval vt_string N0 [] None) }) ups)

(** val below_deleted : str list -> str -> bool **)

let below_deleted dels p =
  (||)
    ((&&) (negb (eqb_str p root))
      (existsb (fun d -> (||) (eqb_str d root) (eqb_str d [])) dels))
    (existsb (fun d ->
      (&&)
        ((&&) ((&&) (negb (eqb_str d [])) (negb (eqb_str d root)))
          (prefixb d p))
        (match skipn (length d) p with
         | [] -> false
         | c :: _ -> (||) (N.eqb c c_slash) (N.eqb c c_lbr))) dels)

(** val prune : stored list -> stored list **)

let prune vals =
  let dels = map (fun s -> s.sv_path) (filter (fun s -> s.sv_deleted) vals) in
  filter (fun v ->
    (&&) (negb v.sv_deleted) (negb (below_deleted dels v.sv_path))) vals

(** val build_tree_guard : stored list -> unit outcome **)

let build_tree_guard vals =
  forall_guard (fun v ->
    bind (tree_guard v.sv_path) (fun _ -> leaf_guard v.sv_val)) (prune vals)

(** val lsq_handler : env -> state -> lsq_req -> bool outcome **)

let lsq_handler e st r =
  match find_config st r.l_target r.l_type r.l_version with
  | Some c ->
    (match find_plugin e r.l_type r.l_version with
     | Some p ->
       bind
         (match r.l_ctx with
          | Some cx ->
            if Nat.ltb O
                 (add (add (length cx.s_update) (length cx.s_replace))
                   (length cx.s_delete))
            then bind (lsq_updates p.pl_rw cx.s_prefix cx.s_update [])
                   (fun ups ->
                   bind (lsq_updates p.pl_rw cx.s_prefix cx.s_replace ups)
                     (fun ups0 ->
                     bind (lsq_deletes p.pl_rw cx.s_prefix cx.s_delete [])
                       (fun dels ->
                       if forallb is_path_valid ups0
                       then Ok (lsq_merge c.cf_values ups0 dels)
                       else Err c_unknown)))
            else Ok c.cf_values
          | None -> Ok c.cf_values) (fun vals ->
         bind (build_tree_guard vals) (fun _ -> Ok false))
     | None -> Err c_invalid)
  | None -> Err c_notfound

(** val capabilities_handler : bool outcome **)

let capabilities_handler =
  Ok true

(** val list_models_handler : bool outcome **)

let list_models_handler =
  Ok true

(** val rollback_handler : n -> bool outcome **)

let rollback_handler _ =
  Ok false

(** val admin_store_handler : bool outcome **)

let admin_store_handler =
  Ok false

(** val elems_ok : gpath -> bool **)

let elems_ok p =
  forallb (fun o -> match o with
                    | Some _ -> true
                    | None -> false) p.p_elem

(** val opath_ok : gpath option -> bool **)

let opath_ok = function
| Some p0 -> elems_ok p0
| None -> true

(** val scalar_ok : scalar -> bool **)

let scalar_ok = function
| SDecimal d -> (match d with
                 | Some _ -> true
                 | None -> false)
| _ -> true

(** val tval_ok : tval -> bool **)

let tval_ok = function
| TScalar s -> scalar_ok s
| TJson _ -> true
| TLeaflist l ->
  forallb (fun o -> match o with
                    | Some s -> scalar_ok s
                    | None -> false) l

(** val update_ok : update option -> bool **)

let update_ok = function
| Some u0 ->
  (&&) (opath_ok u0.u_path)
    (match u0.u_val with
     | Some v -> tval_ok v
     | None -> true)
| None -> false

(** val ext_ok : extension -> bool **)

let ext_ok = function
| ERegistered r -> (match r with
                    | Some _ -> true
                    | None -> false)
| EOther -> true

(** val set_wire_ok : set_req -> bool **)

let set_wire_ok r =
  (&&)
    ((&&)
      ((&&)
        ((&&) ((&&) (opath_ok r.s_prefix) (forallb opath_ok r.s_delete))
          (forallb (fun d -> match d with
                             | Some _ -> true
                             | None -> false) r.s_delete))
        (forallb update_ok r.s_replace)) (forallb update_ok r.s_update))
    (forallb ext_ok r.s_ext)

(** val get_wire_ok : get_req -> bool **)

let get_wire_ok r =
  (&&)
    ((&&) ((&&) (opath_ok r.g_prefix) (forallb opath_ok r.g_path))
      (forallb (fun d -> match d with
                         | Some _ -> true
                         | None -> false) r.g_path)) (forallb ext_ok r.g_ext)

(** val lsq_wire_ok : lsq_req -> bool **)

let lsq_wire_ok r =
  match r.l_ctx with
  | Some cx -> set_wire_ok cx
  | None -> true

(** val stored_ok : stored -> bool **)

let stored_ok v =
  (||) v.sv_deleted
    ((&&) (negb (is_panic (tree_guard v.sv_path)))
      (negb (is_panic (leaf_guard v.sv_val))))

(** val state_ok : state -> bool **)

let state_ok st =
  forallb (fun c -> forallb stored_ok c.cf_values) st

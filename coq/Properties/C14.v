(* C14 - Only members of an admin group may change configuration.
   Statements only; proofs live in Proofs/RbacProofs.v. *)
From Coq Require Import List NArith Bool.
From OC Require Import Base.Bytes Model.Rbac Proofs.RbacProofs.
Import ListNotations.

(* Set with identity metadata proceeds iff some caller group is exactly an administrator group *)
Theorem C14_set_spec : forall admin m,
  has_identity m = true ->
  (set_gate admin m = true <->
   exists g, In g (split_on c_semi (md_groups m)) /\ g <> [] /\ In g (split_on c_comma admin)).
Proof. exact set_gate_identity. Qed.
Print Assumptions C14_set_spec.

Theorem C14_no_groups_refused : forall admin m,
  has_identity m = true -> md_groups m = [] -> set_gate admin m = false.
Proof. exact no_groups_refused. Qed.
Print Assumptions C14_no_groups_refused.

Theorem C14_resemblance_refused : forall admin groups,
  (forall g, In g (split_on c_semi groups) -> ~ In g (split_on c_comma admin)) ->
  temporary_evaluate admin groups = false.
Proof. exact resemblance_refused. Qed.
Print Assumptions C14_resemblance_refused.

Theorem C14_list_spec : forall oidc override groups targets t,
  In t (report_targets oidc override groups targets) <->
  In t targets /\ (oidc = true -> In t groups \/ In (roc_group override) groups).
Proof. exact report_targets_spec. Qed.
Print Assumptions C14_list_spec.

(* C04 - A connected device converges to the stored configuration.
   Statements only.  Model: Model/Proto2.v (the v2 transaction / proposal / configuration / mastership / connection
   reconcilers, one invocation = an ordered effect list, a step executes any PREFIX of it).  The theorems of the
   Section hold for EVERY pure layer (how values are merged, what is sent to the device: arguments of the model),
   all worlds, labels and oracles.  The device and the applied values of the configuration (aview = the Atomix map
   c_avalues overlaid on the values inlined in the entry) are compared through an abstraction given as two more
   arguments: abs_dev (what the device holds), abs_app (what an applied-values map stands for);
   agrees w t := the configuration of t exists and abs_dev (device of t) = abs_app (aview).
   The pure layer's own obligations are NAMED predicates of Proofs/P2_Converge.v, each in a pointwise form (X_at: at
   the values one invocation works on - what the run-time monitors check on every observed step of the real code and
   what the Examples of Proofs/P2_ConvergeEx.v establish on the executable instance) and a global form (X := for all
   values).  They appear as hypotheses of the theorems that need them, never as assumptions of the file:
     apply_sound_at, status_sound_at (restore_sound_at, restore_cut_sound_at, inline_sound_at), resync_sound_empty_at,
     resync_sound_same_at, apply_idem_at, resync_total, and commit_apply_agree (only named).

   How the theorems decide the property.
   (a) Frame.  C04_device_changes_only_by_ok_requests, C04_device_state_is_fold, C04_restart_empties: the device of a
       target changes only by LDevRestart or by the OK-answered requests among the executed effects of ONE reconcile
       invocation, and its state afterwards is the fold of dev_apply over exactly those requests, in order.
       C04_not_quiet_cases: such an invocation is the apply of a proposal of that target or the re-push of its
       configuration, with every guard of the code passed (sent_by_apply / sent_by_resync of Proofs/P2_Cursor.v).
   (b) Everything else is quiet.  C04_quiet_invocation / C04_status_updates_keep_agreement: an invocation of ANY
       controller (transaction, configuration when it does not re-push, mastership, connection, proposal
       initialize / validate / commit / abort / refused or transient apply / passing a failed proposal) cut after ANY
       prefix leaves the device untouched and keeps what the applied values stand for - the commit writes the COMMITTED
       map and copies the loaded applied values into the entry (inline_sound_at), a status update stores the loaded
       applied values again (restore_sound_at; restore_cut_sound_at for the cut between map and entry write).
       C04_refused_or_transient_keeps_agreement: whatever the device answers but OK, any controller, any prefix.
       C04_applied_values_change_only: the applied map is only ever written with the loaded applied values again or
       with record_applied of an OK-answered apply: "restricted to the transactions whose apply did not fail".
   (c) C04_apply_keeps_agreement_partial: a complete apply answered OK (the entry write reached, k >= 3) keeps the
       agreement and moves Applied.Index to the proposal.  C04_resync_establishes_agreement_partial: a complete re-push
       answered OK, from an empty device (after a restart) or an agreeing one (connection replaced), establishes the
       agreement with state SYNCHRONIZED and applied term = term; C04_nothing_new_before_resync (every reachable
       world: a proposal change is sent only outside SYNCHRONIZING with applied term = term, a re-push only in
       SYNCHRONIZING) and C04_unsynced_no_apply: in a new term nothing is sent for any proposal before the re-push has
       completed - this is the one entry for "reachable when the change was made" and "connected later" (the guard of
       reconcileApply is the only way to the device).  C04_restart_empties, C04_quiet_keeps_device,
       C04_restart_breaks_only_until_resync: the restart empties the device; while nothing is answered OK it stays
       empty; once the configuration is in a new term (connection replaced: C10_new_term_after_reassign) the world is
       in the domain of the run theorem.
   (d) C04_converged_inv / C04_converged_partial: along ANY run made of environment labels and COMPLETE reconcile
       invocations (crun; the pure-layer obligations hold at the values of each step: pure_ok, implied by the global
       forms through C04_pure_ok_global), started in a reachable world where the device agrees or is empty with the
       configuration not synchronised in its current term (conv), every world whose configuration is SYNCHRONIZED
       with applied term = term satisfies agrees - no restart of that device and no switch of the target to
       "persistent" inside the run (a persistent target is never re-pushed: stated behaviour).  No premise on
       transactions in flight is needed: between two complete invocations the agreement holds even then.
   Instance (Model/P2Pure.v): C04_lagging_delete_converges, C04_overlap_apply_refuted, C04_resync_order_nonwf_refuted
   below the Section.  C04_lagging_delete_converges is the scenario of finding F-23 (repaired in /repo, commit 13d170a):
   /a/b = 1 applied; device unreachable; "delete /a" and "/a/c = 3" committed; device back, both applied; connection
   replaced once more.  Before the repair the recording loop of reconcileApply, visiting the tombstone of /a before the
   cascaded tombstone of /a/c, removed the former again (applyChangeToConfig dropped the deleted ancestors of EVERY
   value it set, tombstones included): /a/b stayed live in Applied.Values although the device had deleted it, and the
   next re-push put it back on the device.  Now, in every Go map order of the loops: all transactions APPLIED,
   configuration SYNCHRONIZED, device = applied values = committed configuration, before and after the last re-push.

   What remains partial.
   (1) Invocations cut between the device request and the entry write leave the device AHEAD of the record (complete
       = k >= 3 for the apply, the whole list for the re-push).  C04_cut_apply_retry_partial covers the cut right after
       the request: the retry re-sends the same request and restores the agreement under apply_idem_at.  The cut
       after the applied-map write (k = 2) needs in addition that recording the same change twice stands for the same
       (an idempotence obligation on record_applied, not stated); a re-push cut in the middle needs the re-push to be
       restartable (resync from a prefix-pushed device), not stated.  On the instance a cut at k = 2 can leave a live
       value inlined in the entry beneath a tombstone of the map; a re-push in that state depends on the (Go map)
       order of its groups (C04_resync_order_nonwf_refuted) until the retried apply repairs it - a transaction is then
       still in flight, which the property text excludes.
   (2) The pure-layer obligations are hypotheses.  For the instance they are evaluated by vm_compute on concrete
       values (Proofs/P2_ConvergeEx.v: cascading delete, update with inlined values, re-creation beneath an applied
       tombstone, delete with a lagging committed view, status updates with tombstones, re-push in both group orders,
       idempotence; the apply examples in every Go map order of the recording) and on the worlds of a reachable
       scenario; no general proof over P2Pure.v (sorting / pruning lemmas missing).  They FAILED for a delete applied
       with a lagging committed view in one of the two orders of the recording (finding F-23, repaired; now
       C04_lagging_delete_converges and apply_sound_lagging_delete in every order) and they FAIL for a change that
       deletes a path and updates a leaf beneath it (C04_overlap_apply_refuted, device-side facet of the open finding
       F-14-C03).
   (3) "restricted to the transactions whose apply did not fail" is C04_applied_values_change_only (protocol level);
       that a refused change leaves no trace in the values is restore_sound_at.
   (4) "the stored configuration" of the text is the COMMITTED one; the theorems compare the device with the APPLIED
       values.  That both stand for the same at quiescence (Applied.Index = Committed.Index, no failed apply) is
       the named predicate commit_apply_agree (commit_merge versus record_applied), proved nowhere.
   (5) Nothing applied yet (Applied.Index = 0): the configuration reconciler reports SYNCHRONIZED without a re-push;
       conv carries "Applied.Index = 0 -> the applied values stand for the empty device" as part of the start
       condition (preserved by the run theorem). *)
From stdpp Require Import gmap.
From RecordUpdate Require Import RecordUpdate.
From Coq Require Import NArith.
From OC Require Import Base.Bytes Model.P2Pure Model.Proto2 Proofs.P2Base Proofs.P2_Cursor Proofs.P2_Term Proofs.P2_Converge
     Proofs.P2_ConvergeEx.
Open Scope N_scope.

Section C04.
  Context {V Ch Req D : Type}.
  Context (candidate : V -> Ch -> V) (candidate_rb : V -> Ch -> V) (rollback_of : V -> Ch -> Ch)
          (overlay : V -> V -> V) (commit_merge : N -> N -> V -> V -> Ch -> V)
          (payload : N -> V -> Ch -> option Req) (record_applied : N -> N -> V -> V -> V -> Ch -> V)
          (touched : N -> V -> Ch -> V) (restore : V -> V -> V)
          (resync_payload : V -> list (option Req)) (doc_ok : V -> bool)
          (dev_apply : D -> Req -> D) (stamp : N -> Ch -> Ch) (v_empty : V) (d_empty : D) (ch_empty : Ch).
  Context {A : Type} (abs_dev : D -> A) (abs_app : V -> A).
  Notation world := (@world V Ch Req D).
  Notation config := (@config V).
  Notation prop := (@prop Ch).
  Notation label := (@label Ch).
  Notation reach := (@reach V Ch Req D candidate candidate_rb rollback_of overlay commit_merge payload record_applied
                            touched restore resync_payload doc_ok dev_apply stamp v_empty d_empty ch_empty).
  Notation step := (@step V Ch Req D candidate candidate_rb rollback_of overlay commit_merge payload record_applied
                          touched restore resync_payload doc_ok dev_apply stamp v_empty d_empty ch_empty).
  Notation reconcile := (@reconcile V Ch Req D candidate candidate_rb rollback_of overlay commit_merge payload record_applied
                                    touched restore resync_payload doc_ok stamp v_empty d_empty ch_empty).
  Notation rec_prop := (@rec_prop V Ch Req D candidate candidate_rb rollback_of overlay commit_merge payload record_applied
                                  touched restore doc_ok v_empty d_empty ch_empty).
  Notation view := (@view V overlay).
  Notation aview := (@aview V overlay).
  Notation dev_answer := (@dev_answer V Ch Req D d_empty).
  Notation rb_change := (@rb_change Ch ch_empty).
  Notation dstate_of := (@dstate_of V Ch Req D d_empty).
  Notation ok_reqs := (@ok_reqs V Ch Req).
  Notation agrees := (@agrees V Ch Req D overlay d_empty A abs_dev abs_app).
  Notation conv := (@conv V Ch Req D overlay d_empty A abs_dev abs_app).
  Notation sent_by_apply := (@sent_by_apply V Ch Req D overlay payload d_empty ch_empty).
  Notation sent_by_resync := (@sent_by_resync V Ch Req D overlay resync_payload d_empty).
  Notation apply_sound_at := (apply_sound_at overlay payload record_applied dev_apply v_empty abs_dev abs_app).
  Notation status_sound_at := (status_sound_at overlay restore v_empty abs_app).
  Notation restore_sound_at := (restore_sound_at overlay restore v_empty abs_app).
  Notation resync_sound_empty_at := (resync_sound_empty_at resync_payload dev_apply d_empty abs_dev abs_app).
  Notation resync_sound_same_at := (resync_sound_same_at resync_payload dev_apply abs_dev abs_app).
  Notation apply_idem_at := (apply_idem_at dev_apply abs_dev).
  Notation loaded := (loaded overlay v_empty).
  Notation crun := (crun candidate candidate_rb rollback_of overlay commit_merge payload record_applied touched restore
                         resync_payload doc_ok dev_apply stamp v_empty d_empty ch_empty abs_dev abs_app).
  Notation pure_ok := (pure_ok overlay payload record_applied restore resync_payload dev_apply v_empty d_empty ch_empty abs_dev abs_app).
  Notation avalues_written := (avalues_written overlay record_applied restore d_empty ch_empty).

  (** (a) frame *)
  Theorem C04_device_changes_only_by_ok_requests : forall (w : world) (l : label) t,
    devs (step w l) !! t <> devs w !! t ->
    l = LDevRestart t \/ exists c k o, l = LRec c k o /\ ok_reqs t (firstn k (fst (reconcile o w c))) <> [].
  Proof. exact (device_changes_only_by_ok_requests candidate candidate_rb rollback_of overlay commit_merge payload record_applied
                  touched restore resync_payload doc_ok dev_apply stamp v_empty d_empty ch_empty). Qed.

  Theorem C04_device_state_is_fold : forall (w : world) c k o t,
    dstate_of (step w (LRec c k o)) t = fold_left dev_apply (ok_reqs t (firstn k (fst (reconcile o w c)))) (dstate_of w t).
  Proof. exact (device_state_after_invocation candidate candidate_rb rollback_of overlay commit_merge payload record_applied
                  touched restore resync_payload doc_ok dev_apply stamp v_empty d_empty ch_empty). Qed.

  Theorem C04_restart_empties : forall (w : world) t, dstate_of (step w (LDevRestart t)) t = d_empty.
  Proof. exact (restart_empties candidate candidate_rb rollback_of overlay commit_merge payload record_applied
                  touched restore resync_payload doc_ok dev_apply stamp v_empty d_empty ch_empty). Qed.

  Theorem C04_not_quiet_cases : forall (o : oracle) (w : world) c t,
    ok_reqs t (fst (reconcile o w c)) <> [] ->
    (exists i m term r, c = CtlProp (t, i) /\ sent_by_apply w o t i m term r COk) \/
    (exists m term r, c = CtlCfg t /\ sent_by_resync w o t m term r COk).
  Proof. exact (not_quiet_cases candidate candidate_rb rollback_of overlay commit_merge payload record_applied
                  touched restore resync_payload doc_ok stamp v_empty d_empty ch_empty). Qed.

  (** (b) quiet invocations, every prefix *)
  Theorem C04_quiet_invocation : forall (w : world) c k o t (C : config),
    status_sound_at (pair_of C) -> cfgs w !! t = Some C -> ok_reqs t (fst (reconcile o w c)) = [] ->
    devs (step w (LRec c k o)) !! t = devs w !! t /\
    exists C', cfgs (step w (LRec c k o)) !! t = Some C' /\ abs_app (aview C') = abs_app (aview C).
  Proof. exact (quiet_invocation candidate candidate_rb rollback_of overlay commit_merge payload record_applied
                  touched restore resync_payload doc_ok dev_apply stamp v_empty d_empty ch_empty abs_app). Qed.

  Theorem C04_status_updates_keep_agreement : forall (w : world) c k o t,
    (forall C, cfgs w !! t = Some C -> status_sound_at (pair_of C)) ->
    ok_reqs t (fst (reconcile o w c)) = [] -> agrees w t -> agrees (step w (LRec c k o)) t.
  Proof. exact (quiet_keeps_agreement candidate candidate_rb rollback_of overlay commit_merge payload record_applied
                  touched restore resync_payload doc_ok dev_apply stamp v_empty d_empty ch_empty abs_dev abs_app). Qed.

  Theorem C04_refused_or_transient_keeps_agreement : forall (w : world) c k o t,
    (forall C, cfgs w !! t = Some C -> status_sound_at (pair_of C)) ->
    (forall C, cfgs w !! t = Some C -> dev_answer w t (c_term C) o <> COk) ->
    agrees w t ->
    agrees (step w (LRec c k o)) t /\ devs (step w (LRec c k o)) !! t = devs w !! t.
  Proof. exact (refused_keeps_agreement candidate candidate_rb rollback_of overlay commit_merge payload record_applied
                  touched restore resync_payload doc_ok dev_apply stamp v_empty d_empty ch_empty abs_dev abs_app). Qed.

  Theorem C04_applied_values_change_only : forall (w : world) (l : label) t (C C' : config),
    cfgs w !! t = Some C -> cfgs (step w l) !! t = Some C' -> c_avalues C' <> c_avalues C ->
    exists c k o, l = LRec c k o /\ avalues_written o w c t C (c_avalues C').
  Proof. exact (avalues_change_only candidate candidate_rb rollback_of overlay commit_merge payload record_applied
                  touched restore resync_payload doc_ok dev_apply stamp v_empty d_empty ch_empty abs_dev abs_app). Qed.

  (** (c) apply, re-push, restart *)
  Theorem C04_apply_keeps_agreement_partial : forall (o : oracle) (w : world) t i m term r (k : nat),
    (forall (C : config) (P : prop), cfgs w !! t = Some C -> props w !! (t, i) = Some P ->
       apply_sound_at (o_order o) i (c_ainline C) (c_avalues C) (view C) (rb_change P) r (dstate_of w t)) ->
    sent_by_apply w o t i m term r COk -> (3 <= k)%nat -> agrees w t ->
    let w' := step w (LRec (CtlProp (t, i)) k o) in
    agrees w' t /\ dstate_of w' t = dev_apply (dstate_of w t) r /\
    exists (C : config) (P : prop) (C' : config), cfgs w !! t = Some C /\ props w !! (t, i) = Some P /\
      cfgs w' !! t = Some C' /\ c_applied C' = i /\ c_applied C < i /\
      aview C' = loaded (record_applied (o_order o) i (c_avalues C) (aview C) (view C) (rb_change P)) /\
      c_state C' = c_state C /\ c_aterm C' = c_aterm C /\ c_term C' = c_term C.
  Proof. exact (apply_keeps_agreement candidate candidate_rb rollback_of overlay commit_merge payload record_applied
                  touched restore resync_payload doc_ok dev_apply stamp v_empty d_empty ch_empty abs_dev abs_app). Qed.

  Theorem C04_cut_apply_retry_partial : forall (o o' : oracle) (w : world) t i m term r (k' : nat),
    (forall (C : config) (P : prop), cfgs w !! t = Some C -> props w !! (t, i) = Some P ->
       apply_sound_at (o_order o') i (c_ainline C) (c_avalues C) (view C) (rb_change P) r (dstate_of w t)) ->
    apply_idem_at (dstate_of w t) r -> agrees w t -> sent_by_apply w o t i m term r COk ->
    let w1 := step w (LRec (CtlProp (t, i)) 1 o) in
    dstate_of w1 t = dev_apply (dstate_of w t) r /\ cfgs w1 = cfgs w /\
    (dev_answer w1 t term o' = COk -> (3 <= k')%nat ->
     sent_by_apply w1 o' t i m term r COk /\ agrees (step w1 (LRec (CtlProp (t, i)) k' o')) t).
  Proof. exact (cut_apply_retry candidate candidate_rb rollback_of overlay commit_merge payload record_applied
                  touched restore resync_payload doc_ok dev_apply stamp v_empty d_empty ch_empty abs_dev abs_app). Qed.

  Theorem C04_resync_establishes_agreement_partial :
    forall (o : oracle) (w : world) t m term r (rs : list Req) (k : nat) (C : config),
    restore_sound_at (c_ainline C) (c_avalues C) -> sent_by_resync w o t m term r COk -> cfgs w !! t = Some C ->
    resync_payload (aview C) = map Some rs -> (length rs + 2 <= k)%nat ->
    (resync_sound_empty_at (aview C) rs /\ dstate_of w t = d_empty) \/
    (resync_sound_same_at (aview C) rs (dstate_of w t) /\ agrees w t) ->
    let w' := step w (LRec (CtlCfg t) k o) in
    agrees w' t /\ dstate_of w' t = fold_left dev_apply rs (dstate_of w t) /\
    exists C', cfgs w' !! t = Some C' /\ c_state C' = CSynchronized /\ c_aterm C' = c_term C' /\ c_term C' = c_term C /\
               c_applied C' = c_applied C /\ c_applied C <> 0 /\ abs_app (aview C') = abs_app (aview C).
  Proof. exact (resync_establishes_agreement candidate candidate_rb rollback_of overlay commit_merge payload record_applied
                  touched restore resync_payload doc_ok dev_apply stamp v_empty d_empty ch_empty abs_dev abs_app). Qed.

  Theorem C04_nothing_new_before_resync : forall (w : world) (l : label) evs t m term og r a,
    reach w -> devlog (step w l) = devlog w ++ evs -> In (DevSet t m term og r a) evs ->
    exists C, cfgs w !! t = Some C /\
      match og with
      | Some i => c_state C <> CSynchronizing /\ c_aterm C = c_term C /\ exists k o, l = LRec (CtlProp (t, i)) k o
      | None => c_state C = CSynchronizing /\ exists k o, l = LRec (CtlCfg t) k o
      end.
  Proof. exact (no_change_before_resync candidate candidate_rb rollback_of overlay commit_merge payload record_applied
                  touched restore resync_payload doc_ok dev_apply stamp v_empty d_empty ch_empty). Qed.

  Theorem C04_unsynced_no_apply : forall (o : oracle) (w : world) k t (C : config),
    cfgs w !! t = Some C -> unsynced C -> ok_reqs t (fst (rec_prop o w k)) = [].
  Proof. exact (unsynced_no_apply candidate candidate_rb rollback_of overlay commit_merge payload record_applied
                  touched restore resync_payload doc_ok stamp v_empty d_empty ch_empty). Qed.

  Theorem C04_quiet_keeps_device : forall (w : world) c k o t,
    ok_reqs t (fst (reconcile o w c)) = [] -> dstate_of (step w (LRec c k o)) t = dstate_of w t.
  Proof. exact (quiet_keeps_device candidate candidate_rb rollback_of overlay commit_merge payload record_applied
                  touched restore resync_payload doc_ok dev_apply stamp v_empty d_empty ch_empty). Qed.

  Theorem C04_restart_breaks_only_until_resync : forall (w : world) t (C : config),
    cfgs w !! t = Some C -> targets w !! t <> Some true -> (c_applied C = 0 -> abs_app (aview C) = abs_dev d_empty) ->
    unsynced C -> conv (step w (LDevRestart t)) t.
  Proof. exact (restart_then_resync candidate candidate_rb rollback_of overlay commit_merge payload record_applied
                  touched restore resync_payload doc_ok dev_apply stamp v_empty d_empty ch_empty abs_dev abs_app). Qed.

  (** (d) runs of complete invocations *)
  Theorem C04_pure_ok_global : forall (w : world) t (l : label),
    status_sound overlay restore v_empty abs_app -> apply_sound overlay payload record_applied dev_apply v_empty abs_dev abs_app ->
    resync_sound_empty resync_payload dev_apply d_empty abs_dev abs_app -> resync_sound_same resync_payload dev_apply abs_dev abs_app ->
    resync_total resync_payload -> pure_ok w t l.
  Proof. exact (pure_ok_global overlay payload record_applied restore resync_payload dev_apply v_empty d_empty ch_empty abs_dev abs_app). Qed.

  Theorem C04_converged_inv : forall (w w' : world) t, reach w -> conv w t -> crun t w w' -> reach w' /\ conv w' t.
  Proof. exact (converged candidate candidate_rb rollback_of overlay commit_merge payload record_applied
                  touched restore resync_payload doc_ok dev_apply stamp v_empty d_empty ch_empty abs_dev abs_app). Qed.

  Theorem C04_converged_partial : forall (w w' : world) t (C' : config),
    reach w -> conv w t -> crun t w w' ->
    cfgs w' !! t = Some C' -> c_state C' = CSynchronized -> c_aterm C' = c_term C' -> agrees w' t.
  Proof. exact (converged_synchronized candidate candidate_rb rollback_of overlay commit_merge payload record_applied
                  touched restore resync_payload doc_ok dev_apply stamp v_empty d_empty ch_empty abs_dev abs_app). Qed.
End C04.

(** the executable instance: where the obligations fail *)
Theorem C04_lagging_delete_converges :
  Forall (fun ord =>
    lag_summary (x_run (l_lag_b (x_oracle_ord ord))) =
      ([(1, TApplied); (3, TApplied); (2, TApplied)],
       [(3, 3, CSynchronized, 2, 2, [(B "/a/c", B "3")], [(B "/a/c", B "3")])], [[(B "/a/c", B "3")]]) /\
    @agrees cmap cmap req dstate overlay nil _ abs_dev_i abs_app_i (x_run (l_lag_b (x_oracle_ord ord))) 1 /\
    lag_summary (x_run (l_lag_c (x_oracle_ord ord))) =
      ([(1, TApplied); (3, TApplied); (2, TApplied)],
       [(3, 3, CSynchronized, 3, 3, [(B "/a/c", B "3")], [(B "/a/c", B "3")])], [[(B "/a/c", B "3")]]) /\
    @agrees cmap cmap req dstate overlay nil _ abs_dev_i abs_app_i (x_run (l_lag_c (x_oracle_ord ord))) 1) ords6.
Proof. exact lagging_delete_converges. Qed.

Theorem C04_overlap_apply_refuted :
  wf_change ch_overlap = false /\
  payload 2 [] ch_overlap = Some (mkReq [B "/a"] []) /\ payload 2 [] (rev ch_overlap) = Some (mkReq [B "/a"] []) /\
  abs_dev_i [] = abs_app_i (overlay [] []) /\
  abs_dev_i (dev_apply [] (mkReq [B "/a"] [])) = [] /\
  map (fun ord => abs_app_i (loaded overlay nil (record_applied ord 2 [] (overlay [] []) [] ch_overlap))) [0; 1; 2; 3] =
    [[(B "/a/b", B "1")]; []; []; [(B "/a/b", B "1")]] /\
  ~ apply_sound_at overlay payload record_applied dev_apply nil abs_dev_i abs_app_i 0 2 [] [] [] ch_overlap (mkReq [B "/a"] []) [].
Proof. exact apply_sound_overlap_refuted. Qed.

Theorem C04_resync_order_nonwf_refuted : exists r1 r2,
  resync_payload va_nonwf = [Some r1; Some r2] /\ wf_applied va_nonwf = false /\ abs_app_i va_nonwf = [] /\
  abs_dev_i (fold_left dev_apply [r1; r2] []) = [] /\
  abs_dev_i (fold_left dev_apply [r2; r1] []) = [(B "/a/b", B "1")].
Proof. exact resync_order_matters_nonwf. Qed.

Print Assumptions C04_device_changes_only_by_ok_requests.
Print Assumptions C04_device_state_is_fold.
Print Assumptions C04_restart_empties.
Print Assumptions C04_not_quiet_cases.
Print Assumptions C04_quiet_invocation.
Print Assumptions C04_status_updates_keep_agreement.
Print Assumptions C04_refused_or_transient_keeps_agreement.
Print Assumptions C04_applied_values_change_only.
Print Assumptions C04_apply_keeps_agreement_partial.
Print Assumptions C04_cut_apply_retry_partial.
Print Assumptions C04_resync_establishes_agreement_partial.
Print Assumptions C04_nothing_new_before_resync.
Print Assumptions C04_unsynced_no_apply.
Print Assumptions C04_quiet_keeps_device.
Print Assumptions C04_restart_breaks_only_until_resync.
Print Assumptions C04_pure_ok_global.
Print Assumptions C04_converged_inv.
Print Assumptions C04_converged_partial.
Print Assumptions C04_lagging_delete_converges.
Print Assumptions C04_overlap_apply_refuted.
Print Assumptions C04_resync_order_nonwf_refuted.

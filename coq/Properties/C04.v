(* C04 - A connected device converges to the stored configuration.
   Statements only.  Model: Model/Proto2.v (the v2 transaction / proposal / configuration / mastership / connection
   reconcilers, one invocation = an ordered effect list, a step executes any PREFIX of it).  The theorems of the
   Section hold for EVERY pure layer (how values are merged, what is sent to the device: arguments of the model),
   all worlds, labels and oracles.  The device and the applied values of the configuration (aview = the Atomix map
   c_avalues overlaid on the values inlined in the entry) are compared through an abstraction given as two more
   arguments: abs_dev (what the device holds), abs_app (what an applied-values map stands for);
   agrees w t := the configuration of t exists and abs_dev (device of t) = abs_app (aview).
   The pure layer's own obligations are NAMED predicates of Proofs/P2_Converge.v, each in a pointwise form (X_at: at
   the values one invocation works on - what the run-time monitors check on every observed step of the real code and
   what the Examples of Proofs/P2_ConvergeEx.v establish on the executable instance) and a global form (X := for all
   values).  They appear as hypotheses of the theorems that need them, never as assumptions of the file:
     apply_sound_at, status_sound_at (restore_sound_at, restore_cut_sound_at, inline_sound_at), resync_sound_empty_at,
     resync_sound_same_at, apply_idem_at, resync_total, and commit_apply_agree (only named).

   How the theorems decide the property.
   (a) Frame.  C04_device_changes_only_by_ok_requests, C04_device_state_is_fold, C04_restart_empties: the device of a
       target changes only by LDevRestart or by the OK-answered requests among the executed effects of ONE reconcile
       invocation, and its state afterwards is the fold of dev_apply over exactly those requests, in order.
       C04_not_quiet_cases: such an invocation is the apply of a proposal of that target or the re-push of its
       configuration, with every guard of the code passed (sent_by_apply / sent_by_resync of Proofs/P2_Cursor.v).
   (b) Everything else is quiet.  C04_quiet_invocation / C04_status_updates_keep_agreement: an invocation of ANY
       controller (transaction, configuration when it does not re-push, mastership, connection, proposal
       initialize / validate / commit / abort / refused or transient apply / passing a failed proposal) cut after ANY
       prefix leaves the device untouched and keeps what the applied values stand for - the commit writes the COMMITTED
       map and copies the loaded applied values into the entry (inline_sound_at), a status update stores the loaded
       applied values again (restore_sound_at; restore_cut_sound_at for the cut between map and entry write).
       C04_refused_or_transient_keeps_agreement: whatever the device answers but OK, any controller, any prefix.
       C04_applied_values_change_only: the applied map is only ever written with the loaded applied values again or
       with record_applied of an OK-answered apply: "restricted to the transactions whose apply did not fail".
   (c) C04_apply_keeps_agreement_partial: a complete apply answered OK (the entry write reached, k >= 3) keeps the
       agreement and moves Applied.Index to the proposal.  C04_resync_establishes_agreement_partial: a complete re-push
       answered OK, from an empty device (after a restart) or an agreeing one (connection replaced), establishes the
       agreement with state SYNCHRONIZED and applied term = term; C04_nothing_new_before_resync (every reachable
       world: a proposal change is sent only outside SYNCHRONIZING with applied term = term, a re-push only in
       SYNCHRONIZING) and C04_unsynced_no_apply: in a new term nothing is sent for any proposal before the re-push has
       completed - this is the one entry for "reachable when the change was made" and "connected later" (the guard of
       reconcileApply is the only way to the device).  C04_restart_empties, C04_quiet_keeps_device,
       C04_restart_breaks_only_until_resync: the restart empties the device; while nothing is answered OK it stays
       empty; once the configuration is in a new term (connection replaced: C10_new_term_after_reassign) the world is
       in the domain of the run theorem.
   (d) C04_converged_inv / C04_converged_partial: along ANY run made of environment labels and COMPLETE reconcile
       invocations (crun; the pure-layer obligations hold at the values of each step: pure_ok, implied by the global
       forms through C04_pure_ok_global), started in a reachable world where the device agrees or is empty with the
       configuration not synchronised in its current term (conv), every world whose configuration is SYNCHRONIZED
       with applied term = term satisfies agrees - no restart of that device and no switch of the target to
       "persistent" inside the run (a persistent target is never re-pushed: stated behaviour).  No premise on
       transactions in flight is needed: between two complete invocations the agreement holds even then.
   Instance (Model/P2Pure.v): C04_lagging_delete_converges, C04_overlap_apply_refuted, C04_resync_order_nonwf_refuted
   and the C04_*_P2Pure theorems (the instance meets the obligations for all well-formed values, see (2)) below the Section.  C04_lagging_delete_converges is the scenario of finding F-23 (repaired in /repo, commit 13d170a):
   /a/b = 1 applied; device unreachable; "delete /a" and "/a/c = 3" committed; device back, both applied; connection
   replaced once more.  Before the repair the recording loop of reconcileApply, visiting the tombstone of /a before the
   cascaded tombstone of /a/c, removed the former again (applyChangeToConfig dropped the deleted ancestors of EVERY
   value it set, tombstones included): /a/b stayed live in Applied.Values although the device had deleted it, and the
   next re-push put it back on the device.  Now, in every Go map order of the loops: all transactions APPLIED,
   configuration SYNCHRONIZED, device = applied values = committed configuration, before and after the last re-push.

   What remains partial.
   (1) Invocations cut between the device request and the entry write leave the device AHEAD of the record (complete
       = k >= 3 for the apply, the whole list for the re-push).  C04_cut_apply_retry_partial covers the cut right after
       the request: the retry re-sends the same request and restores the agreement under apply_idem_at.  The cut
       after the applied-map write (k = 2) needs in addition that recording the same change twice stands for the same
       (an idempotence obligation on record_applied, not stated); a re-push cut in the middle needs the re-push to be
       restartable (resync from a prefix-pushed device), not stated.  On the instance a cut at k = 2 can leave a live
       value inlined in the entry beneath a tombstone of the map; a re-push in that state depends on the (Go map)
       order of its groups (C04_resync_order_nonwf_refuted) until the retried apply repairs it - a transaction is then
       still in flight, which the property text excludes.
   (2) The pure-layer obligations are premises of the theorems of the Section.  For the executable instance
       (Model/P2Pure.v; abs_dev = sorted device leaves, abs_app = live leaves) they are now PROVED for all values
       (Proofs/P2PureApply{Defs,Base,Sem,Sound,Status,Resync,Inst,Ex}.v) under boolean well-formedness predicates:
         C04_apply_sound_P2Pure        apply_sound_at, every Go map order, every committed view, every device, if
                                       wf_apply inl m ch := wf_pair inl m && wf_change ch && idx_compat m ch
                                       (keys unique / key = path / paths proper in inl, m, ch; no LIVE value beneath a
                                       tombstone in overlay inl m nor in ch - a delete beneath a delete is fine, this is
                                       what a rollback of a re-creation looks like; a stored value and a change value of the
                                       same path and index say the same, because store() skips equal indexes);
         C04_status_sound_P2Pure       restore_sound_at, restore_cut_sound_at, inline_sound_at under wfk inl && wfk m only;
         C04_apply_idem_P2Pure         unconditional (equality of the device lists);
         C04_resync_sound_{empty,same}_P2Pure   under wfk va && no_live_below va; C04_resync_total_P2Pure;
         C04_wf_initial_P2Pure, C04_record_applied_wf_P2Pure, C04_restore_wf_P2Pure, C04_inline_wf_P2Pure: the predicates hold
                                       initially and for what an OK apply / a status update / the commit's inlining leave
                                       behind (store() even leaves NO entry beneath a tombstone);
         C04_apply_keeps_agreement_P2Pure, C04_cut_apply_retry_P2Pure, C04_resync_establishes_agreement_P2Pure,
         C04_pure_ok_P2Pure            the protocol theorems with the instance plugged in: no obligation premise left, only the
                                       well-formedness of the values of the step (wf_apply_at / wf_step);
         C04_converged_P2Pure_partial  the run theorem over crun_wf (wf_step at every step as a premise); superseded by
         C04_reach_wf_P2Pure / C04_converged_P2Pure / C04_converged_reach_P2Pure: wf_step is an INVARIANT of every world
                                       reached from the initial world by labels satisfying the boolean labels_wfb (each
                                       northbound change a wf_change; no updated path of the run beneath another updated path
                                       of the same target - values live at leaves) and complete invocations; hence the run
                                       theorem for the instance with NO obligation premise, NO per-step premise and NO start
                                       condition: whenever the configuration of t is SYNCHRONIZED in its current term the
                                       device holds the live leaves of the applied values (device of t not restarted, t not
                                       persistent, as in C04_converged_partial).  The invariant (Proofs/P2PureReachInv.v):
                                       every stored / inlined map has unique proper keys and holds only values carried
                                       verbatim from the stamped change of an existing proposal, or tombstones whose index is
                                       0 or that of a proposal not updating that path - so equal path and index mean equal
                                       content (idx_compat for every proposal); every recorded rollback value set is a
                                       well-formed change (rollback_of specification of Proofs/P2PureRollbackRb.v + leaves);
                                       after every complete invocation no live value lies beneath a tombstone in the stored
                                       committed map, in the loaded view, in the loaded applied values.  Not covered: cut
                                       invocations (C04_restore_cut_wf_refuted is where the pair leaves the domain);
         C04_leaf_hypothesis_needed    the leaf part of labels_wfb cannot be dropped: two well-formed requests and a rollback
                                       end APPLIED / SYNCHRONIZED with the device not holding the applied values (the rollback
                                       values are "delete /a/b + update /a/b/c": the F-14 overlap made by the controller);
         C04_good_run_P2Pure           all premises decided (run_premises) on a non-trivial run in several Go map orders;
         C04_wf_runs_P2Pure            crun_wf is checked step by step (run_ok, sound) on the F-23 scenario in every order and
                                       on a run with cascade, re-creation beneath tombstones, rollback, new term.
       Each hypothesis is needed: C04_overlap_apply_refuted (delete + update of related paths in one change: device-side
       facet of the open finding F-14-C03), C04_apply_sound_live_below_refuted, C04_apply_sound_same_index_refuted,
       C04_resync_live_below_refuted, C04_resync_order_nonwf_refuted.  The obligations FAILED before the repair of F-23 for a
       delete applied with a lagging committed view (now covered by the general theorem: nothing is asked of the view).
   (3) "restricted to the transactions whose apply did not fail" is C04_applied_values_change_only (protocol level);
       that a refused change leaves no trace in the values is restore_sound_at.
   (4) "the stored configuration" of the text is the COMMITTED one; the theorems compare the device with the APPLIED
       values.  That both stand for the same at quiescence (Applied.Index = Committed.Index, no failed apply) is
       the named predicate commit_apply_agree (commit_merge versus record_applied), proved nowhere.
   (5) Nothing applied yet (Applied.Index = 0): the configuration reconciler reports SYNCHRONIZED without a re-push;
       conv carries "Applied.Index = 0 -> the applied values stand for the empty device" as part of the start
       condition (preserved by the run theorem). *)
From stdpp Require Import gmap.
From RecordUpdate Require Import RecordUpdate.
From Coq Require Import NArith.
From OC Require Import Proofs.P2PureApplyDefs Proofs.P2PureApplyInst Proofs.P2PureApplyEx Proofs.P2PureReachRun Proofs.P2PureReachLabels
     Proofs.P2PureReachInit Proofs.P2PureReachEx.
From OC Require Import Base.Bytes Model.P2Pure Model.Proto2 Model.P2Inst Proofs.P2Base Proofs.P2_Cursor Proofs.P2_Term Proofs.P2_Converge
     Proofs.P2_ConvergeEx.
Open Scope N_scope.

Section C04.
  Context {V Ch Req D : Type}.
  Context (candidate : V -> Ch -> V) (candidate_rb : V -> Ch -> V) (rollback_of : V -> Ch -> Ch)
          (overlay : V -> V -> V) (commit_merge : N -> N -> V -> V -> Ch -> V)
          (payload : N -> V -> Ch -> option Req) (record_applied : N -> N -> V -> V -> V -> Ch -> V)
          (touched : N -> V -> Ch -> V) (restore : V -> V -> V)
          (resync_payload : V -> list (option Req)) (doc_ok : V -> bool)
          (dev_apply : D -> Req -> D) (stamp : N -> Ch -> Ch) (v_empty : V) (d_empty : D) (ch_empty : Ch).
  Context {A : Type} (abs_dev : D -> A) (abs_app : V -> A).
  Notation world := (@world V Ch Req D).
  Notation config := (@config V).
  Notation prop := (@prop Ch).
  Notation label := (@label Ch).
  Notation reach := (@reach V Ch Req D candidate candidate_rb rollback_of overlay commit_merge payload record_applied
                            touched restore resync_payload doc_ok dev_apply stamp v_empty d_empty ch_empty).
  Notation step := (@step V Ch Req D candidate candidate_rb rollback_of overlay commit_merge payload record_applied
                          touched restore resync_payload doc_ok dev_apply stamp v_empty d_empty ch_empty).
  Notation reconcile := (@reconcile V Ch Req D candidate candidate_rb rollback_of overlay commit_merge payload record_applied
                                    touched restore resync_payload doc_ok stamp v_empty d_empty ch_empty).
  Notation rec_prop := (@rec_prop V Ch Req D candidate candidate_rb rollback_of overlay commit_merge payload record_applied
                                  touched restore doc_ok v_empty d_empty ch_empty).
  Notation view := (@view V overlay).
  Notation aview := (@aview V overlay).
  Notation dev_answer := (@dev_answer V Ch Req D d_empty).
  Notation rb_change := (@rb_change Ch ch_empty).
  Notation dstate_of := (@dstate_of V Ch Req D d_empty).
  Notation ok_reqs := (@ok_reqs V Ch Req).
  Notation agrees := (@agrees V Ch Req D overlay d_empty A abs_dev abs_app).
  Notation conv := (@conv V Ch Req D overlay d_empty A abs_dev abs_app).
  Notation sent_by_apply := (@sent_by_apply V Ch Req D overlay payload d_empty ch_empty).
  Notation sent_by_resync := (@sent_by_resync V Ch Req D overlay resync_payload d_empty).
  Notation apply_sound_at := (apply_sound_at overlay payload record_applied dev_apply v_empty abs_dev abs_app).
  Notation status_sound_at := (status_sound_at overlay restore v_empty abs_app).
  Notation restore_sound_at := (restore_sound_at overlay restore v_empty abs_app).
  Notation resync_sound_empty_at := (resync_sound_empty_at resync_payload dev_apply d_empty abs_dev abs_app).
  Notation resync_sound_same_at := (resync_sound_same_at resync_payload dev_apply abs_dev abs_app).
  Notation apply_idem_at := (apply_idem_at dev_apply abs_dev).
  Notation loaded := (loaded overlay v_empty).
  Notation crun := (crun candidate candidate_rb rollback_of overlay commit_merge payload record_applied touched restore
                         resync_payload doc_ok dev_apply stamp v_empty d_empty ch_empty abs_dev abs_app).
  Notation pure_ok := (pure_ok overlay payload record_applied restore resync_payload dev_apply v_empty d_empty ch_empty abs_dev abs_app).
  Notation avalues_written := (avalues_written overlay record_applied restore d_empty ch_empty).

  (** (a) frame *)
  Theorem C04_device_changes_only_by_ok_requests : forall (w : world) (l : label) t,
    devs (step w l) !! t <> devs w !! t ->
    l = LDevRestart t \/ exists c k o, l = LRec c k o /\ ok_reqs t (firstn k (fst (reconcile o w c))) <> [].
  Proof. exact (device_changes_only_by_ok_requests candidate candidate_rb rollback_of overlay commit_merge payload record_applied
                  touched restore resync_payload doc_ok dev_apply stamp v_empty d_empty ch_empty). Qed.

  Theorem C04_device_state_is_fold : forall (w : world) c k o t,
    dstate_of (step w (LRec c k o)) t = fold_left dev_apply (ok_reqs t (firstn k (fst (reconcile o w c)))) (dstate_of w t).
  Proof. exact (device_state_after_invocation candidate candidate_rb rollback_of overlay commit_merge payload record_applied
                  touched restore resync_payload doc_ok dev_apply stamp v_empty d_empty ch_empty). Qed.

  Theorem C04_restart_empties : forall (w : world) t, dstate_of (step w (LDevRestart t)) t = d_empty.
  Proof. exact (restart_empties candidate candidate_rb rollback_of overlay commit_merge payload record_applied
                  touched restore resync_payload doc_ok dev_apply stamp v_empty d_empty ch_empty). Qed.

  Theorem C04_not_quiet_cases : forall (o : oracle) (w : world) c t,
    ok_reqs t (fst (reconcile o w c)) <> [] ->
    (exists i m term r, c = CtlProp (t, i) /\ sent_by_apply w o t i m term r COk) \/
    (exists m term r, c = CtlCfg t /\ sent_by_resync w o t m term r COk).
  Proof. exact (not_quiet_cases candidate candidate_rb rollback_of overlay commit_merge payload record_applied
                  touched restore resync_payload doc_ok stamp v_empty d_empty ch_empty). Qed.

  (** (b) quiet invocations, every prefix *)
  Theorem C04_quiet_invocation : forall (w : world) c k o t (C : config),
    status_sound_at (pair_of C) -> cfgs w !! t = Some C -> ok_reqs t (fst (reconcile o w c)) = [] ->
    devs (step w (LRec c k o)) !! t = devs w !! t /\
    exists C', cfgs (step w (LRec c k o)) !! t = Some C' /\ abs_app (aview C') = abs_app (aview C).
  Proof. exact (quiet_invocation candidate candidate_rb rollback_of overlay commit_merge payload record_applied
                  touched restore resync_payload doc_ok dev_apply stamp v_empty d_empty ch_empty abs_app). Qed.

  Theorem C04_status_updates_keep_agreement : forall (w : world) c k o t,
    (forall C, cfgs w !! t = Some C -> status_sound_at (pair_of C)) ->
    ok_reqs t (fst (reconcile o w c)) = [] -> agrees w t -> agrees (step w (LRec c k o)) t.
  Proof. exact (quiet_keeps_agreement candidate candidate_rb rollback_of overlay commit_merge payload record_applied
                  touched restore resync_payload doc_ok dev_apply stamp v_empty d_empty ch_empty abs_dev abs_app). Qed.

  Theorem C04_refused_or_transient_keeps_agreement : forall (w : world) c k o t,
    (forall C, cfgs w !! t = Some C -> status_sound_at (pair_of C)) ->
    (forall C, cfgs w !! t = Some C -> dev_answer w t (c_term C) o <> COk) ->
    agrees w t ->
    agrees (step w (LRec c k o)) t /\ devs (step w (LRec c k o)) !! t = devs w !! t.
  Proof. exact (refused_keeps_agreement candidate candidate_rb rollback_of overlay commit_merge payload record_applied
                  touched restore resync_payload doc_ok dev_apply stamp v_empty d_empty ch_empty abs_dev abs_app). Qed.

  Theorem C04_applied_values_change_only : forall (w : world) (l : label) t (C C' : config),
    cfgs w !! t = Some C -> cfgs (step w l) !! t = Some C' -> c_avalues C' <> c_avalues C ->
    exists c k o, l = LRec c k o /\ avalues_written o w c t C (c_avalues C').
  Proof. exact (avalues_change_only candidate candidate_rb rollback_of overlay commit_merge payload record_applied
                  touched restore resync_payload doc_ok dev_apply stamp v_empty d_empty ch_empty abs_dev abs_app). Qed.

  (** (c) apply, re-push, restart *)
  Theorem C04_apply_keeps_agreement_partial : forall (o : oracle) (w : world) t i m term r (k : nat),
    (forall (C : config) (P : prop), cfgs w !! t = Some C -> props w !! (t, i) = Some P ->
       apply_sound_at (o_order o) i (c_ainline C) (c_avalues C) (view C) (rb_change P) r (dstate_of w t)) ->
    sent_by_apply w o t i m term r COk -> (3 <= k)%nat -> agrees w t ->
    let w' := step w (LRec (CtlProp (t, i)) k o) in
    agrees w' t /\ dstate_of w' t = dev_apply (dstate_of w t) r /\
    exists (C : config) (P : prop) (C' : config), cfgs w !! t = Some C /\ props w !! (t, i) = Some P /\
      cfgs w' !! t = Some C' /\ c_applied C' = i /\ c_applied C < i /\
      aview C' = loaded (record_applied (o_order o) i (c_avalues C) (aview C) (view C) (rb_change P)) /\
      c_state C' = c_state C /\ c_aterm C' = c_aterm C /\ c_term C' = c_term C.
  Proof. exact (apply_keeps_agreement candidate candidate_rb rollback_of overlay commit_merge payload record_applied
                  touched restore resync_payload doc_ok dev_apply stamp v_empty d_empty ch_empty abs_dev abs_app). Qed.

  Theorem C04_cut_apply_retry_partial : forall (o o' : oracle) (w : world) t i m term r (k' : nat),
    (forall (C : config) (P : prop), cfgs w !! t = Some C -> props w !! (t, i) = Some P ->
       apply_sound_at (o_order o') i (c_ainline C) (c_avalues C) (view C) (rb_change P) r (dstate_of w t)) ->
    apply_idem_at (dstate_of w t) r -> agrees w t -> sent_by_apply w o t i m term r COk ->
    let w1 := step w (LRec (CtlProp (t, i)) 1 o) in
    dstate_of w1 t = dev_apply (dstate_of w t) r /\ cfgs w1 = cfgs w /\
    (dev_answer w1 t term o' = COk -> (3 <= k')%nat ->
     sent_by_apply w1 o' t i m term r COk /\ agrees (step w1 (LRec (CtlProp (t, i)) k' o')) t).
  Proof. exact (cut_apply_retry candidate candidate_rb rollback_of overlay commit_merge payload record_applied
                  touched restore resync_payload doc_ok dev_apply stamp v_empty d_empty ch_empty abs_dev abs_app). Qed.

  Theorem C04_resync_establishes_agreement_partial :
    forall (o : oracle) (w : world) t m term r (rs : list Req) (k : nat) (C : config),
    restore_sound_at (c_ainline C) (c_avalues C) -> sent_by_resync w o t m term r COk -> cfgs w !! t = Some C ->
    resync_payload (aview C) = map Some rs -> (length rs + 2 <= k)%nat ->
    (resync_sound_empty_at (aview C) rs /\ dstate_of w t = d_empty) \/
    (resync_sound_same_at (aview C) rs (dstate_of w t) /\ agrees w t) ->
    let w' := step w (LRec (CtlCfg t) k o) in
    agrees w' t /\ dstate_of w' t = fold_left dev_apply rs (dstate_of w t) /\
    exists C', cfgs w' !! t = Some C' /\ c_state C' = CSynchronized /\ c_aterm C' = c_term C' /\ c_term C' = c_term C /\
               c_applied C' = c_applied C /\ c_applied C <> 0 /\ abs_app (aview C') = abs_app (aview C).
  Proof. exact (resync_establishes_agreement candidate candidate_rb rollback_of overlay commit_merge payload record_applied
                  touched restore resync_payload doc_ok dev_apply stamp v_empty d_empty ch_empty abs_dev abs_app). Qed.

  Theorem C04_nothing_new_before_resync : forall (w : world) (l : label) evs t m term og r a,
    reach w -> devlog (step w l) = devlog w ++ evs -> In (DevSet t m term og r a) evs ->
    exists C, cfgs w !! t = Some C /\
      match og with
      | Some i => c_state C <> CSynchronizing /\ c_aterm C = c_term C /\ exists k o, l = LRec (CtlProp (t, i)) k o
      | None => c_state C = CSynchronizing /\ exists k o, l = LRec (CtlCfg t) k o
      end.
  Proof. exact (no_change_before_resync candidate candidate_rb rollback_of overlay commit_merge payload record_applied
                  touched restore resync_payload doc_ok dev_apply stamp v_empty d_empty ch_empty). Qed.

  Theorem C04_unsynced_no_apply : forall (o : oracle) (w : world) k t (C : config),
    cfgs w !! t = Some C -> unsynced C -> ok_reqs t (fst (rec_prop o w k)) = [].
  Proof. exact (unsynced_no_apply candidate candidate_rb rollback_of overlay commit_merge payload record_applied
                  touched restore resync_payload doc_ok stamp v_empty d_empty ch_empty). Qed.

  Theorem C04_quiet_keeps_device : forall (w : world) c k o t,
    ok_reqs t (fst (reconcile o w c)) = [] -> dstate_of (step w (LRec c k o)) t = dstate_of w t.
  Proof. exact (quiet_keeps_device candidate candidate_rb rollback_of overlay commit_merge payload record_applied
                  touched restore resync_payload doc_ok dev_apply stamp v_empty d_empty ch_empty). Qed.

  Theorem C04_restart_breaks_only_until_resync : forall (w : world) t (C : config),
    cfgs w !! t = Some C -> targets w !! t <> Some true -> (c_applied C = 0 -> abs_app (aview C) = abs_dev d_empty) ->
    unsynced C -> conv (step w (LDevRestart t)) t.
  Proof. exact (restart_then_resync candidate candidate_rb rollback_of overlay commit_merge payload record_applied
                  touched restore resync_payload doc_ok dev_apply stamp v_empty d_empty ch_empty abs_dev abs_app). Qed.

  (** (d) runs of complete invocations *)
  Theorem C04_pure_ok_global : forall (w : world) t (l : label),
    status_sound overlay restore v_empty abs_app -> apply_sound overlay payload record_applied dev_apply v_empty abs_dev abs_app ->
    resync_sound_empty resync_payload dev_apply d_empty abs_dev abs_app -> resync_sound_same resync_payload dev_apply abs_dev abs_app ->
    resync_total resync_payload -> pure_ok w t l.
  Proof. exact (pure_ok_global overlay payload record_applied restore resync_payload dev_apply v_empty d_empty ch_empty abs_dev abs_app). Qed.

  Theorem C04_converged_inv : forall (w w' : world) t, reach w -> conv w t -> crun t w w' -> reach w' /\ conv w' t.
  Proof. exact (converged candidate candidate_rb rollback_of overlay commit_merge payload record_applied
                  touched restore resync_payload doc_ok dev_apply stamp v_empty d_empty ch_empty abs_dev abs_app). Qed.

  Theorem C04_converged_partial : forall (w w' : world) t (C' : config),
    reach w -> conv w t -> crun t w w' ->
    cfgs w' !! t = Some C' -> c_state C' = CSynchronized -> c_aterm C' = c_term C' -> agrees w' t.
  Proof. exact (converged_synchronized candidate candidate_rb rollback_of overlay commit_merge payload record_applied
                  touched restore resync_payload doc_ok dev_apply stamp v_empty d_empty ch_empty abs_dev abs_app). Qed.
End C04.

(** the executable instance: where the obligations fail *)
Theorem C04_lagging_delete_converges :
  Forall (fun ord =>
    lag_summary (x_run (l_lag_b (x_oracle_ord ord))) =
      ([(1, TApplied); (3, TApplied); (2, TApplied)],
       [(3, 3, CSynchronized, 2, 2, [(B "/a/c", B "3")], [(B "/a/c", B "3")])], [[(B "/a/c", B "3")]]) /\
    @agrees cmap cmap req dstate overlay nil _ abs_dev_i abs_app_i (x_run (l_lag_b (x_oracle_ord ord))) 1 /\
    lag_summary (x_run (l_lag_c (x_oracle_ord ord))) =
      ([(1, TApplied); (3, TApplied); (2, TApplied)],
       [(3, 3, CSynchronized, 3, 3, [(B "/a/c", B "3")], [(B "/a/c", B "3")])], [[(B "/a/c", B "3")]]) /\
    @agrees cmap cmap req dstate overlay nil _ abs_dev_i abs_app_i (x_run (l_lag_c (x_oracle_ord ord))) 1) ords6.
Proof. exact lagging_delete_converges. Qed.

Theorem C04_overlap_apply_refuted :
  wf_change ch_overlap = false /\
  payload 2 [] ch_overlap = Some (mkReq [B "/a"] []) /\ payload 2 [] (rev ch_overlap) = Some (mkReq [B "/a"] []) /\
  abs_dev_i [] = abs_app_i (overlay [] []) /\
  abs_dev_i (dev_apply [] (mkReq [B "/a"] [])) = [] /\
  map (fun ord => abs_app_i (loaded overlay nil (record_applied ord 2 [] (overlay [] []) [] ch_overlap))) [0; 1; 2; 3] =
    [[(B "/a/b", B "1")]; []; []; [(B "/a/b", B "1")]] /\
  ~ apply_sound_at overlay payload record_applied dev_apply nil abs_dev_i abs_app_i 0 2 [] [] [] ch_overlap (mkReq [B "/a"] []) [].
Proof. exact apply_sound_overlap_refuted. Qed.

Theorem C04_resync_order_nonwf_refuted : exists r1 r2,
  resync_payload va_nonwf = [Some r1; Some r2] /\ wf_applied va_nonwf = false /\ abs_app_i va_nonwf = [] /\
  abs_dev_i (fold_left dev_apply [r1; r2] []) = [] /\
  abs_dev_i (fold_left dev_apply [r2; r1] []) = [(B "/a/b", B "1")].
Proof. exact resync_order_matters_nonwf. Qed.


(** the executable instance MEETS the pure-layer obligations: proved for ALL values satisfying the boolean
    well-formedness predicates of Proofs/P2PureApplyDefs.v (proofs: Proofs/P2PureApply{Base,Sem,Sound,Status,Resync,Inst}.v)
      wfk m          keys unique, key = path of the value, path neither "" nor "/"
      no_live_below  no LIVE value beneath a tombstone
      wf_pair inl m  := wfk inl && wfk m && no_live_below (overlay inl m)      (inlined applied values, stored applied map)
      wf_change ch   := wfk ch && no_live_below ch                             (no delete + update of related paths: F-14)
      idx_compat m ch   a stored value and a change value of the same path and index say the same
      wf_apply inl m ch := wf_pair inl m && wf_change ch && idx_compat m ch    (NOTHING is asked of the committed view)
    every Go map order [ord], every committed view [vw], every device state *)
Theorem C04_apply_sound_P2Pure : forall ord i inl m vw ch req d,
  wf_apply inl m ch = true ->
  apply_sound_at overlay payload record_applied dev_apply nil abs_dev_i abs_app_i ord i inl m vw ch req d.
Proof. exact P2PureApplyInst.apply_sound_inst. Qed.

Theorem C04_status_sound_P2Pure : forall p : cmap * cmap,
  wfk p.1 = true -> wfk p.2 = true -> status_sound_at overlay restore nil abs_app_i p.
Proof. exact P2PureApplyInst.status_sound_inst. Qed.

(* for every device state and every request, as lists *)
Theorem C04_apply_idem_P2Pure : forall d req, apply_idem_at dev_apply abs_dev_i d req.
Proof. exact P2PureApplyInst.apply_idem_inst. Qed.

Theorem C04_resync_sound_empty_P2Pure : forall va reqs,
  wfk va = true -> no_live_below va = true -> resync_sound_empty_at resync_payload dev_apply nil abs_dev_i abs_app_i va reqs.
Proof. exact P2PureApplyInst.resync_sound_empty_inst. Qed.

Theorem C04_resync_sound_same_P2Pure : forall va reqs d,
  wfk va = true -> no_live_below va = true -> resync_sound_same_at resync_payload dev_apply abs_dev_i abs_app_i va reqs d.
Proof. exact P2PureApplyInst.resync_sound_same_inst. Qed.

Theorem C04_resync_total_P2Pure : resync_total resync_payload.
Proof. exact P2PureApplyResync.resync_total_P2Pure. Qed.

(* the predicates hold initially and are preserved by what the complete invocations store on the applied side: the record
   of an OK apply (entry written: inline values cleared), a status update (entry written), the commit's inlining;
   what store() leaves behind holds no entry at all beneath a tombstone *)
Theorem C04_wf_initial_P2Pure : wf_pair [] [] = true /\ wf_apply [] [] [] = true.
Proof. exact P2PureApplyInst.wf_initial. Qed.

Theorem C04_record_applied_wf_P2Pure : forall ord i inl m vw ch,
  wf_apply inl m ch = true ->
  wf_pair [] (record_applied ord i m (overlay inl m) vw ch) = true /\
  no_entry_below (record_applied ord i m (overlay inl m) vw ch) = true.
Proof. exact P2PureApplySound.record_applied_wf. Qed.

Theorem C04_restore_wf_P2Pure : forall inl m, wfk inl = true -> wfk m = true ->
  wf_pair [] (restore m (overlay inl m)) = true /\ no_entry_below (restore m (overlay inl m)) = true /\
  wfk (restore m (overlay inl m)) = true.
Proof. exact P2PureApplyStatus.restore_wf. Qed.

Theorem C04_inline_wf_P2Pure : forall inl m, wf_pair inl m = true -> wf_pair (overlay inl m) m = true.
Proof. exact P2PureApplyStatus.inline_wf. Qed.

(* NOT preserved: the pair between the map write and the entry write of a status update (wfk stays, no_live_below can go:
   an inlined live value whose stored counterpart was a tombstone beneath a tombstone comes back through the overlay);
   what the pair stands for is unchanged there (restore_cut_sound) *)
Theorem C04_restore_cut_wf_refuted :
  wf_pair P2PureApplyStatus.cut_inl P2PureApplyStatus.cut_m = true /\ wf_pair P2PureApplyStatus.cut_inl (restore P2PureApplyStatus.cut_m (overlay P2PureApplyStatus.cut_inl P2PureApplyStatus.cut_m)) = false /\
  P2PureApplyDefs.abs_app (overlay P2PureApplyStatus.cut_inl (restore P2PureApplyStatus.cut_m (overlay P2PureApplyStatus.cut_inl P2PureApplyStatus.cut_m))) = P2PureApplyDefs.abs_app (overlay P2PureApplyStatus.cut_inl P2PureApplyStatus.cut_m).
Proof. exact P2PureApplyStatus.restore_cut_wf_refuted. Qed.

(* each hypothesis of wf_apply / of the re-push is needed *)
Theorem C04_apply_sound_live_below_refuted :
  wf_pair [] nlb_m = false /\ wfk nlb_m = true /\ P2PureApplyDefs.wf_change nlb_ch = true /\ idx_compat nlb_m nlb_ch = true /\
  abs_dev_i [] = abs_app_i (overlay [] nlb_m) /\
  payload 3 [] nlb_ch = Some (mkReq [] [(B "/a/b", B "0")]) /\
  abs_dev_i (dev_apply [] (mkReq [] [(B "/a/b", B "0")])) = [(B "/a/b", B "0")] /\
  abs_app_i (loaded overlay nil (record_applied 0 3 nlb_m (overlay [] nlb_m) [] nlb_ch)) = [(B "/a/b", B "0"); (B "/a/c", B "2")].
Proof. exact P2PureApplyEx.apply_sound_live_below_refuted. Qed.

Theorem C04_apply_sound_same_index_refuted :
  wf_pair [] idx_m = true /\ P2PureApplyDefs.wf_change idx_ch = true /\ idx_compat idx_m idx_ch = false /\
  abs_dev_i [(B "/a", B "1")] = abs_app_i (overlay [] idx_m) /\
  payload 5 [] idx_ch = Some (mkReq [] [(B "/a", B "2")]) /\
  abs_dev_i (dev_apply [(B "/a", B "1")] (mkReq [] [(B "/a", B "2")])) = [(B "/a", B "2")] /\
  abs_app_i (loaded overlay nil (record_applied 0 5 idx_m (overlay [] idx_m) [] idx_ch)) = [(B "/a", B "1")].
Proof. exact P2PureApplyEx.apply_sound_same_index_refuted. Qed.

Theorem C04_resync_live_below_refuted : exists r,
  resync_payload nlb_m = [Some (mkReq [B "/a"] []); Some r] /\ wfk nlb_m = true /\ no_live_below nlb_m = false /\
  abs_app_i nlb_m = [] /\ abs_dev_i (fold_left dev_apply [mkReq [B "/a"] []; r] []) = [(B "/a/c", B "2")].
Proof. exact P2PureApplyEx.resync_live_below_refuted. Qed.

(** the protocol theorems with the instance plugged in: the obligation premises are gone, what remains is the
    well-formedness of the values the step works on (wf_apply_at w t i: wf_apply of the applied values of t and the change of
    proposal (t, i); wf_step w t l: wfk of both components and, per label, wf_apply_at / no_live_below of the applied view) *)
Theorem C04_pure_ok_P2Pure : forall (w : Wd) t (l : Label),
  wf_step w t l ->
  pure_ok overlay payload record_applied restore resync_payload dev_apply nil nil nil abs_dev_i abs_app_i w t l.
Proof. exact P2PureApplyInst.pure_ok_inst. Qed.

Theorem C04_apply_keeps_agreement_P2Pure : forall (o : oracle) (w : Wd) t i m term r (k : nat),
  wf_apply_at w t i -> i_sent_by_apply w o t i m term r COk -> (3 <= k)%nat -> i_agrees w t ->
  let w' := p2_step w (LRec (CtlProp (t, i)) k o) in
  i_agrees w' t /\ i_dstate_of w' t = dev_apply (i_dstate_of w t) r /\
  exists (C : Cfg) (P : Prop2) (C' : Cfg), cfgs w !! t = Some C /\ props w !! (t, i) = Some P /\
    cfgs w' !! t = Some C' /\ c_applied C' = i /\ c_applied C < i /\
    aview overlay C' = record_applied (o_order o) i (c_avalues C) (aview overlay C) (view overlay C) (rb_change nil P) /\
    c_state C' = c_state C /\ c_aterm C' = c_aterm C /\ c_term C' = c_term C /\
    wfk (aview overlay C') = true /\ no_entry_below (aview overlay C') = true.
Proof. exact P2PureApplyInst.apply_keeps_agreement_inst. Qed.

Theorem C04_cut_apply_retry_P2Pure : forall (o o' : oracle) (w : Wd) t i m term r (k' : nat),
  wf_apply_at w t i -> i_agrees w t -> i_sent_by_apply w o t i m term r COk ->
  let w1 := p2_step w (LRec (CtlProp (t, i)) 1 o) in
  i_dstate_of w1 t = dev_apply (i_dstate_of w t) r /\ cfgs w1 = cfgs w /\
  (dev_answer (nil : dstate) w1 t term o' = COk -> (3 <= k')%nat ->
   i_sent_by_apply w1 o' t i m term r COk /\ i_agrees (p2_step w1 (LRec (CtlProp (t, i)) k' o')) t).
Proof. exact P2PureApplyInst.cut_apply_retry_inst. Qed.

Theorem C04_resync_establishes_agreement_P2Pure :
  forall (o : oracle) (w : Wd) t m term r (rs : list req) (k : nat) (C : Cfg),
  wfk (c_ainline C) = true -> wfk (c_avalues C) = true -> no_live_below (aview overlay C) = true ->
  i_sent_by_resync w o t m term r COk -> cfgs w !! t = Some C ->
  resync_payload (aview overlay C) = map Some rs -> (length rs + 2 <= k)%nat ->
  i_dstate_of w t = [] \/ i_agrees w t ->
  let w' := p2_step w (LRec (CtlCfg t) k o) in
  i_agrees w' t /\ i_dstate_of w' t = fold_left dev_apply rs (i_dstate_of w t) /\
  exists C' : Cfg, cfgs w' !! t = Some C' /\ c_state C' = CSynchronized /\ c_aterm C' = c_term C' /\ c_term C' = c_term C /\
             c_applied C' = c_applied C /\ c_applied C <> 0 /\ abs_app_i (aview overlay C') = abs_app_i (aview overlay C).
Proof. exact P2PureApplyInst.resync_establishes_agreement_inst. Qed.

(* partial: crun_wf = a run of environment labels and complete invocations in which wf_step holds at EVERY step; that
   wf_step is an invariant of the reachable worlds is not proved (it is for single complete invocations on the applied
   side: C04_record_applied_wf_P2Pure, C04_restore_wf_P2Pure, C04_inline_wf_P2Pure; wf_change / idx_compat of every
   proposal's change and the cut states are open) *)
Theorem C04_converged_P2Pure_partial : forall (w w' : Wd) t (C' : Cfg),
  i_reach w -> i_conv w t -> crun_wf t w w' ->
  cfgs w' !! t = Some C' -> c_state C' = CSynchronized -> c_aterm C' = c_term C' -> i_agrees w' t.
Proof. exact P2PureApplyInst.converged_inst. Qed.

(* crun_wf is decidable step by step (run_ok, sound: run_ok_crun_wf) and holds on non-trivial runs: the lagging-delete scenario
   of F-23 in every Go map order, and a run with a cascading delete, a re-creation beneath the tombstones, the rollback of that
   change (a delete beneath a delete), a connection loss and the re-push in a new term; the agreement at its end is then a
   consequence of the theorem *)
Theorem C04_wf_runs_P2Pure :
  Forall (fun ord => run_ok 1 (lag_rest (x_oracle_ord ord)) (x_run lag_start) = true) ords6 /\
  Forall (fun ord => run_ok 1 (big_rest (x_oracle_ord ord)) (x_run big_start) = true) [0; 1; 2; 5] /\
  i_agrees (x_run (big_start ++ big_rest (x_oracle_ord 1))) 1.
Proof. exact (conj P2PureApplyEx.lag_run_wf (conj P2PureApplyEx.big_run_wf P2PureApplyEx.big_run_agrees)). Qed.


(** the well-formedness is an INVARIANT of the instance (Proofs/P2PureReach{Pure,Inv,Eff,Dyn,Run,Labels,Init,Ex}.v).
    labels_wfb ls (boolean, on the label list - the only environment hypothesis): every change of every northbound request
      (LChange) is a wf_change - unique proper keys = paths, no update beneath a delete of the same request (finding F-14
      excluded) - and no updated path of the run lies beneath another updated path of the same target (values live at
      leaves: what a schema guarantees; C04_leaf_hypothesis_needed shows it cannot be dropped).  Rollbacks need nothing.
    completes p2_init ls: every reconcile invocation of the run executes all its effects (the run theorem is about complete
      invocations anyway; the cut between a map write and the entry write is where the pair leaves the domain:
      C04_restore_cut_wf_refuted).
    quiet_env t ls: no restart of the device of t, t never declared persistent (as in C04_converged_partial). *)
Theorem C04_reach_wf_P2Pure : forall (ls : list Label) t (l : Label),
  labels_wfb ls = true -> completes p2_init ls -> wf_step (x_run ls) t l.
Proof. exact P2PureReachLabels.reach_wf_step. Qed.

(* the run theorem for the executable instance: no obligation premise, no per-step premise, no start condition *)
Theorem C04_converged_P2Pure : forall (ls : list Label) t (C' : Cfg),
  labels_wfb ls = true -> completes p2_init ls -> quiet_env t ls ->
  cfgs (x_run ls) !! t = Some C' -> c_state C' = CSynchronized -> c_aterm C' = c_term C' -> i_agrees (x_run ls) t.
Proof. exact P2PureReachInit.converged_from_init. Qed.

(* the same from any world of such a run that satisfies the start condition conv (device agreeing, or empty with the
   configuration not synchronised in its term): restarts and "persistent" switches are allowed BEFORE that world *)
Theorem C04_converged_reach_P2Pure : forall (ls0 ls : list Label) t (C' : Cfg),
  labels_wfb (ls0 ++ ls) = true -> completes p2_init (ls0 ++ ls) -> quiet_env t ls -> i_conv (x_run ls0) t ->
  cfgs (x_run (ls0 ++ ls)) !! t = Some C' -> c_state C' = CSynchronized -> c_aterm C' = c_term C' ->
  i_agrees (x_run (ls0 ++ ls)) t.
Proof. exact P2PureReachLabels.converged_reach. Qed.

(* the premises are decidable (run_premises, sound: checked_from_init) and hold on a non-trivial run: cascade, re-creation
   beneath the tombstone, rollback of that change, connection loss, re-push in a new term - in several Go map orders *)
Theorem C04_good_run_P2Pure :
  Forall (fun ord => run_premises 1 (good_run ord) = true) [0; 1; 2; 5] /\ i_agrees (x_run (good_run 1)) 1.
Proof. exact (conj P2PureReachEx.good_run_premises P2PureReachEx.good_run_agrees_from_init). Qed.

(* values must live at leaves: every request well-formed, every invocation complete - the request "/a/b = 1, /a/b/c = 2" on
   a configuration holding /a/b/c and its rollback leave all transactions APPLIED, the configuration SYNCHRONIZED, the
   applied values {/a/b = 1, /a/b/c = 5} and the device empty: the rollback values recorded at validation are
   "delete /a/b, update /a/b/c" - the delete/update overlap of finding F-14, produced by the controller itself *)
Theorem C04_leaf_hypothesis_needed :
  forallb label_wfb (leaf_run 0) = true /\ completesb p2_init (leaf_run 0) = true /\ quietb 1 (leaf_run 0) = true /\
  labels_wfb (leaf_run 0) = false /\
  (match props (x_run (leaf_run 0)) !! (1, 2) with
   | Some P => option_map (fun rb => (map (fun kv => (fst kv, pv_val (snd kv), pv_deleted (snd kv), pv_index (snd kv))) rb, wf_changeb rb)) (p_rbvalues P)
   | None => None
   end) = Some ([(B "/a/b", [], true, 0); (B "/a/b/c", B "5", false, 1)], false) /\
  lag_summary (x_run (leaf_run 0)) =
    ([(1, TApplied); (3, TApplied); (2, TApplied)],
     [(3, 3, CSynchronized, 1, 1, [(B "/a/b", B "1"); (B "/a/b/c", B "5")], [])], [[]]) /\
  ~ i_agrees (x_run (leaf_run 0)) 1.
Proof. exact P2PureReachEx.leaf_hypothesis_needed. Qed.

Print Assumptions C04_device_changes_only_by_ok_requests.
Print Assumptions C04_device_state_is_fold.
Print Assumptions C04_restart_empties.
Print Assumptions C04_not_quiet_cases.
Print Assumptions C04_quiet_invocation.
Print Assumptions C04_status_updates_keep_agreement.
Print Assumptions C04_refused_or_transient_keeps_agreement.
Print Assumptions C04_applied_values_change_only.
Print Assumptions C04_apply_keeps_agreement_partial.
Print Assumptions C04_cut_apply_retry_partial.
Print Assumptions C04_resync_establishes_agreement_partial.
Print Assumptions C04_nothing_new_before_resync.
Print Assumptions C04_unsynced_no_apply.
Print Assumptions C04_quiet_keeps_device.
Print Assumptions C04_restart_breaks_only_until_resync.
Print Assumptions C04_pure_ok_global.
Print Assumptions C04_converged_inv.
Print Assumptions C04_converged_partial.
Print Assumptions C04_lagging_delete_converges.
Print Assumptions C04_overlap_apply_refuted.
Print Assumptions C04_resync_order_nonwf_refuted.
Print Assumptions C04_apply_sound_P2Pure.
Print Assumptions C04_status_sound_P2Pure.
Print Assumptions C04_apply_idem_P2Pure.
Print Assumptions C04_resync_sound_empty_P2Pure.
Print Assumptions C04_resync_sound_same_P2Pure.
Print Assumptions C04_resync_total_P2Pure.
Print Assumptions C04_wf_initial_P2Pure.
Print Assumptions C04_record_applied_wf_P2Pure.
Print Assumptions C04_restore_wf_P2Pure.
Print Assumptions C04_inline_wf_P2Pure.
Print Assumptions C04_restore_cut_wf_refuted.
Print Assumptions C04_apply_sound_live_below_refuted.
Print Assumptions C04_apply_sound_same_index_refuted.
Print Assumptions C04_resync_live_below_refuted.
Print Assumptions C04_pure_ok_P2Pure.
Print Assumptions C04_apply_keeps_agreement_P2Pure.
Print Assumptions C04_cut_apply_retry_P2Pure.
Print Assumptions C04_resync_establishes_agreement_P2Pure.
Print Assumptions C04_converged_P2Pure_partial.
Print Assumptions C04_wf_runs_P2Pure.
Print Assumptions C04_reach_wf_P2Pure.
Print Assumptions C04_converged_P2Pure.
Print Assumptions C04_converged_reach_P2Pure.
Print Assumptions C04_good_run_P2Pure.
Print Assumptions C04_leaf_hypothesis_needed.

(* C15 - Stores never lose an update; watchers never miss the latest state.
   Statements only; proofs live in Proofs/StoreProofs.v, Proofs/WatchProofs.v, Proofs/WatchBounded.v. *)
From Coq Require Import List NArith Bool.
From OC Require Import Base.Bytes Model.Atomix Model.Store Model.Watch Spec.Cas
  Proofs.StoreProofs Proofs.WatchProofs Proofs.WatchBounded.
Import ListNotations.
Open Scope N_scope.

(* For transactions, proposals and configurations (v2 and v3), in ANY history by any number of clients:
   two updates (Update / UpdateStatus) of one record issued with the same read version cannot both succeed *)
Theorem C15_cas : forall k cs1 a cs2 b st1 r1 st2 ca oa ba st3 r2 st4 cb ob bb,
  is_update a -> is_update b -> same_record a b ->
  o_version (c_obj a) = o_version (c_obj b) ->
  run k init cs1 = (st1, r1) ->
  step k (c_op a) (c_obj a) st1 = (st2, ca, oa, ba) ->
  run k st2 cs2 = (st3, r2) ->
  step k (c_op b) (c_obj b) st3 = (st4, cb, ob, bb) ->
  ~ (ca = COk /\ cb = COk).
Proof. exact cas_exclusive. Qed.
Print Assumptions C15_cas.

(* record versions only grow along any history ... *)
Theorem C15_versions_grow : forall k cs1 cs2 st1 r1 st2 r2,
  run k init cs1 = (st1, r1) -> run k st1 cs2 = (st2, r2) ->
  forall lg ky, cur st1 lg ky <= cur st2 lg ky.
Proof. exact versions_grow. Qed.
Print Assumptions C15_versions_grow.

(* ... and an accepted write gives its record a version above every version that existed *)
Theorem C15_accepted_write_fresh_version : forall k st op o st' o' b,
  reachable k st -> step k op o st = (st', COk, o', b) ->
  cur st' (o_log o) (o_key o) = o_version o' /\ (forall lg ky, cur st lg ky < o_version o').
Proof. exact accepted_write_fresh_version. Qed.
Print Assumptions C15_accepted_write_fresh_version.

(* a record keeps its log index for life; an accepted Create receives an index above every index of its log *)
Theorem C15_index_never_reused : forall k st op o st' c o' b,
  reachable k st -> step k op o st = (st', c, o', b) ->
  (forall lg ky, idx_of st lg ky <> 0 -> idx_of st' lg ky = idx_of st lg ky) /\
  (indexed k = true -> op = OCreate -> c = COk ->
     o_index o' = idx_of st' (o_log o) (o_key o) /\ forall ky, idx_of st (o_log o) ky < o_index o').
Proof. exact index_never_reused. Qed.
Print Assumptions C15_index_never_reused.

(* every well-formed store call is, on the record it addresses, exactly the operation of the per-record
   compare-and-set register of Spec/Cas.v (same answer, same new register), and moves no other record *)
Theorem C15_refines_cas : forall k st op o st' c o' b,
  reachable k st -> valid k op o = true -> step k op o st = (st', c, o', b) ->
  let spec := match op with
              | OCreate => reg1_create (pay st (o_log o) (o_key o)) (o_payload o) (s_clock st + 1)
              | _ => reg1_update (pay st (o_log o) (o_key o)) (o_version o) (o_payload o) (s_clock st + 1)
              end in
  c = code_of (snd spec) /\ pay st' (o_log o) (o_key o) = fst spec /\
  forall lg ky, (lg <> o_log o \/ ky <> o_key o) -> pay st' lg ky = pay st lg ky.
Proof. exact refines_cas. Qed.
Print Assumptions C15_refines_cas.

(* a refused call changes no record of any store; PARTIAL for the path values: they are untouched only when the
   store has none or the call passes none (negated signature of F-08) *)
Theorem C15_refused_write_changes_nothing_partial : forall k st op o st' c o' b,
  reachable k st -> step k op o st = (st', c, o', b) -> c <> COk ->
  s_logs st' = s_logs st /\ s_clock st' = s_clock st /\
  (has_values k = false \/ o_vals o = None -> s_pvs st' = s_pvs st /\ s_apvs st' = s_apvs st).
Proof. exact refused_changes_no_record. Qed.
Print Assumptions C15_refused_write_changes_nothing_partial.

(* F-08: the configuration store writes the path values before the version check: a stale Update is refused
   with Conflict and has rewound /z from 2@2 to 1@1 *)
Theorem C15_refused_update_rewrites_values_refuted :
  exists k cs, map fst (snd (run k init cs)) = [COk; COk; CConflict] /\
    get_pvs (B "c") (s_pvs (fst (run k init (firstn 2 cs)))) = [(B "/z", pv1 2 2)] /\
    get_pvs (B "c") (s_pvs (fst (run k init cs))) = [(B "/z", pv1 1 1)].
Proof. exact refused_update_rewrites_values_refuted. Qed.
Print Assumptions C15_refused_update_rewrites_values_refuted.

(* v3 configuration store: one accepted Create with two paths stores one path's value under both *)
Theorem C15_v3_values_aliased_refuted :
  exists o, o_vals o = Some [(B "/a", pv1 5 1); (B "/c", pv1 48 3)] /\
    snd (fst (fst (step CfgV3 OCreate o init))) = COk /\
    get_pvs (o_key o) (s_pvs (fst (fst (fst (step CfgV3 OCreate o init))))) = [(B "/a", pv1 5 1); (B "/c", pv1 5 1)].
Proof. exact v3_values_aliased_refuted. Qed.
Print Assumptions C15_v3_values_aliased_refuted.

(* PARTIAL (bounded): for every interleaving of up to 7 / 8 / 6 steps of writes with the steps of Watch, event loop,
   watcher and cancellation, at quiescence every open watcher was last shown the current version of every record
   it is entitled to - with replay / without, all records / one record, repaired and unrepaired cancel path.
   Missing for the full statement: the inductive invariant over unbounded schedules (last event of
   delivered ++ in-flight stream = current version), which is not proved here. *)
Theorem C15_watch_latest_partial :
  forallb watch_ok (explore true alphabet_replay_all 7 w0) = true /\
  forallb watch_ok (explore true alphabet_replay_one 7 w0) = true /\
  forallb watch_ok (explore true alphabet_live_one 8 w0) = true /\
  forallb watch_ok (explore true alphabet_two 6 w0) = true /\
  forallb watch_ok (explore false alphabet_two 6 w0) = true.
Proof. exact watch_latest_bounded. Qed.
Print Assumptions C15_watch_latest_partial.

(* the proof obligation rests on the listener being registered before the snapshot: with the order swapped
   an update between the two is never shown *)
Theorem C15_watch_swapped_order_refuted :
  let g := wrun true true w0 swapped_schedule in quiescent g = true /\ watch_ok g = false.
Proof. exact swapped_order_misses_update. Qed.
Print Assumptions C15_watch_swapped_order_refuted.

(* cancelling touches neither the store, nor the event stream, nor the loop, nor any other watcher ... *)
Theorem C15_cancel_isolated_partial : forall fixed g id l, l = SCancel id \/ l = SClose id ->
  let g' := wstep fixed false g l in
  g_store g' = g_store g /\ g_clock g' = g_clock g /\ g_queue g' = g_queue g /\ g_loop g' = g_loop g /\
  forall w, In w (g_ws g) -> w_id w <> id -> In w (g_ws g').
Proof. exact cancel_touches_nobody_else. Qed.
Print Assumptions C15_cancel_isolated_partial.

(* ... and a cancelled watcher with a drainer never holds the loop up *)
Theorem C15_drained_listener_never_blocks : forall fixed g e id rest w,
  g_loop g = LSend e (id :: rest) -> find_w id (g_ws g) = Some w -> w_phase w = WDrained ->
  g_loop (wstep fixed false g SSend) = after_targets e rest /\ g_ws (wstep fixed false g SSend) = g_ws g.
Proof. exact drained_listener_never_blocks. Qed.
Print Assumptions C15_drained_listener_never_blocks.

(* F-10: for the code as it is, a cancel seen during the replay leaves the event loop parked for ever: after
   the schedule, NO continuation of any length by any component reaches quiescence again *)
Theorem C15_cancel_isolated_refuted :
  forall ls, let g := wrun false false (wrun false false w0 f10_schedule) ls in
  quiescent g = false /\ g_loop g = LSend {| ev_key := 0; ev_ver := 3 |} [1; 2].
Proof. exact cancel_isolated_refuted. Qed.
Print Assumptions C15_cancel_isolated_refuted.

(* C15 - Stores never lose an update; watchers never miss the latest state.
   Statements only; proofs live in Proofs/CasStoreProofs.v, Proofs/WatchProofs.v, Proofs/WatchBounded.v,
   Proofs/WatchInv.v (unbounded invariant of the watch system), Proofs/WatchLive.v (quiescence is always reachable).

   What is proved:
   * store half (unbounded, all histories): C15_cas, C15_versions_grow, C15_accepted_write_fresh_version,
     C15_index_never_reused, C15_refines_cas, C15_v3_values_stored_as_written (current v3 store, /repo 2aad659);
     still false for the current code (finding F-08 / F-08b, open): C15_refused_update_rewrites_values_refuted, and
     C15_refused_write_changes_nothing_partial is the statement under the negated F-08 signature;
     C15_v3_values_aliased_before_repair is the witness for the v3 store BEFORE 2aad659 (finding F-C15-2, fixed);
   * watch half, UNBOUNDED (induction over every schedule of any length from the initial world, any number of writes,
     records and watchers, with / without replay, all records / one record, repaired AND unrepaired cancel path):
       C15_watch_latest            watch_ok in every reachable world;
       C15_watch_latest_explicit   the same spelled out: quiescent -> every watcher that is not cancelled was last shown,
                                   for every record it is entitled to, the current version;
       C15_watch_never_loses       at EVERY moment: delivered ++ pending in the goroutine ++ pending in the loop for it
                                   ++ Atomix event stream ends, per entitled record, with the current version;
       C15_watch_swapped_order_hypothetical  a counter-model, not the code: with the HYPOTHETICAL swapped order
                                   (snapshot before registration) an update is lost;
       C15_watch_latest_bounded    the older bounded exploration (kept; superseded by C15_watch_latest);
   * cancel isolation, UNBOUNDED, repaired model (fixed = true = the code of /repo after 23bac70 / d4508c1):
       C15_cancel_isolated         from EVERY reachable world the loop and goroutine steps alone (no write / open /
                                   cancel) reach a quiescent world with the same store where every watcher that is
                                   not cancelled is served: a cancelled watcher never parks the loop;
       C15_no_dead_listener        safety form: no goroutine is ever gone without a drainer (WStuck unreachable) and
                                   the listener the loop waits for exists and takes the event once in its select / drained;
       C15_cancel_touches_nobody_else, C15_drained_listener_never_blocks  the older one-step statements (kept);
       C15_cancel_isolated_before_repair  the code BEFORE 23bac70 / d4508c1 (fixed = false): parked for ever
                                   (findings F-10 / F-C15-1, fixed).
   Naming: unsuffixed = true of the current code; _partial / _refuted = the open F-08 family only; _before_repair = a
   variant of the model that /repo no longer contains; _hypothetical = an instructive counter-model; _bounded = superseded.
   (Proofs/CasStoreProofs.v is this property's store proof file under a new name: Proofs/StoreProofs.v now belongs to
   C03's configuration-store write and no longer contains these lemmas.)
   Nothing of the watch half remains partial with respect to the model; what the model abstracts is listed in the
   manifest note (one loop for the v3 multi-log loops, consumer always willing to receive). *)
From Coq Require Import List NArith Bool.
From OC Require Import Base.Bytes Model.Atomix Model.Store Model.Watch Spec.Cas
  Proofs.CasStoreProofs Proofs.WatchProofs Proofs.WatchBounded Proofs.WatchInv Proofs.WatchLive.
Import ListNotations.
Open Scope N_scope.

(* For transactions, proposals and configurations (v2 and v3), in ANY history by any number of clients:
   two updates (Update / UpdateStatus) of one record issued with the same read version cannot both succeed *)
Theorem C15_cas : forall k cs1 a cs2 b st1 r1 st2 ca oa ba st3 r2 st4 cb ob bb,
  is_update a -> is_update b -> same_record a b ->
  o_version (c_obj a) = o_version (c_obj b) ->
  run k init cs1 = (st1, r1) ->
  step k (c_op a) (c_obj a) st1 = (st2, ca, oa, ba) ->
  run k st2 cs2 = (st3, r2) ->
  step k (c_op b) (c_obj b) st3 = (st4, cb, ob, bb) ->
  ~ (ca = COk /\ cb = COk).
Proof. exact cas_exclusive. Qed.
Print Assumptions C15_cas.

(* record versions only grow along any history ... *)
Theorem C15_versions_grow : forall k cs1 cs2 st1 r1 st2 r2,
  run k init cs1 = (st1, r1) -> run k st1 cs2 = (st2, r2) ->
  forall lg ky, cur st1 lg ky <= cur st2 lg ky.
Proof. exact versions_grow. Qed.
Print Assumptions C15_versions_grow.

(* ... and an accepted write gives its record a version above every version that existed *)
Theorem C15_accepted_write_fresh_version : forall k st op o st' o' b,
  reachable k st -> step k op o st = (st', COk, o', b) ->
  cur st' (o_log o) (o_key o) = o_version o' /\ (forall lg ky, cur st lg ky < o_version o').
Proof. exact accepted_write_fresh_version. Qed.
Print Assumptions C15_accepted_write_fresh_version.

(* a record keeps its log index for life; an accepted Create receives an index above every index of its log *)
Theorem C15_index_never_reused : forall k st op o st' c o' b,
  reachable k st -> step k op o st = (st', c, o', b) ->
  (forall lg ky, idx_of st lg ky <> 0 -> idx_of st' lg ky = idx_of st lg ky) /\
  (indexed k = true -> op = OCreate -> c = COk ->
     o_index o' = idx_of st' (o_log o) (o_key o) /\ forall ky, idx_of st (o_log o) ky < o_index o').
Proof. exact index_never_reused. Qed.
Print Assumptions C15_index_never_reused.

(* every well-formed store call is, on the record it addresses, exactly the operation of the per-record
   compare-and-set register of Spec/Cas.v (same answer, same new register), and moves no other record *)
Theorem C15_refines_cas : forall k st op o st' c o' b,
  reachable k st -> valid k op o = true -> step k op o st = (st', c, o', b) ->
  let spec := match op with
              | OCreate => reg1_create (pay st (o_log o) (o_key o)) (o_payload o) (s_clock st + 1)
              | _ => reg1_update (pay st (o_log o) (o_key o)) (o_version o) (o_payload o) (s_clock st + 1)
              end in
  c = code_of (snd spec) /\ pay st' (o_log o) (o_key o) = fst spec /\
  forall lg ky, (lg <> o_log o \/ ky <> o_key o) -> pay st' lg ky = pay st lg ky.
Proof. exact refines_cas. Qed.
Print Assumptions C15_refines_cas.

(* a refused call changes no record of any store; PARTIAL for the path values: they are untouched only when the
   store has none or the call passes none (negated signature of F-08) *)
Theorem C15_refused_write_changes_nothing_partial : forall k st op o st' c o' b,
  reachable k st -> step k op o st = (st', c, o', b) -> c <> COk ->
  s_logs st' = s_logs st /\ s_clock st' = s_clock st /\
  (has_values k = false \/ o_vals o = None -> s_pvs st' = s_pvs st /\ s_apvs st' = s_apvs st).
Proof. exact refused_changes_no_record. Qed.
Print Assumptions C15_refused_write_changes_nothing_partial.

(* F-08: the configuration store writes the path values before the version check: a stale Update is refused
   with Conflict and has rewound /z from 2@2 to 1@1 *)
Theorem C15_refused_update_rewrites_values_refuted :
  exists k cs, map fst (snd (run k init cs)) = [COk; COk; CConflict] /\
    get_pvs (B "c") (s_pvs (fst (run k init (firstn 2 cs)))) = [(B "/z", pv1 2 2)] /\
    get_pvs (B "c") (s_pvs (fst (run k init cs))) = [(B "/z", pv1 1 1)].
Proof. exact refused_update_rewrites_values_refuted. Qed.
Print Assumptions C15_refused_update_rewrites_values_refuted.

(* v3 configuration store, current code (/repo 2aad659: every iteration of configurationStore.store works on its own
   copy of the path value; the model's oracle o_last = []): each written path receives its own value, as in v2 *)
Theorem C15_v3_values_stored_as_written : forall vals m, store_vals_v3 [] vals m = store_vals vals m.
Proof. exact v3_values_own_copy. Qed.
Print Assumptions C15_v3_values_stored_as_written.

(* v3 configuration store BEFORE the repair 2aad659 (shared go 1.19 loop variable handed to a transaction that encodes
   at Commit; oracle o_last = the path visited last): one accepted Create with two paths stored one path's value
   under both (finding F-C15-2, fixed) *)
Theorem C15_v3_values_aliased_before_repair :
  exists o, o_vals o = Some [(B "/a", pv1 5 1); (B "/c", pv1 48 3)] /\
    snd (fst (fst (step CfgV3 OCreate o init))) = COk /\
    get_pvs (o_key o) (s_pvs (fst (fst (fst (step CfgV3 OCreate o init))))) = [(B "/a", pv1 5 1); (B "/c", pv1 5 1)].
Proof. exact v3_values_aliased_before_repair. Qed.
Print Assumptions C15_v3_values_aliased_before_repair.

(* UNBOUNDED: for EVERY schedule (any length, any interleaving of any number of writes with the steps of any number
   of Watch calls - with replay / without, all records / one record -, of the event loop, the goroutines and
   cancellations; repaired and unrepaired cancel path), whenever the reached world is quiescent (event stream empty,
   loop idle, every watcher that is not cancelled back in its select) every such watcher was last shown the current
   version of every record it is entitled to *)
Theorem C15_watch_latest : forall fixed ls, watch_ok (wrun fixed false w0 ls) = true.
Proof. exact watch_latest. Qed.
Print Assumptions C15_watch_latest.

(* the same with watch_ok spelled out *)
Theorem C15_watch_latest_explicit : forall fixed ls,
  let g := wrun fixed false w0 ls in
  quiescent g = true ->
  forall w, In w (g_ws g) -> w_cancelled w = false ->
  forall k v, In (k, v) (g_store g) -> entitled w g k = true -> last_for k (w_delivered w) = Some v.
Proof. exact watch_latest_explicit. Qed.
Print Assumptions C15_watch_latest_explicit.

(* the inductive invariant behind it, true at EVERY moment of every schedule: for a watcher that is not cancelled and
   has taken its replay snapshot (or needs none), what it was shown ++ what its goroutine still holds (rest of the
   replay / event being forwarded) ++ the event the loop still has to hand to it ++ the Atomix event stream ends,
   for every record it is entitled to, with the CURRENT version: the latest state is delivered or on its way, never lost *)
Theorem C15_watch_never_loses : forall fixed ls,
  let g := wrun fixed false w0 ls in
  forall w, In w (g_ws g) -> w_cancelled w = false -> w_phase w <> WReg ->
  forall k v, In (k, v) (g_store g) -> entitled w g k = true ->
  last_for k (stream (g_queue g) (g_loop g) w) = Some v.
Proof. exact watch_never_loses. Qed.
Print Assumptions C15_watch_never_loses.

(* the statements are not vacuous: a quiescent reachable world with two records, a replaying all-records watcher
   and a live one-record watcher, both with deliveries *)
Theorem C15_watch_latest_nonvacuous :
  let g := wrun true false w0 nontrivial_schedule in
  quiescent g = true /\
  g_store g = [(0, 1); (1, 3)] /\
  map (fun w => (w_id w, w_cancelled w, w_delivered w)) (g_ws g) =
    [(1, false, [{| ev_key := 0; ev_ver := 1 |}; {| ev_key := 1; ev_ver := 3 |}; {| ev_key := 0; ev_ver := 1 |};
                 {| ev_key := 1; ev_ver := 2 |}; {| ev_key := 1; ev_ver := 3 |}]);
     (2, false, [{| ev_key := 1; ev_ver := 2 |}; {| ev_key := 1; ev_ver := 3 |}])].
Proof. exact watch_latest_nontrivial. Qed.
Print Assumptions C15_watch_latest_nonvacuous.

(* BOUNDED, superseded by C15_watch_latest (kept): for every interleaving of up to 7 / 8 / 6 steps of writes with the
   steps of Watch, event loop, watcher and cancellation, at quiescence every open watcher was last shown the current
   version of every record it is entitled to - checked by exhaustive exploration inside Coq.  Nothing is missing any
   more: the inductive invariant over unbounded schedules is C15_watch_never_loses. *)
Theorem C15_watch_latest_bounded :
  forallb watch_ok (explore true alphabet_replay_all 7 w0) = true /\
  forallb watch_ok (explore true alphabet_replay_one 7 w0) = true /\
  forallb watch_ok (explore true alphabet_live_one 8 w0) = true /\
  forallb watch_ok (explore true alphabet_two 6 w0) = true /\
  forallb watch_ok (explore false alphabet_two 6 w0) = true.
Proof. exact watch_latest_bounded. Qed.
Print Assumptions C15_watch_latest_bounded.

(* HYPOTHETICAL order, never the code of /repo (swapped = true: replay snapshot BEFORE the listener is registered): an
   update between the two is never shown.  Kept because it shows what C15_watch_never_loses rests on; the harness
   probe write-during-replay forces exactly this schedule on the real stores. *)
Theorem C15_watch_swapped_order_hypothetical :
  let g := wrun true true w0 swapped_schedule in quiescent g = true /\ watch_ok g = false.
Proof. exact swapped_order_misses_update. Qed.
Print Assumptions C15_watch_swapped_order_hypothetical.

(* UNBOUNDED, repaired code (fixed = true): a cancelled watcher never blocks the event loop.  From EVERY reachable
   world - any number of watchers cancelled at any point of their replay, select or send - there is a schedule of
   loop and goroutine steps only (no write, no open, no cancel needed) that reaches a quiescent world with the same
   store and clock, in which every watcher that is not cancelled was last shown the current version of every record
   it is entitled to.  (For the code before the repair the opposite holds: C15_cancel_isolated_refuted.) *)
Theorem C15_cancel_isolated : forall ls,
  let g := wrun true false w0 ls in
  exists ls', forallb internal ls' = true /\
    let g' := wrun true false g ls' in
    quiescent g' = true /\ g_store g' = g_store g /\ g_clock g' = g_clock g /\
    forall w, In w (g_ws g') -> w_cancelled w = false ->
    forall k v, In (k, v) (g_store g') -> entitled w g' k = true -> last_for k (w_delivered w) = Some v.
Proof. exact cancel_isolated. Qed.
Print Assumptions C15_cancel_isolated.

(* safety form: in the repaired model no goroutine has ever gone without leaving a drainer (WStuck is unreachable),
   and the listener the loop is waiting for always exists and, once in its select or drained, takes the event *)
Theorem C15_no_dead_listener : forall ls,
  let g := wrun true false w0 ls in
  (forall w, In w (g_ws g) -> w_phase w <> WStuck) /\
  (forall e id rest, g_loop g = LSend e (id :: rest) ->
     exists w, find_w id (g_ws g) = Some w /\ w_phase w <> WStuck /\
       (stable (w_phase w) = true -> g_loop (wstep true false g SSend) = after_targets e rest)).
Proof. exact no_dead_listener. Qed.
Print Assumptions C15_no_dead_listener.

(* one-step statements, superseded by C15_cancel_isolated (kept):
   cancelling touches neither the store, nor the event stream, nor the loop, nor any other watcher ... *)
Theorem C15_cancel_touches_nobody_else : forall fixed g id l, l = SCancel id \/ l = SClose id ->
  let g' := wstep fixed false g l in
  g_store g' = g_store g /\ g_clock g' = g_clock g /\ g_queue g' = g_queue g /\ g_loop g' = g_loop g /\
  forall w, In w (g_ws g) -> w_id w <> id -> In w (g_ws g').
Proof. exact cancel_touches_nobody_else. Qed.
Print Assumptions C15_cancel_touches_nobody_else.

(* ... and a cancelled watcher with a drainer never holds the loop up *)
Theorem C15_drained_listener_never_blocks : forall fixed g e id rest w,
  g_loop g = LSend e (id :: rest) -> find_w id (g_ws g) = Some w -> w_phase w = WDrained ->
  g_loop (wstep fixed false g SSend) = after_targets e rest /\ g_ws (wstep fixed false g SSend) = g_ws g.
Proof. exact drained_listener_never_blocks. Qed.
Print Assumptions C15_drained_listener_never_blocks.

(* F-10 (fixed): the code BEFORE the repairs 23bac70 / d4508c1 (fixed = false: a cancel seen during the replay ends the
   goroutine without a drainer) left the event loop parked for ever: after the schedule, NO continuation of any
   length by any component reaches quiescence again.  The current code is C15_cancel_isolated / C15_no_dead_listener. *)
Theorem C15_cancel_isolated_before_repair :
  forall ls, let g := wrun false false (wrun false false w0 f10_schedule) ls in
  quiescent g = false /\ g_loop g = LSend {| ev_key := 0; ev_ver := 3 |} [1; 2].
Proof. exact cancel_isolated_refuted. Qed.
Print Assumptions C15_cancel_isolated_before_repair.

(* C16 - textual paths and gNMI paths are one and the same.
   Model: Model/Path.v (transcription of pkg/utils/gnmiPathUtils.go, pkg/utils/path/path.go and the
   path handling of the Set / Get handlers); proofs: Proofs/PathProofs{,2,3}.v. *)
From Coq Require Import List NArith Bool.
From OC Require Import Base.Bytes Model.Path Proofs.PathProofs Proofs.PathProofs2 Proofs.PathProofs3.
Import ListNotations.

(* text -> path gives back the elements and keys, for every well-formed path (all names, all key
   values incl. escape-worthy characters and multi-byte text; wf_gpath is the weakest condition) *)
Theorem C16_roundtrip : forall p, wf_gpath p = true -> parse_path (str_path p) = ROk p.
Proof. exact roundtrip. Qed.
Print Assumptions C16_roundtrip.

(* two different well-formed paths never share a textual form *)
Theorem C16_injective : forall p q,
  wf_gpath p = true -> wf_gpath q = true -> str_path p = str_path q -> p = q.
Proof. exact injective. Qed.
Print Assumptions C16_injective.

(* splitting respects brackets and escapes: the tokens are exactly the rendered elements *)
Theorem C16_split : forall p, wf_gpath p = true -> split_path (str_path p) = map render p.
Proof. exact split_path_str_path. Qed.
Print Assumptions C16_split.

(* the parent of a path is that path without its last element - when the last element has no '/' *)
Theorem C16_parent_partial : forall p e,
  slash_free e = true -> get_parent (str_path_elem (p ++ [e])) = str_path_elem p.
Proof. exact parent_of_path. Qed.
Print Assumptions C16_parent_partial.

(* ... and not otherwise: key values containing '/' round-trip but are mis-parented, and Get PROTO's
   strings.Split re-parser breaks them *)
Theorem C16_parent_refuted :
  exists p e, wf_gpath (p ++ [e]) = true /\ get_parent (str_path_elem (p ++ [e])) <> str_path_elem p.
Proof. exact parent_refuted. Qed.
Print Assumptions C16_parent_refuted.

Theorem C16_get_proto_refuted :
  exists p, wf_gpath p = true /\ parse_path (str_path p) = ROk p /\ create_update_path (str_path p) <> ROk p.
Proof. exact get_proto_refuted. Qed.
Print Assumptions C16_get_proto_refuted.

(* for everything the Set handler accepts (YANG-identifier names, key values over
   IndexAllowedChars) the stored text StrPath(prefix)++StrPath(path) is parsed back to the client's
   elements by BOTH re-parsers: SplitPath+ParseGNMIElements (SetResponse, southbound request) and
   createUpdate's strings.Split (Get PROTO); and its parent is the path without its last element *)
Theorem C16_accepted_end_to_end : forall pre q,
  q <> [] -> accepted_gpath (pre ++ q) = true ->
  let stored := set_path_text pre q in
  wf_gpath (pre ++ q) = true /\
  parse_path stored = ROk (pre ++ q) /\
  create_update_path stored = ROk (pre ++ q).
Proof. exact accepted_end_to_end. Qed.
Print Assumptions C16_accepted_end_to_end.

Theorem C16_accepted_parent : forall p e,
  accepted_gpath (p ++ [e]) = true -> get_parent (str_path_elem (p ++ [e])) = str_path_elem p.
Proof. exact accepted_parent. Qed.
Print Assumptions C16_accepted_parent.

(* a key value containing '/' is never over the accepted alphabet *)
Theorem C16_slash_not_accepted : forall v, has c_slash v = true -> index_allowed v = false.
Proof. exact slash_not_index_allowed. Qed.
Print Assumptions C16_slash_not_accepted.

(* findUnescaped: the fast track and the escape-aware loop agree *)
Theorem C16_fast_path_agrees : forall c s, find_unescaped c s = find_slow c s.
Proof. exact find_unescaped_slow. Qed.
Print Assumptions C16_fast_path_agrees.

(* wf_gpath cannot be weakened: dropping any conjunct admits a path that does not come back *)
Theorem C16_wf_necessary :
  rt_fails [el (B "a[b") []] /\
  rt_fails [el (B "a") []; el [] []] /\
  rt_fails [el [] [(B "k", B "v")]; el (B "a") []] /\
  rt_fails [el (B "a") [(B "k2", B "1"); (B "k1", B "2")]] /\
  rt_fails [el (B "a") [(B "k", B "1"); (B "k", B "2")]] /\
  rt_fails [el (B "a") [([], B "v")]] /\
  rt_fails [el (B "a") [(B "k=", B "v")]] /\
  rt_fails [el (B "a") [(B "k\", B "v")]] /\
  rt_fails [el (B "a") [(B "k", [])]] /\
  rt_fails [el (B "a") [(B "k]", B "x/y")]].
Proof. exact wf_necessary. Qed.
Print Assumptions C16_wf_necessary.

(* the hypotheses are inhabited by non-trivial inputs *)
Theorem C16_hypotheses_inhabited : wf_gpath sample_path = true /\ accepted_gpath sample_accepted = true.
Proof. exact (conj sample_path_wf sample_accepted_ok). Qed.
Print Assumptions C16_hypotheses_inhabited.

(* model hygiene: the artificial outcomes (indexing an empty string, running out of loop fuel)
   never occur, for any text *)
Theorem C16_parsers_total : forall s,
  (parse_path s <> RPanic /\ parse_path s <> RFuel) /\
  (create_update_path s <> RPanic /\ create_update_path s <> RFuel).
Proof. exact parsers_total. Qed.
Print Assumptions C16_parsers_total.

Theorem C16_split_fuel_irrelevant : forall path fuel,
  (List.length (strip_slash path) < fuel)%nat -> split_loop fuel (strip_slash path) = split_path path.
Proof. exact split_path_fuel. Qed.
Print Assumptions C16_split_fuel_irrelevant.

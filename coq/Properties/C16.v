(* C16 - textual paths and gNMI paths are one and the same.
   Model: Model/Path.v (transcription of pkg/utils/gnmiPathUtils.go, pkg/utils/path/path.go and the
   path handling of the Set / Get handlers); proofs: Proofs/PathProofs{,2,3}.v.

   All theorems are about the CURRENT code of /repo; none is a refutation of the property.  The positive
   statements are C16_roundtrip, C16_injective, C16_split, C16_parent, C16_accepted_end_to_end and
   C16_accepted_parent.  C16_parent_outside_accepted / C16_get_proto_outside_accepted record what the
   bracket-unaware helpers do with key values containing '/', which the Set handler refuses (findings F-11,
   F-16a, F-16b, repaired in /repo by 7b08917 and a2a122e; no open finding). *)
From Coq Require Import List NArith Bool.
From OC Require Import Base.Bytes Model.Path Proofs.PathProofs Proofs.PathProofs2 Proofs.PathProofs3.
Import ListNotations.

(* text -> path gives back the elements and keys, for every well-formed path (all names, all key
   values incl. escape-worthy characters and multi-byte text; wf_gpath is the weakest condition) *)
Theorem C16_roundtrip : forall p, wf_gpath p = true -> parse_path (str_path p) = ROk p.
Proof. exact roundtrip. Qed.
Print Assumptions C16_roundtrip.

(* two different well-formed paths never share a textual form *)
Theorem C16_injective : forall p q,
  wf_gpath p = true -> wf_gpath q = true -> str_path p = str_path q -> p = q.
Proof. exact injective. Qed.
Print Assumptions C16_injective.

(* splitting respects brackets and escapes: the tokens are exactly the rendered elements *)
Theorem C16_split : forall p, wf_gpath p = true -> split_path (str_path p) = map render p.
Proof. exact split_path_str_path. Qed.
Print Assumptions C16_split.

(* the parent of a path is that path without its last element, whenever the text of the last element has no '/'
   (every element the Set handler accepts is such: C16_accepted_parent below) *)
Theorem C16_parent : forall p e,
  slash_free e = true -> get_parent (str_path_elem (p ++ [e])) = str_path_elem p.
Proof. exact parent_of_path. Qed.
Print Assumptions C16_parent.

(* Still true of the CURRENT code, and not a finding: GetParentPath (LastIndex "/") and createUpdate's
   strings.Split re-parser are not bracket-aware, so a path whose key value contains '/' - which does round-trip
   through SplitPath/ParseGNMIElements - is mis-parented and is broken by Get PROTO.  Such a path is OUTSIDE what
   the system accepts (accepted_gpath = false: the value fails IndexAllowedChars, C16_slash_not_accepted), and the
   Set handler refuses it on both routes since /repo 7b08917 (updates: CheckKeyValue validates every index value;
   finding F-11) and /repo a2a122e (deletes: doDelete validates index values; findings F-16a, F-16b); the
   end-to-end stream of the check monitors exactly that refusal (c16_update_slash_key_accepted,
   c16_delete_slash_key_accepted, c16_stored_but_not_reported).  Environment assumption that remains: path texts
   that the model plugin derives from JSON values are stored without passing that gate; the plugin is outside
   /repo and is assumed to render key values over the accepted alphabet. *)
Theorem C16_parent_outside_accepted :
  exists p e, wf_gpath (p ++ [e]) = true /\ accepted_gpath (p ++ [e]) = false /\
              get_parent (str_path_elem (p ++ [e])) <> str_path_elem p.
Proof. exact parent_outside_accepted. Qed.
Print Assumptions C16_parent_outside_accepted.

Theorem C16_get_proto_outside_accepted :
  exists p, wf_gpath p = true /\ accepted_gpath p = false /\
            parse_path (str_path p) = ROk p /\ create_update_path (str_path p) <> ROk p.
Proof. exact get_proto_outside_accepted. Qed.
Print Assumptions C16_get_proto_outside_accepted.

(* for everything the Set handler accepts (YANG-identifier names, key values over
   IndexAllowedChars) the stored text StrPath(prefix)++StrPath(path) is parsed back to the client's
   elements by BOTH re-parsers: SplitPath+ParseGNMIElements (SetResponse, southbound request) and
   createUpdate's strings.Split (Get PROTO); and its parent is the path without its last element *)
Theorem C16_accepted_end_to_end : forall pre q,
  q <> [] -> accepted_gpath (pre ++ q) = true ->
  let stored := set_path_text pre q in
  wf_gpath (pre ++ q) = true /\
  parse_path stored = ROk (pre ++ q) /\
  create_update_path stored = ROk (pre ++ q).
Proof. exact accepted_end_to_end. Qed.
Print Assumptions C16_accepted_end_to_end.

Theorem C16_accepted_parent : forall p e,
  accepted_gpath (p ++ [e]) = true -> get_parent (str_path_elem (p ++ [e])) = str_path_elem p.
Proof. exact accepted_parent. Qed.
Print Assumptions C16_accepted_parent.

(* a key value containing '/' is never over the accepted alphabet *)
Theorem C16_slash_not_accepted : forall v, has c_slash v = true -> index_allowed v = false.
Proof. exact slash_not_index_allowed. Qed.
Print Assumptions C16_slash_not_accepted.

(* findUnescaped: the fast track and the escape-aware loop agree *)
Theorem C16_fast_path_agrees : forall c s, find_unescaped c s = find_slow c s.
Proof. exact find_unescaped_slow. Qed.
Print Assumptions C16_fast_path_agrees.

(* wf_gpath cannot be weakened: dropping any conjunct admits a path that does not come back *)
Theorem C16_wf_necessary :
  rt_fails [el (B "a[b") []] /\
  rt_fails [el (B "a") []; el [] []] /\
  rt_fails [el [] [(B "k", B "v")]; el (B "a") []] /\
  rt_fails [el (B "a") [(B "k2", B "1"); (B "k1", B "2")]] /\
  rt_fails [el (B "a") [(B "k", B "1"); (B "k", B "2")]] /\
  rt_fails [el (B "a") [([], B "v")]] /\
  rt_fails [el (B "a") [(B "k=", B "v")]] /\
  rt_fails [el (B "a") [(B "k\", B "v")]] /\
  rt_fails [el (B "a") [(B "k", [])]] /\
  rt_fails [el (B "a") [(B "k]", B "x/y")]].
Proof. exact wf_necessary. Qed.
Print Assumptions C16_wf_necessary.

(* the hypotheses are inhabited by non-trivial inputs *)
Theorem C16_hypotheses_inhabited : wf_gpath sample_path = true /\ accepted_gpath sample_accepted = true.
Proof. exact (conj sample_path_wf sample_accepted_ok). Qed.
Print Assumptions C16_hypotheses_inhabited.

(* model hygiene: the artificial outcomes (indexing an empty string, running out of loop fuel)
   never occur, for any text *)
Theorem C16_parsers_total : forall s,
  (parse_path s <> RPanic /\ parse_path s <> RFuel) /\
  (create_update_path s <> RPanic /\ create_update_path s <> RFuel).
Proof. exact parsers_total. Qed.
Print Assumptions C16_parsers_total.

Theorem C16_split_fuel_irrelevant : forall path fuel,
  (List.length (strip_slash path) < fuel)%nat -> split_loop fuel (strip_slash path) = split_path path.
Proof. exact split_path_fuel. Qed.
Print Assumptions C16_split_fuel_irrelevant.

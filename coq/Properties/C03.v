(* C03 - Stored configuration is the gNMI-sequential effect of acknowledged Sets.
   Statements only; proofs live in Proofs/MergeProofs.v, PathProofs.v, PruneProofs.v, StoreProofs.v, CommitProofs.v,
   CommitExample.v, MergeRefute.v, WildcardProofs.v.

   Proved for ALL inputs (repaired code, 3126412 / 6e6477b / 6c3f66e):
   - C03_commit_refines: the live leaves a Get reads after reconcileCommit has merged a change map into ANY stored
     map and the configuration store has written the result are exactly those of one gNMI request applied to the
     leaves before: an update sets its leaf, a delete removes the node and what lies strictly beneath it at a path
     element boundary, nothing else changes - whatever the Go map iteration orders.  There is no hypothesis about
     stored tombstones: a value written beneath a path deleted earlier is there afterwards.
   - C03_merge_refines / C03_order_independent: the same for the in-memory merge alone, and its independence of
     the iteration order of both maps.
   - C03_get_exact_literal, C03_siblings_unaffected, C03_children_below, C03_applied_separate.
   Refuted with concrete witnesses (open finding F-14-C03): a request that deletes a path and updates it or
   something beneath it (C03_order_refuted, C03_overlap_store_refuted, C03_same_path_refuted) - hence no_overlap.
   NOT proved (covered by the differential and end-to-end checks only): that the store write re-establishes `clean`
   (so no theorem over whole histories), wildcard queries, the abstraction of textual paths to element lists. *)
From Coq Require Import List NArith Bool Permutation String.
Local Open Scope string_scope.
From OC Require Import Base.Bytes Model.Merge Model.CfgStore Model.Wildcard
     Proofs.MergeProofs Proofs.PathProofs Proofs.CommitProofs Proofs.CommitExample Proofs.MergeRefute Proofs.WildcardProofs.
Import ListNotations.
Open Scope N_scope.
Open Scope list_scope.

(* keys_ok m: every key is the path of its value; nodup m: keys are distinct (it is a Go map);
   no_overlap ch: no live value of the request lies beneath a deleted value of the same request;
   live m p: the value a Get shows for p (None for absent or deleted);
   spec_live_fun V ch p := match ch[p] with Some c => live_of c
                           | None => if some delete d of ch has p strictly beneath it (and V holds p) then None else live V p *)
Theorem C03_merge_refines : forall idx V ch,
  keys_ok V -> nodup V -> keys_ok ch -> nodup ch -> no_overlap ch ->
  forall p, live (commit_merge idx ch V) p = spec_live_fun V ch p.
Proof. exact merge_refines_eq. Qed.
Print Assumptions C03_merge_refines.

Theorem C03_order_independent : forall idx V V' ch ch',
  keys_ok V -> nodup V -> keys_ok ch -> nodup ch -> no_overlap ch ->
  Permutation V V' -> Permutation ch ch' ->
  forall p, live (commit_merge idx ch' V') p = live (commit_merge idx ch V) p.
Proof. exact merge_order_independent. Qed.
Print Assumptions C03_order_independent.

Theorem C03_get_exact_literal : forall values q,
  plain q = true -> q <> [] -> q <> [c_slash] -> ends_with [c_slash] q = false ->
  get_filter values q =
  filter (fun pv => (eqb_str (pv_path pv) q || is_path_below (pv_path pv) q) && negb (pv_deleted pv)) (map snd values).
Proof. exact get_filter_literal. Qed.
Print Assumptions C03_get_exact_literal.

(* names that merely share a textual prefix are unaffected; children and list entries are beneath *)
Theorem C03_siblings_unaffected : forall a c r,
  a <> [] -> a <> [c_slash] -> is_boundary c = false -> is_path_below (a ++ c :: r) a = false.
Proof. exact sibling_not_below. Qed.
Print Assumptions C03_siblings_unaffected.

Theorem C03_children_below : forall a c r,
  a <> [] -> a <> [c_slash] -> is_boundary c = true -> is_path_below (a ++ c :: r) a = true.
Proof. exact child_below. Qed.
Print Assumptions C03_children_below.

(* ---- commit + store write: what Get reads afterwards.
   proper_keys: no key is "" or "/";  clean M: no live stored value lies beneath a stored tombstone;
   leaf_ok M ch: a live stored value is a leaf (no stored path and no path of the request lies beneath it);
   fresh_index: the change values carry the transaction index, the stored values older ones *)
Theorem C03_commit_refines : forall idx M ch,
  keys_ok M -> nodup M -> proper_keys M -> clean M ->
  keys_ok ch -> nodup ch -> proper_keys ch -> no_overlap ch ->
  leaf_ok M ch -> fresh_index idx M ch ->
  forall p, live (persist_commit M idx ch) p = spec_live_fun M ch p.
Proof. exact commit_store_refines. Qed.
Print Assumptions C03_commit_refines.

(* the hypotheses are satisfiable by a stored map that holds tombstones, with a request re-creating values beneath them *)
Theorem C03_commit_refines_inhabited :
  keys_ok exM /\ nodup exM /\ proper_keys exM /\ clean exM /\ keys_ok exCh /\ nodup exCh /\ proper_keys exCh /\
  no_overlap exCh /\ leaf_ok exM exCh /\ fresh_index 3 exM exCh /\
  map_get (B "/a") exM = Some (mkPV (B "/a") [] true 2) /\
  live (persist_commit exM 3 exCh) (B "/a/b") = Some (B "2") /\
  live (persist_commit exM 3 exCh) (B "/l[k=2]/v") = Some (B "2") /\
  live (persist_commit exM 3 exCh) (B "/a/c/d") = None /\
  live (persist_commit exM 3 exCh) (B "/x") = None.
Proof. exact commit_store_example. Qed.
Print Assumptions C03_commit_refines_inhabited.

(* re-creation beneath a deleted ancestor (formerly refuted, F-07c-C03): through whole Set cycles of the store
   model, incl. the inline copies and a later status update, the value stays and the tombstone is gone *)
Theorem C03_recreate_kept :
  live (view_values r2) (B "/a/b") = None /\
  live (view_values r3) (B "/a/b") = Some (B "2") /\
  live (view_values r4) (B "/a/b") = Some (B "2") /\
  live (view_values r5) (B "/a/b") = Some (B "2") /\
  map_get (B "/a") (cs_map r3) = None.
Proof. exact recreate_kept_example. Qed.
Print Assumptions C03_recreate_kept.

Theorem C03_recreate_list_kept :
  live (view_values q2) (B "/l[k=1]/v") = None /\
  live (view_values q4) (B "/l[k=1]/v") = Some (B "2") /\
  live (view_values q4) (B "/m[k1=a][k2=c]/v") = Some (B "2") /\
  live (view_values q4) (B "/m[k1=a][k2=b]/v") = None.
Proof. exact recreate_list_kept_example. Qed.
Print Assumptions C03_recreate_list_kept.

(* the elements the repaired code scans are exactly the IsPathBelow ancestors *)
Theorem C03_ancestors_are_below : forall x a, proper a ->
  (In a (boundary_ancestors x) <-> is_path_below x a = true).
Proof. exact ancestor_below. Qed.
Print Assumptions C03_ancestors_are_below.

(* ---- refutations (faithful model; signature c03_delete_update_overlap) *)
Theorem C03_order_refuted :
  Permutation ov1 ov2 /\
  live (commit_merge 2 ov1 ovV) (B "/a/b") <> live (commit_merge 2 ov2 ovV) (B "/a/b").
Proof. exact overlap_order_refuted. Qed.
Print Assumptions C03_order_refuted.

Theorem C03_overlap_store_refuted : live (persist_commit ovV 2 ov1) (B "/a/b") = None.
Proof. exact overlap_store_refuted. Qed.
Print Assumptions C03_overlap_store_refuted.

Theorem C03_same_path_refuted :
  map_get (B "/x") (compute_change [(B "/x", B "2")] [B "/x"]) = Some (mkPV (B "/x") [] true 0).
Proof. exact same_path_refuted. Qed.
Print Assumptions C03_same_path_refuted.

(* the aliasing of committed and applied values is repaired (6c3f66e): neither a status update nor the recording
   of applied values changes the committed map *)
Theorem C03_applied_separate : forall s idx ch,
  cs_map (apply_update s idx ch) = cs_map s /\ cs_map (status_update s) = cs_map s.
Proof. intros s idx ch. split; [apply apply_keeps_committed | apply status_keeps_committed]. Qed.
Print Assumptions C03_applied_separate.

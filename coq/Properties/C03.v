(* C03 - Stored configuration is the gNMI-sequential effect of acknowledged Sets.
   Statements only; proofs live in Proofs/MergeProofs.v, TextPathProofs.v, PruneProofs.v, StoreProofs.v, CommitProofs.v,
   CommitExample.v, MergeRefute.v, WildcardProofs.v, and (histories, abstraction) StoreFullProofs.v, CommitPreserve.v,
   CommitHistory.v, CommitHistoryEx.v, PathAbstraction.v, PathAbstractionC16.v, GnmiHistory.v, GnmiHistoryEx.v,
   (wildcards) WildcardElements.v, GnmiGet.v, GnmiGetEx.v, (reader's view) CfgViewProofs.v.

   Proved for ALL inputs (repaired code, 3126412 / 6e6477b / 6c3f66e / 13d170a: a deleted value leaves its deleted
   ancestors in place, only a live value removes them):
   - C03_commit_refines: the live leaves a Get reads after reconcileCommit has merged a change map into ANY stored
     map and the configuration store has written the result are exactly those of one gNMI request applied to the
     leaves before: an update sets its leaf, a delete removes the node and what lies strictly beneath it at a path
     element boundary, nothing else changes - whatever the Go map iteration orders.  There is no hypothesis about
     stored tombstones: a value written beneath a path deleted earlier is there afterwards.
   - C03_commit_preserves: the commit + store write RE-ESTABLISH the hypotheses of C03_commit_refines (keys = paths,
     distinct, proper, `clean`, indexes below the next transaction's) and the stored map names / holds live only what the
     old map or the request named / updated.
   - C03_history (UNBOUNDED, every list of requests): folding commit + store write from the empty store over any
     history satisfying the per-request guards (history_ok: keys = paths, distinct, proper, no update beneath a delete
     of the same request, values stamped with strictly increasing transaction indexes, leaf discipline = no request
     names a path strictly beneath a path some request updates) gives live = the fold of the sequential text-level
     effect spec_step, which never looks at what is stored.  C03_history_invariant: the store is clean etc. after
     every such history; C03_history_inhabited: a 5-request history with container / whole-list / partial-key deletes
     and re-creation satisfies the guards.
   - C03_elements_history (UNBOUNDED, against Spec/Gnmi.v which shares nothing with the model): for every history of
     requests given on ELEMENT LISTS (steps), rendered to text as the Set handler does and turned into change maps by
     computeChange + the transaction index, what Get reads at the text of ANY well-formed path is what the reference
     gnmi_history holds for that path; C03_elements_complete: nothing else is live in the store.
   - C03_below_is_proper_prefix / C03_render_injective: the abstraction from text to element lists - for well-formed
     steps (no '/' '[' in names, no '=' in key names, no ']' in key values, names not empty) IsPathBelow on the texts
     is exactly "proper prefix of the steps" (container above children, key-less list name above every entry, leading
     keys above the entries having them), and distinct paths have distinct texts; C03_accepted_paths: every gNMI path
     the Set handler accepts (C16's accepted_gpath) prints (utils.StrPath) as the rendering of well-formed steps.
   - C03_merge_refines / C03_order_independent: the same for the in-memory merge alone, and its independence of
     the iteration order of both maps.
   - C03_get_exact_literal, C03_siblings_unaffected, C03_children_below, C03_applied_separate.
   Refuted with concrete witnesses (open finding F-14-C03): a request that deletes a path and updates it or
   something beneath it (C03_order_refuted, C03_overlap_store_refuted, C03_same_path_refuted) - hence no_overlap.
   - C03_get_wildcard (UNBOUNDED): for a query given as query steps (names, keys, "*" as an element name, [k=*], "..." as
     an element; literals over the legal path characters without '.', "..." last or followed by an element name / "*" /
     "...") and printed as text, MatchWildcardRegexp(text) accepts the text of a path (names, key names, key values over
     [a-zA-Z0-9_:,-.]) exactly when the query steps match a prefix of the path's steps (Spec/Gnmi.v qmatch): wildcards
     stop at element boundaries.  C03_get_wildcard_filter: the Get filter returns exactly those live values.
     C03_get_reference: after ANY history as in C03_elements_history whose paths are over the legal characters, the
     leaves Get returns for such a query are exactly the leaves of the reference configuration gnmi_history the query
     matches.  C03_get_wildcard_inhabited: six queries on the example history.
   - C03_view_is_committed / C03_events_refine (UNBOUNDED): along ANY interleaving of acknowledged Sets (status update of
     proposal initialize + commit), further status updates and recordings of applied values, what configurations.Get
     shows (inline copy of the entry overlaid with the Atomix map, view_values) IS the committed map run_history
     produces from the Sets alone, hence its live leaves are the sequential effect of the Sets.
   NOT proved (covered by the differential and end-to-end checks only): writes whose version check fails (stale_update)
   and concurrent writers are outside the event model; queries outside the grammar above ("*" inside a name, a dot in a query literal, "..." before a
   key); key values containing '*' (allowed by IndexAllowedChars, not matched by "*"). *)
From Coq Require Import List NArith Bool Permutation String.
Local Open Scope string_scope.
From OC Require Import Base.Bytes Model.Merge Model.CfgStore Model.Wildcard Model.Path Spec.Gnmi
     Proofs.MergeProofs Proofs.TextPathProofs Proofs.CommitProofs Proofs.CommitExample Proofs.MergeRefute Proofs.WildcardProofs
     Proofs.CommitPreserve Proofs.CommitHistory Proofs.CommitHistoryEx
     Proofs.PathAbstraction Proofs.PathAbstractionC16 Proofs.GnmiHistory Proofs.GnmiHistoryEx
     Proofs.WildcardElements Proofs.GnmiGet Proofs.GnmiGetEx Proofs.CfgViewProofs.
Import ListNotations.
Open Scope N_scope.
Open Scope list_scope.

(* keys_ok m: every key is the path of its value; nodup m: keys are distinct (it is a Go map);
   no_overlap ch: no live value of the request lies beneath a deleted value of the same request;
   live m p: the value a Get shows for p (None for absent or deleted);
   spec_live_fun V ch p := match ch[p] with Some c => live_of c
                           | None => if some delete d of ch has p strictly beneath it (and V holds p) then None else live V p *)
Theorem C03_merge_refines : forall idx V ch,
  keys_ok V -> nodup V -> keys_ok ch -> nodup ch -> no_overlap ch ->
  forall p, live (commit_merge idx ch V) p = spec_live_fun V ch p.
Proof. exact merge_refines_eq. Qed.
Print Assumptions C03_merge_refines.

Theorem C03_order_independent : forall idx V V' ch ch',
  keys_ok V -> nodup V -> keys_ok ch -> nodup ch -> no_overlap ch ->
  Permutation V V' -> Permutation ch ch' ->
  forall p, live (commit_merge idx ch' V') p = live (commit_merge idx ch V) p.
Proof. exact merge_order_independent. Qed.
Print Assumptions C03_order_independent.

Theorem C03_get_exact_literal : forall values q,
  plain q = true -> q <> [] -> q <> [c_slash] -> ends_with [c_slash] q = false ->
  get_filter values q =
  filter (fun pv => (eqb_str (pv_path pv) q || is_path_below (pv_path pv) q) && negb (pv_deleted pv)) (map snd values).
Proof. exact get_filter_literal. Qed.
Print Assumptions C03_get_exact_literal.

(* names that merely share a textual prefix are unaffected; children and list entries are beneath *)
Theorem C03_siblings_unaffected : forall a c r,
  a <> [] -> a <> [c_slash] -> is_boundary c = false -> is_path_below (a ++ c :: r) a = false.
Proof. exact sibling_not_below. Qed.
Print Assumptions C03_siblings_unaffected.

Theorem C03_children_below : forall a c r,
  a <> [] -> a <> [c_slash] -> is_boundary c = true -> is_path_below (a ++ c :: r) a = true.
Proof. exact child_below. Qed.
Print Assumptions C03_children_below.

(* ---- commit + store write: what Get reads afterwards.
   proper_keys: no key is "" or "/";  clean M: no live stored value lies beneath a stored tombstone;
   leaf_ok M ch: a live stored value is a leaf (no stored path and no path of the request lies beneath it);
   fresh_index: the change values carry the transaction index, the stored values older ones *)
Theorem C03_commit_refines : forall idx M ch,
  keys_ok M -> nodup M -> proper_keys M -> clean M ->
  keys_ok ch -> nodup ch -> proper_keys ch -> no_overlap ch ->
  leaf_ok M ch -> fresh_index idx M ch ->
  forall p, live (persist_commit M idx ch) p = spec_live_fun M ch p.
Proof. exact commit_store_refines. Qed.
Print Assumptions C03_commit_refines.

(* the hypotheses are satisfiable by a stored map that holds tombstones, with a request re-creating values beneath them *)
Theorem C03_commit_refines_inhabited :
  keys_ok exM /\ nodup exM /\ proper_keys exM /\ clean exM /\ keys_ok exCh /\ nodup exCh /\ proper_keys exCh /\
  no_overlap exCh /\ leaf_ok exM exCh /\ fresh_index 3 exM exCh /\
  map_get (B "/a") exM = Some (mkPV (B "/a") [] true 2) /\
  live (persist_commit exM 3 exCh) (B "/a/b") = Some (B "2") /\
  live (persist_commit exM 3 exCh) (B "/l[k=2]/v") = Some (B "2") /\
  live (persist_commit exM 3 exCh) (B "/a/c/d") = None /\
  live (persist_commit exM 3 exCh) (B "/x") = None.
Proof. exact commit_store_example. Qed.
Print Assumptions C03_commit_refines_inhabited.

(* re-creation beneath a deleted ancestor (formerly refuted, F-07c-C03): through whole Set cycles of the store
   model, incl. the inline copies and a later status update, the value stays and the tombstone is gone *)
Theorem C03_recreate_kept :
  live (view_values r2) (B "/a/b") = None /\
  live (view_values r3) (B "/a/b") = Some (B "2") /\
  live (view_values r4) (B "/a/b") = Some (B "2") /\
  live (view_values r5) (B "/a/b") = Some (B "2") /\
  map_get (B "/a") (cs_map r3) = None.
Proof. exact recreate_kept_example. Qed.
Print Assumptions C03_recreate_kept.

Theorem C03_recreate_list_kept :
  live (view_values q2) (B "/l[k=1]/v") = None /\
  live (view_values q4) (B "/l[k=1]/v") = Some (B "2") /\
  live (view_values q4) (B "/m[k1=a][k2=c]/v") = Some (B "2") /\
  live (view_values q4) (B "/m[k1=a][k2=b]/v") = None.
Proof. exact recreate_list_kept_example. Qed.
Print Assumptions C03_recreate_list_kept.

(* the elements the repaired code scans are exactly the IsPathBelow ancestors *)
Theorem C03_ancestors_are_below : forall x a, proper a ->
  (In a (boundary_ancestors x) <-> is_path_below x a = true).
Proof. exact ancestor_below. Qed.
Print Assumptions C03_ancestors_are_below.

(* ---- refutations (faithful model; signature c03_delete_update_overlap) *)
Theorem C03_order_refuted :
  Permutation ov1 ov2 /\
  live (commit_merge 2 ov1 ovV) (B "/a/b") <> live (commit_merge 2 ov2 ovV) (B "/a/b").
Proof. exact overlap_order_refuted. Qed.
Print Assumptions C03_order_refuted.

Theorem C03_overlap_store_refuted : live (persist_commit ovV 2 ov1) (B "/a/b") = None.
Proof. exact overlap_store_refuted. Qed.
Print Assumptions C03_overlap_store_refuted.

Theorem C03_same_path_refuted :
  map_get (B "/x") (compute_change [(B "/x", B "2")] [B "/x"]) = Some (mkPV (B "/x") [] true 0).
Proof. exact same_path_refuted. Qed.
Print Assumptions C03_same_path_refuted.

(* the aliasing of committed and applied values is repaired (6c3f66e): neither a status update nor the recording
   of applied values changes the committed map *)
Theorem C03_applied_separate : forall s idx ch,
  cs_map (apply_update s idx ch) = cs_map s /\ cs_map (status_update s) = cs_map s.
Proof. intros s idx ch. split; [apply apply_keeps_committed | apply status_keeps_committed]. Qed.
Print Assumptions C03_applied_separate.

(* ---- the commit re-establishes its own hypotheses.
   older idx M: every stored value has an index below idx;  stamped idx ch: every change value carries idx *)
Theorem C03_commit_preserves : forall idx M ch,
  keys_ok M -> nodup M -> proper_keys M -> clean M ->
  keys_ok ch -> nodup ch -> proper_keys ch -> no_overlap ch ->
  leaf_ok M ch -> older idx M -> stamped idx ch ->
  keys_ok (persist_commit M idx ch) /\ nodup (persist_commit M idx ch) /\ proper_keys (persist_commit M idx ch) /\
  clean (persist_commit M idx ch) /\ older (N.succ idx) (persist_commit M idx ch) /\
  (forall q, In q (map fst (persist_commit M idx ch)) -> In q (map fst ch) \/ In q (map fst M)) /\
  (forall p, live (persist_commit M idx ch) p <> None ->
             (exists c, In (p, c) ch /\ pv_deleted c = false) \/ live M p <> None).
Proof. exact commit_preserves. Qed.
Print Assumptions C03_commit_preserves.

(* ---- whole histories (unbounded).
   run_history M [(i1,ch1);...] = persist_commit (... (persist_commit M i1 ch1) ...) in chn
   spec_step L ch p = match ch[p] with Some c => live_of c | None => if some delete of ch has p strictly beneath it then None else L p
   spec_history L h = fold of spec_step over h
   history_ok h = every request req_ok (keys_ok, nodup, proper_keys, no_overlap, stamped with its index)
                  /\ indexes strictly increasing /\ leaf_discipline (no request names a path strictly beneath an updated path) *)
Theorem C03_history : forall h, history_ok h ->
  forall p, live (run_history [] h) p = spec_history (fun _ => None) h p.
Proof. exact history_refines. Qed.
Print Assumptions C03_history.

Theorem C03_history_invariant : forall h, history_ok h ->
  keys_ok (run_history [] h) /\ nodup (run_history [] h) /\ proper_keys (run_history [] h) /\ clean (run_history [] h) /\
  (forall p, live (run_history [] h) p <> None -> updated (map snd h) p).
Proof. exact history_invariant. Qed.
Print Assumptions C03_history_invariant.

(* from any stored map satisfying the invariant (past = the requests that built it, b = a bound on its indexes) *)
Theorem C03_history_from : forall h past b M,
  st_inv past b M -> Forall req_ok h -> indexes_from b h -> leaf_discipline (past ++ map snd h) ->
  (forall p, live (run_history M h) p = spec_history (live M) h p) /\
  exists b', st_inv (past ++ map snd h) b' (run_history M h).
Proof. exact history_refines_gen. Qed.
Print Assumptions C03_history_from.

Theorem C03_history_inhabited :
  history_ok exH /\
  live (run_history [] exH) (B "/a/b") = Some (B "2") /\
  live (run_history [] exH) (B "/a/c/d") = Some (B "7") /\
  live (run_history [] exH) (B "/l[k=1]/v") = None /\
  live (run_history [] exH) (B "/l[k=2]/v") = Some (B "2") /\
  live (run_history [] exH) (B "/x") = None /\
  live (run_history [] exH) (B "/xy") = Some (B "2") /\
  spec_history (fun _ => None) exH (B "/a/c/d") = Some (B "7") /\
  spec_history (fun _ => None) exH (B "/l[k=1]/v") = None.
Proof. exact history_example. Qed.
Print Assumptions C03_history_inhabited.

(* ---- text <-> element lists.  render [SName a; SName l; SKey k 1; SName v] = "/a/l[k=1]/v";
   spath_wf: names not empty and without '/' '[', key names without '=', key values without ']' *)
Theorem C03_below_is_proper_prefix : forall p q, spath_wf p -> spath_wf q -> q <> [] ->
  is_path_below (PathAbstraction.render p) (PathAbstraction.render q) = sprefix q p && negb (eqb_spath q p).
Proof. exact below_is_proper_sprefix. Qed.
Print Assumptions C03_below_is_proper_prefix.

Theorem C03_render_injective : forall p q, spath_wf p -> spath_wf q ->
  PathAbstraction.render p = PathAbstraction.render q -> p = q.
Proof. exact render_injective. Qed.
Print Assumptions C03_render_injective.

(* every path the Set handler accepts prints as the rendering of well-formed steps (name, then keys sorted by name) *)
Theorem C03_accepted_paths : forall p, accepted_gpath p = true ->
  str_path p = PathAbstraction.render (steps_of p) /\ spath_wf (steps_of p) /\ steps_of p <> [].
Proof. exact accepted_path_steps. Qed.
Print Assumptions C03_accepted_paths.

(* ---- the stored configuration against the reference semantics Spec/Gnmi.v (unbounded).
   text_req (i, r) = (i, with_index i (compute_change (rendered updates of r) (rendered deletes of r)))
   ghistory_ok h = every request: well-formed non-empty paths, no path twice, no update at or beneath a delete;
                   indexes strictly increasing; an updated path is never a proper prefix of a named path *)
Theorem C03_elements_history : forall h, ghistory_ok h ->
  forall sp, spath_wf sp ->
  live (run_history [] (map text_req h)) (PathAbstraction.render sp) = glookup (gnmi_history [] (map snd h)) sp.
Proof. exact elements_history_refines. Qed.
Print Assumptions C03_elements_history.

Theorem C03_elements_complete : forall h, ghistory_ok h ->
  forall p, live (run_history [] (map text_req h)) p <> None ->
  exists sp, gupdated (map snd h) sp /\ p = PathAbstraction.render sp.
Proof. exact elements_history_complete. Qed.
Print Assumptions C03_elements_complete.

Theorem C03_elements_inhabited :
  ghistory_ok exG /\
  PathAbstraction.render [nm "m"; ky "k1" "a"; ky "k2" "b"; nm "v"] = B "/m[k1=a][k2=b]/v" /\
  glookup (gnmi_history [] (map snd exG)) [nm "a"; nm "c"; nm "d"] = Some (B "7") /\
  live (run_history [] (map text_req exG)) (B "/a/c/d") = Some (B "7") /\
  live (run_history [] (map text_req exG)) (B "/l[k=1]/v") = None /\
  live (run_history [] (map text_req exG)) (B "/l[k=2]/v") = Some (B "2") /\
  live (run_history [] (map text_req exG)) (B "/m[k1=a][k2=b]/v") = None /\
  live (run_history [] (map text_req exG)) (B "/m[k1=c][k2=b]/v") = Some (B "8") /\
  live (run_history [] (map text_req exG)) (B "/x") = None /\
  live (run_history [] (map text_req exG)) (B "/xy") = Some (B "2").
Proof. exact elements_history_example. Qed.
Print Assumptions C03_elements_inhabited.

(* ---- Get with wildcards.  qrender [QName a; QAnyName; QKey k 1; QAnyKey j; QDeep] = "/a/*[k=1][j=*]/..."
   query_wf: names not empty, literals over [a-zA-Z0-9_:,-] (the legal characters without the dot), "..." is the last
   step or an element name / "*" / "..." follows;  lpath: names not empty, names / key names / key values over
   [a-zA-Z0-9_:,-.] (what "*" stands for) *)
Theorem C03_get_wildcard : forall q p, query_wf q -> lpath p ->
  match_wildcard (qrender q) false (PathAbstraction.render p) = qmatch q p.
Proof. exact wildcard_elements. Qed.
Print Assumptions C03_get_wildcard.

Theorem C03_get_wildcard_filter : forall values q, query_wf q ->
  (forall pv, In pv (map snd values) -> exists sp, lpath sp /\ pv_path pv = PathAbstraction.render sp) ->
  forall pv, In pv (get_filter values (qrender q)) <->
             In pv (map snd values) /\ pv_deleted pv = false /\
             exists sp, lpath sp /\ pv_path pv = PathAbstraction.render sp /\ qmatch q sp = true.
Proof. exact get_filter_elements. Qed.
Print Assumptions C03_get_wildcard_filter.

(* Sets then a Get, against the reference: legal_history h = every path of every request is an lpath *)
Theorem C03_get_reference : forall h q, ghistory_ok h -> legal_history h -> query_wf q ->
  forall t v,
    In (t, v) (get_leaves (run_history [] (map text_req h)) (qrender q)) <->
    exists sp, t = PathAbstraction.render sp /\ glookup (gnmi_history [] (map snd h)) sp = Some v /\ qmatch q sp = true.
Proof. exact get_history_reference. Qed.
Print Assumptions C03_get_reference.

Theorem C03_get_wildcard_inhabited :
  legal_history exG /\
  query_wf [qn "l"; QAnyKey (B "k"); qn "v"] /\ query_wf [QDeep; qn "v"] /\ query_wf [qn "a"; QAnyName] /\
  query_wf [qn "x"] /\ query_wf [qn "m"; QKey (B "k1") (B "c")] /\ query_wf [qn "a"; QDeep] /\
  qrender [qn "l"; QAnyKey (B "k"); qn "v"] = B "/l[k=*]/v" /\
  qrender [QDeep; qn "v"] = B "/.../v" /\
  get_leaves exStore (B "/l[k=*]/v") = [(B "/l[k=2]/v", B "2")] /\
  get_leaves exStore (B "/.../v") = [(B "/l[k=2]/v", B "2"); (B "/m[k1=c][k2=b]/v", B "8")] /\
  get_leaves exStore (B "/a/*") = [(B "/a/b", B "2"); (B "/a/c/d", B "7")] /\
  get_leaves exStore (B "/x") = [] /\
  get_leaves exStore (B "/m[k1=c]") = [(B "/m[k1=c][k2=b]/v", B "8")] /\
  get_leaves exStore (B "/a/...") = [(B "/a/b", B "2"); (B "/a/c/d", B "7")].
Proof. exact get_wildcard_example. Qed.
Print Assumptions C03_get_wildcard_inhabited.

(* ---- the reader's view along whole runs of the store model.
   event = ESet idx ch (set_cycle) | EStatus (status_update) | EApplied idx ch (apply_update); sets_of keeps the Sets *)
Theorem C03_view_is_committed : forall evs, history_ok (sets_of evs) ->
  view_values (fold_left step_event evs cfg0) = run_history [] (sets_of evs).
Proof. exact events_view. Qed.
Print Assumptions C03_view_is_committed.

Theorem C03_events_refine : forall evs, history_ok (sets_of evs) ->
  forall p, live (view_values (fold_left step_event evs cfg0)) p = spec_history (fun _ => None) (sets_of evs) p.
Proof. exact events_refine. Qed.
Print Assumptions C03_events_refine.

(* C03 - Stored configuration is the gNMI-sequential effect of acknowledged Sets.
   Statements only; proofs live in Proofs/MergeProofs.v, Proofs/MergeRefute.v, Proofs/WildcardProofs.v.

   What is proved for ALL inputs: the merge performed by reconcileCommit (AddDeleteChildren + applyChangeToConfig
   over any stored map, any change map, any Go map iteration order) changes the live leaves exactly as one
   gNMI request does on textual paths - an update sets its leaf, a delete removes the node and what lies strictly
   beneath it at a path element boundary, nothing else changes - provided no update of the request lies beneath
   a delete of the same request (C03_order_refuted shows that guard is needed); and a wildcard-free Get returns
   exactly the live values at or beneath the query.
   What is refuted with concrete witnesses on the faithful model (and reproduced on the implementation, see
   findings/C03.jsonl): persistence of a value re-created beneath a deleted ancestor, overlapping delete/update
   in one request.
   NOT proved here (named so nobody reads more into it): the store write after the merge (store_write /
   prune_path_map), histories, wildcard queries and the step-level abstraction are covered by the differential
   and end-to-end checks only. *)
From Coq Require Import List NArith Bool Permutation String.
Local Open Scope string_scope.
From OC Require Import Base.Bytes Model.Merge Model.CfgStore Model.Wildcard
     Proofs.MergeProofs Proofs.MergeRefute Proofs.WildcardProofs.
Import ListNotations.
Open Scope N_scope.
Open Scope list_scope.

(* keys_ok m: every key is the path of its value; nodup m: keys are distinct (it is a Go map);
   no_overlap ch: no live value of the request lies beneath a deleted value of the same request;
   live m p: the value a Get shows for p (None for absent or deleted);
   spec_live_fun V ch p := match ch[p] with Some c => live_of c
                           | None => if some delete d of ch has p strictly beneath it (and V holds p) then None else live V p *)
Theorem C03_merge_refines : forall idx V ch,
  keys_ok V -> nodup V -> keys_ok ch -> nodup ch -> no_overlap ch ->
  forall p, live (commit_merge idx ch V) p = spec_live_fun V ch p.
Proof. exact merge_refines_eq. Qed.
Print Assumptions C03_merge_refines.

Theorem C03_order_independent : forall idx V V' ch ch',
  keys_ok V -> nodup V -> keys_ok ch -> nodup ch -> no_overlap ch ->
  Permutation V V' -> Permutation ch ch' ->
  forall p, live (commit_merge idx ch' V') p = live (commit_merge idx ch V) p.
Proof. exact merge_order_independent. Qed.
Print Assumptions C03_order_independent.

Theorem C03_get_exact_literal : forall values q,
  plain q = true -> q <> [] -> q <> [c_slash] -> ends_with [c_slash] q = false ->
  get_filter values q =
  filter (fun pv => (eqb_str (pv_path pv) q || is_path_below (pv_path pv) q) && negb (pv_deleted pv)) (map snd values).
Proof. exact get_filter_literal. Qed.
Print Assumptions C03_get_exact_literal.

(* names that merely share a textual prefix are unaffected; children and list entries are beneath *)
Theorem C03_siblings_unaffected : forall a c r,
  a <> [] -> a <> [c_slash] -> is_boundary c = false -> is_path_below (a ++ c :: r) a = false.
Proof. exact sibling_not_below. Qed.
Print Assumptions C03_siblings_unaffected.

Theorem C03_children_below : forall a c r,
  a <> [] -> a <> [c_slash] -> is_boundary c = true -> is_path_below (a ++ c :: r) a = true.
Proof. exact child_below. Qed.
Print Assumptions C03_children_below.

(* ---- refutations (faithful model; signatures c03_recreate_under_deleted_ancestor, c03_delete_update_overlap) *)
Theorem C03_recreate_refuted :
  live (view_values r3) (B "/a/b") = Some (B "2") /\
  map_get (B "/a/b") [upd "/x" "3" 4] = None /\ ~ cascaded (view_values r3) [upd "/x" "3" 4] (B "/a/b") /\
  live (view_values r4) (B "/a/b") = None.
Proof. exact recreate_refuted. Qed.
Print Assumptions C03_recreate_refuted.

Theorem C03_recreate_list_refuted :
  live (view_values q2) (B "/l[k=1]/v") = None /\ live (view_values q3) (B "/l[k=1]/v") = None.
Proof. exact recreate_list_refuted. Qed.
Print Assumptions C03_recreate_list_refuted.

Theorem C03_order_refuted :
  Permutation ov1 ov2 /\
  live (commit_merge 2 ov1 ovV) (B "/a/b") <> live (commit_merge 2 ov2 ovV) (B "/a/b").
Proof. exact overlap_order_refuted. Qed.
Print Assumptions C03_order_refuted.

Theorem C03_same_path_refuted :
  map_get (B "/x") (compute_change [(B "/x", B "2")] [B "/x"]) = Some (mkPV (B "/x") [] true 0).
Proof. exact same_path_refuted. Qed.
Print Assumptions C03_same_path_refuted.

(* the aliasing of committed and applied values is repaired (6c3f66e): neither a status update nor the recording
   of applied values changes the committed map *)
Theorem C03_applied_separate : forall s idx ch,
  cs_map (apply_update s idx ch) = cs_map s /\ cs_map (status_update s) = cs_map s.
Proof. intros s idx ch. split; [apply apply_keeps_committed | apply status_keeps_committed]. Qed.
Print Assumptions C03_applied_separate.

(* C13 - A refused Set changes nothing; targets and paths resolve as documented.
   Statements only; proofs live in Proofs/SetReqProofs.v and Proofs/SetReqWitnesses.v.
   set_resolve strict cfg orc req is gNMI Set up to (not including) transactions.Create;
   strict = false is the code as it is, strict = true the code with fixes/C13-1.patch;
   cfg = topology entities, registered model plugins with their read-write paths, GNMI_SET_SIZE_LIMIT;
   orc = the plugin's GetPathValues (any function); ops_of req = deletes ++ replaces ++ updates. *)
From Coq Require Import List NArith ZArith Bool.
From OC Require Import Base.Bytes Model.PathModel Model.SetReq Proofs.SetReqProofs Proofs.SetReqWitnesses.
Import ListNotations.

(* ---- a refused Set creates no transaction (the only store effect before the handler waits is Create) *)
Theorem C13_refused_no_tx : forall strict cfg orc req,
  (forall t, set_resolve strict cfg orc req <> Ok t) -> set_effects strict cfg orc req = [].
Proof. exact refused_no_effect. Qed.
Print Assumptions C13_refused_no_tx.

Theorem C13_tx_iff_resolved : forall strict cfg orc req t,
  In (Create t) (set_effects strict cfg orc req) <-> set_resolve strict cfg orc req = Ok t.
Proof. exact effect_iff_resolved. Qed.
Print Assumptions C13_tx_iff_resolved.

(* ---- every operation of an accepted Set was checked, wherever it stands among the others *)
Theorem C13_accepted_all_checked : forall strict cfg orc req t,
  set_resolve strict cfg orc req = Ok t ->
  exists over0, get_overrides (r_ext req) = Ok over0 /\
    forall o, In o (ops_of req) -> op_passes cfg orc (r_prefix req) over0 o.
Proof. exact accepted_all_checked. Qed.
Print Assumptions C13_accepted_all_checked.

(* ---- the refusal causes, each for a request with arbitrary other operations *)
Theorem C13_refused_unknown_target : forall strict cfg orc req over0 o,
  get_overrides (r_ext req) = Ok over0 -> In o (ops_of req) ->
  topo_get (sc_topo cfg) (etgt (r_prefix req) o) = None ->
  forall t, set_resolve strict cfg orc req <> Ok t.
Proof. exact refused_unknown_entity. Qed.
Print Assumptions C13_refused_unknown_target.

Theorem C13_refused_not_configurable : forall strict cfg orc req over0 o e,
  get_overrides (r_ext req) = Ok over0 -> In o (ops_of req) ->
  topo_get (sc_topo cfg) (etgt (r_prefix req) o) = Some e -> te_cfg e = None ->
  forall t, set_resolve strict cfg orc req <> Ok t.
Proof. exact refused_not_configurable. Qed.
Print Assumptions C13_refused_not_configurable.

Theorem C13_refused_unknown_model : forall strict cfg orc req over0 o e cv,
  get_overrides (r_ext req) = Ok over0 -> In o (ops_of req) ->
  topo_get (sc_topo cfg) (etgt (r_prefix req) o) = Some e -> te_cfg e = Some cv ->
  (let tv := match aget over0 (etgt (r_prefix req) o) with Some tv => tv | None => cv end in
   get_plugin (sc_plugins cfg) (fst tv) (snd tv) = None) ->
  forall t, set_resolve strict cfg orc req <> Ok t.
Proof. exact refused_unknown_model. Qed.
Print Assumptions C13_refused_unknown_model.

Theorem C13_refused_update_not_writable : forall strict cfg orc req over0 u pl,
  get_overrides (r_ext req) = Ok over0 -> In (RUpd u) (ops_of req) ->
  (forall d, u_val u <> VJson d) ->
  resolve_target cfg over0 (etgt (r_prefix req) (RUpd u)) = Ok pl ->
  rw_lookup (pl_rw pl) (anonymize_path_indices (effective_path (r_prefix req) (u_path u))) = None ->
  forall t, set_resolve strict cfg orc req <> Ok t.
Proof. exact refused_update_not_writable. Qed.
Print Assumptions C13_refused_update_not_writable.

Theorem C13_refused_delete_not_in_model : forall strict cfg orc req over0 p pl,
  get_overrides (r_ext req) = Ok over0 -> In (RDel p) (ops_of req) ->
  resolve_target cfg over0 (etgt (r_prefix req) (RDel p)) = Ok pl ->
  find_path_from_model (effective_path (r_prefix req) p) (pl_rw pl) false = NotInModel ->
  forall t, set_resolve strict cfg orc req <> Ok t.
Proof. exact refused_delete_not_in_model. Qed.
Print Assumptions C13_refused_delete_not_in_model.

(* every delete of an accepted Set names a model path or an ancestor of one by whole elements *)
Theorem C13_accepted_delete_in_model : forall strict cfg orc req t over0 p pl,
  set_resolve strict cfg orc req = Ok t -> get_overrides (r_ext req) = Ok over0 -> In (RDel p) (ops_of req) ->
  resolve_target cfg over0 (etgt (r_prefix req) (RDel p)) = Ok pl ->
  let path := effective_path (r_prefix req) p in
  (exists e, rw_lookup (pl_rw pl) (anonymize_path_indices path) = Some e) \/
  (exists e, In e (pl_rw pl) /\
     (remove_path_indices (rw_path e) = delete_search_key path \/
      exists r, remove_path_indices (rw_path e) = trim_slash (delete_search_key path) ++ [c_slash] ++ r)).
Proof. exact accepted_delete_in_model. Qed.
Print Assumptions C13_accepted_delete_in_model.

Theorem C13_refused_delete_bad_index_value : forall strict cfg orc req over0 p pl n v,
  get_overrides (r_ext req) = Ok over0 -> In (RDel p) (ops_of req) ->
  resolve_target cfg over0 (etgt (r_prefix req) (RDel p)) = Ok pl ->
  find_path_from_model (effective_path (r_prefix req) p) (pl_rw pl) false = FoundPrefix ->
  In (n, v) (extract_index_names (effective_path (r_prefix req) p)) -> index_value_ok v = false ->
  forall t, set_resolve strict cfg orc req <> Ok t.
Proof. exact refused_delete_bad_index_value. Qed.
Print Assumptions C13_refused_delete_bad_index_value.

Theorem C13_key_contradiction_refused : forall strict cfg orc req over0 u pl e tv,
  get_overrides (r_ext req) = Ok over0 -> In (RUpd u) (ops_of req) ->
  resolve_target cfg over0 (etgt (r_prefix req) (RUpd u)) = Ok pl ->
  let path := effective_path (r_prefix req) (u_path u) in
  rw_lookup (pl_rw pl) (anonymize_path_indices path) = Some e -> rw_is_key e = true ->
  to_native (u_val u) = Some tv ->
  extract_index_names path <> [] ->
  (forall n v, In (n, v) (extract_index_names (after_last_slash (get_parent_path path))) -> n = rw_attr e -> v <> tv_str tv) ->
  forall t, set_resolve strict cfg orc req <> Ok t.
Proof. exact refused_key_contradiction. Qed.
Print Assumptions C13_key_contradiction_refused.

Theorem C13_refused_bad_index_value : forall strict cfg orc req over0 u pl n v,
  get_overrides (r_ext req) = Ok over0 -> In (RUpd u) (ops_of req) ->
  (forall d, u_val u <> VJson d) ->
  resolve_target cfg over0 (etgt (r_prefix req) (RUpd u)) = Ok pl ->
  In (n, v) (extract_index_names (effective_path (r_prefix req) (u_path u))) -> index_value_ok v = false ->
  forall t, set_resolve strict cfg orc req <> Ok t.
Proof. exact refused_bad_index_value. Qed.
Print Assumptions C13_refused_bad_index_value.

Theorem C13_refused_malformed_overrides : forall strict cfg orc req ov,
  first_overrides (r_ext req) = Some (false, ov) -> set_resolve strict cfg orc req = Err CInvalid.
Proof. exact refused_malformed_overrides. Qed.
Print Assumptions C13_refused_malformed_overrides.

Theorem C13_refused_malformed_strategy : forall strict cfg orc req,
  first_strategy (r_ext req) = Some false -> forall t, set_resolve strict cfg orc req <> Ok t.
Proof. exact refused_malformed_strategy. Qed.
Print Assumptions C13_refused_malformed_strategy.

Theorem C13_refused_no_operations : forall strict cfg orc req,
  r_delete req = [] -> r_replace req = [] -> r_update req = [] -> forall t, set_resolve strict cfg orc req <> Ok t.
Proof. exact refused_no_operations. Qed.
Print Assumptions C13_refused_no_operations.

(* size / target limit, for any limit *)
Theorem C13_limit_respected : forall strict cfg orc req t,
  set_resolve strict cfg orc req = Ok t -> (0 < sc_limit cfg)%Z ->
  exists id ch, tx_changes t = [(id, ch)] /\ (Z.of_nat (List.length ch) <= sc_limit cfg)%Z.
Proof. exact limit_respected. Qed.
Print Assumptions C13_limit_respected.

Theorem C13_refused_two_targets_under_limit : forall strict cfg orc req o1 o2,
  (0 < sc_limit cfg)%Z -> In o1 (ops_of req) -> In o2 (ops_of req) ->
  etgt (r_prefix req) o1 <> etgt (r_prefix req) o2 ->
  forall t, set_resolve strict cfg orc req <> Ok t.
Proof. exact refused_two_targets_under_limit. Qed.
Print Assumptions C13_refused_two_targets_under_limit.

(* ---- accepted requests: targets and paths *)
Theorem C13_prefix_target_overrides : forall prefix o, p_target prefix <> [] -> etgt prefix o = p_target prefix.
Proof. exact prefix_target_overrides. Qed.
Print Assumptions C13_prefix_target_overrides.

Theorem C13_path_is_prefix_then_path : forall prefix p,
  str_path prefix <> [c_slash] -> effective_path prefix p = str_path prefix ++ str_path p.
Proof. exact effective_path_with_prefix. Qed.
Print Assumptions C13_path_is_prefix_then_path.

(* the logged change names exactly the effective targets of the request, and for each of them holds, path by
   path, the last-writer result of the flat operations addressed to it (delete wins over updates of the same
   path; among updates replace-list before update-list, the last one wins); nothing else is in it *)
Theorem C13_lands_exactly : forall strict cfg orc req t,
  set_resolve strict cfg orc req = Ok t ->
  exists over0, get_overrides (r_ext req) = Ok over0 /\
    (forall id, aget (tx_changes t) id = None <-> (forall o, In o (ops_of req) -> etgt (r_prefix req) o <> id)) /\
    (forall id ch, aget (tx_changes t) id = Some ch ->
       forall p, aget ch p = last_writer (flat_for cfg orc (r_prefix req) over0 id (ops_of req)) p).
Proof. exact lands_exactly. Qed.
Print Assumptions C13_lands_exactly.

(* every delete lands as a delete: holds for the repaired computeChange ... *)
Theorem C13_lands_as_delete_repaired : forall cfg orc req t,
  set_resolve true cfg orc req = Ok t ->
  forall id ch p, aget (tx_changes t) id = Some ch -> aget ch p <> Some CNil.
Proof. exact repaired_no_nil_change. Qed.
Print Assumptions C13_lands_as_delete_repaired.

(* ... is false for the code as it is (finding F-C13a: prefix /sys + delete of the empty path logs a nil change
   and the handler's response loop dereferences it) ... *)
Theorem C13_lands_as_delete_refuted :
  exists cfg orc req t id ch p,
    set_resolve false cfg orc req = Ok t /\ aget (tx_changes t) id = Some ch /\ aget ch p = Some CNil /\ response_panics t = true.
Proof. exact lands_as_delete_refuted. Qed.
Print Assumptions C13_lands_as_delete_refuted.

(* ... and holds for it under the guard that every delete lands on a valid path text *)
Theorem C13_lands_as_delete_partial : forall cfg orc req t over0,
  set_resolve false cfg orc req = Ok t -> get_overrides (r_ext req) = Ok over0 ->
  (forall id q, In q (dels_of (flat_for cfg orc (r_prefix req) over0 id (ops_of req))) -> is_path_valid q = true) ->
  forall id ch p, aget (tx_changes t) id = Some ch -> aget ch p <> Some CNil.
Proof. exact unrepaired_no_nil_change_partial. Qed.
Print Assumptions C13_lands_as_delete_partial.

(* C05 - Nothing becomes configuration without passing the target's model.
   Statements only.  Models: Model/Proto2.v (v2 reconcilers; a step executes any PREFIX of an invocation's effect
   list, so all schedules, verdicts and crash points are covered; the theorems hold for EVERY pure layer) and
   Model/Chunks.v (the chunk loop of pluginregistry.Validate).

   How the theorems decide the property.
   - C05_commit_needs_validation + C01_values_only_by_commit (Properties/C01.v): the stored configuration of a
     target is altered only by the Commit of a proposal in its Commit phase, and a proposal is in Commit only when
     its validation is done.
   - C05_validated_on_predecessor (single step, every world): a validation becomes done only in an invocation of
     that proposal's own reconciler in which: the snapshot configuration has the predecessor committed
     (Committed.Index = PrevIndex, or no predecessor), a plugin exists, its verdict is accept, the document could
     be built, and the candidate judged ([vdoc]) is exactly candidate (view C) change for a change - for a rollback
     the configuration's Index is the rolled-back transaction and the candidate is candidate_rb (view C) of the
     rollback values recorded by the target proposal; the rollback data stored with the verdict is that of the
     same snapshot.
   - C05_reject_or_no_plugin_fails (+ C05_reject_keeps_configurations): without plugin, or with a rejecting verdict,
     the invocation's only effect marks the proposal validate-FAILED (INVALID for every change; a rollback can be
     refused earlier with FORBIDDEN / NOT_FOUND; a document that cannot be built is retried without effect), and no
     configuration changes in that step.
   - C05_rejected_never_alters: from then on, in every continuation, no step of that transaction's proposals alters
     any stored configuration (with C01_reject_never_commits: the transaction is FAILED and aborting).
   - C05_chunks: the document is streamed in ceil(len/n) chunks, each non-empty and at most n bytes, whose
     concatenation is the document - for every size, so on both sides of the 100 kB boundary (n = chunkSize =
     Gen/Tables.plugin_chunk_size); C05_chunks_full: all chunks but the last are exactly n bytes.
   What remains partial: that the validated document is, leaf for leaf, what becomes readable after the commit is a
   statement about the pure layer (candidate vs. commit_merge after pruning; DESIGN C05_doc_is_readable, its
   order-dependent corner is C03_order_refuted) and is not proved here; that the values are unchanged between the
   validation and the commit needs the cursor invariant (Committed.Index moves only by this proposal's own
   commit/abort), also not in this file.  The plugin verdict itself is an oracle. *)
From stdpp Require Import gmap.
From RecordUpdate Require Import RecordUpdate.
From Coq Require Import NArith.
From OC Require Import Model.Proto2 Model.Chunks Proofs.P2Base Proofs.P2Phases Proofs.P2_Order Proofs.P2_OrderStep Proofs.P2_Chunks.
Open Scope N_scope.

Section C05.
  Context {V Ch Req D : Type}.
  Context (candidate : V -> Ch -> V) (candidate_rb : V -> Ch -> V) (rollback_of : V -> Ch -> Ch)
          (overlay : V -> V -> V) (commit_merge : N -> N -> V -> V -> Ch -> V)
          (payload : N -> V -> Ch -> option Req) (record_applied : N -> N -> V -> V -> V -> Ch -> V)
          (touched : N -> V -> Ch -> V) (restore : V -> V -> V)
          (resync_payload : V -> list (option Req)) (doc_ok : V -> bool)
          (dev_apply : D -> Req -> D) (stamp : N -> Ch -> Ch) (v_empty : V) (d_empty : D) (ch_empty : Ch).
  Notation reach := (@reach V Ch Req D candidate candidate_rb rollback_of overlay commit_merge payload record_applied
                            touched restore resync_payload doc_ok dev_apply stamp v_empty d_empty ch_empty).
  Notation step := (@step V Ch Req D candidate candidate_rb rollback_of overlay commit_merge payload record_applied
                          touched restore resync_payload doc_ok dev_apply stamp v_empty d_empty ch_empty).
  Notation rec_prop := (@rec_prop V Ch Req D candidate candidate_rb rollback_of overlay commit_merge payload record_applied
                                  touched restore doc_ok v_empty d_empty ch_empty).
  Notation vdoc := (@vdoc V Ch Req D candidate candidate_rb rollback_of overlay ch_empty).

  Theorem C05_commit_needs_validation : forall (w : @world V Ch Req D) k (P : @prop Ch),
    reach w -> props w !! k = Some P ->
    (is_Some (p_validate P) -> p_init P = Some Done) /\
    (is_Some (p_commit P) -> p_validate P = Some Done) /\
    (is_Some (p_apply P) -> p_commit P = Some Done) /\
    (is_Some (p_abort P) -> p_commit P = None /\ p_apply P = None) /\
    p_commit P <> Some Failed /\ p_abort P <> Some Failed /\
    (p_validate P = Some Failed -> is_Some (p_vfail P)).
  Proof. exact (proposal_phase_order candidate candidate_rb rollback_of overlay commit_merge payload record_applied touched restore
                  resync_payload doc_ok dev_apply stamp v_empty d_empty ch_empty). Qed.

  Theorem C05_validated_on_predecessor : forall (w : @world V Ch Req D) l k (P P' : @prop Ch),
    props w !! k = Some P -> props (step w l) !! k = Some P' -> p_validate P' = Some Done -> p_validate P <> Some Done ->
    exists n o (C : @config V) cand rbi rbv, l = LRec (CtlProp k) n o /\ cfgs w !! k.1 = Some C /\
      p_validate P = Some Doing /\ p_commit P = None /\ p_apply P = None /\ p_abort P = None /\
      (p_prev P = 0 \/ c_committed C = p_prev P) /\ o_plugin o = true /\ o_verdict o = true /\
      doc_ok cand = true /\ vdoc w k.1 C P cand rbi rbv /\
      P' = P <| p_rbindex := rbi |> <| p_rbvalues := rbv |> <| p_validate := Some Done |>.
  Proof. exact (validated_on_predecessor candidate candidate_rb rollback_of overlay commit_merge payload record_applied touched restore
                  resync_payload doc_ok dev_apply stamp v_empty d_empty ch_empty). Qed.

  Theorem C05_reject_or_no_plugin_fails : forall (o : oracle) (w : @world V Ch Req D) t i (P : @prop Ch) (C : @config V),
    props w !! (t, i) = Some P -> p_apply P = None -> p_abort P = None -> p_commit P = None -> p_validate P = Some Doing ->
    cfgs w !! t = Some C -> negb (p_prev P =? 0) && negb (c_committed C =? p_prev P) = false ->
    o_plugin o = false \/ o_verdict o = false ->
    rec_prop o w (t, i) = ([], RRetry) \/
    exists f, rec_prop o w (t, i) = ([EPutProp (t, i) (P <| p_validate := Some Failed |> <| p_vfail := Some f |>)], RDone) /\
              (o_plugin o = false -> f = FInvalid) /\ (forall ch, p_details P = PChange ch -> f = FInvalid).
  Proof. exact (reject_or_no_plugin_fails candidate candidate_rb rollback_of overlay commit_merge payload record_applied touched restore
                  doc_ok v_empty d_empty ch_empty). Qed.

  Theorem C05_reject_keeps_configurations : forall (o : oracle) (w : @world V Ch Req D) t i (P : @prop Ch) (C : @config V) n,
    props w !! (t, i) = Some P -> p_apply P = None -> p_abort P = None -> p_commit P = None -> p_validate P = Some Doing ->
    cfgs w !! t = Some C -> negb (p_prev P =? 0) && negb (c_committed C =? p_prev P) = false ->
    o_plugin o = false \/ o_verdict o = false ->
    cfgs (step w (LRec (CtlProp (t, i)) n o)) = cfgs w.
  Proof. exact (reject_keeps_cfgs candidate candidate_rb rollback_of overlay commit_merge payload record_applied touched restore
                  resync_payload doc_ok dev_apply stamp v_empty d_empty ch_empty). Qed.

  Theorem C05_rejected_never_alters :
    forall (w : @world V Ch Req D) t i (P : @prop Ch) (ls : list (@label Ch)) l t' (C C' : @config V),
    reach w -> props w !! (t, i) = Some P -> p_validate P = Some Failed ->
    cfgs (fold_left step ls w) !! t' = Some C -> cfgs (step (fold_left step ls w) l) !! t' = Some C' ->
    c_values C' <> c_values C ->
    exists j n o, l = LRec (CtlProp (t', j)) n o /\ j <> i.
  Proof. exact (rejected_never_alters candidate candidate_rb rollback_of overlay commit_merge payload record_applied touched restore
                  resync_payload doc_ok dev_apply stamp v_empty d_empty ch_empty). Qed.
End C05.

Section C05_chunks.
  Context {A : Type}.
  Theorem C05_chunks : forall (doc : list A) (n : N), 0 < n ->
    concat (chunks n doc) = doc /\
    Forall (fun c => c <> [] /\ N.of_nat (length c) <= n) (chunks n doc) /\
    N.of_nat (length (chunks n doc)) = (N.of_nat (length doc) + n - 1) / n.
  Proof. exact (@chunks_spec A). Qed.

  Theorem C05_chunks_full : forall (doc : list A) (n : N) pre last, 0 < n ->
    chunks n doc = pre ++ [last] -> Forall (fun c => N.of_nat (length c) = n) pre.
  Proof. exact (@chunks_full A). Qed.
End C05_chunks.
Print Assumptions C05_commit_needs_validation.
Print Assumptions C05_validated_on_predecessor.
Print Assumptions C05_reject_or_no_plugin_fails.
Print Assumptions C05_reject_keeps_configurations.
Print Assumptions C05_rejected_never_alters.
Print Assumptions C05_chunks.
Print Assumptions C05_chunks_full.

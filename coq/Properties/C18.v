(* C18 - The JSON document is the configuration, no more and no less.
   Statements only; proofs live in Proofs/TreeProofs.v, Proofs/TreeBuildProofs.v, Proofs/TreeFlattenProofs.v,
   Proofs/TreeExamples.v, and (sorted => contiguous) Proofs/TreeContiguous.v, Proofs/TreeContiguousSets.v.
   Contiguity, formerly only evaluated (the paths_eqb conjunct of wf_set), is now PROVED for every set:
   C18_sorted_contiguous / C18_sorted_live_paths - a set of paths sorted bytewise whose texts are "/" e1 "/" e2 ... (non-empty
   elements the tokenizer returns whole: normal_textb) and whose element lists are prefix-free (no duplicates, no leaf
   above a leaf) is the depth-first enumeration of a trie with pairwise distinct child elements at every node, so the
   paths sharing leading elements - the paths of one list entry, whose element text is one text when the keys are written
   in canonical order - are contiguous, and trie_of rebuilds exactly that trie (C18_trie_of_dfs).  Both hypotheses are
   necessary: C18_leading_slash_needed, C18_prefix_free_needed.
   wf_set itself now FOLLOWS from conditions on the input (Proofs/TreeWfInputs.v, TreeWfInputsEx.v):
   C18_wf_set_from_inputs - inputs_okb rfc pvs = true -> wf_set rfc pvs = true, where inputs_okb is the conjunction of
     normal_textb (grammar) every path text is "/" e1 "/" e2 ..., elements the tokenizer returns whole
     pfreeb       (schema)  no path's elements are a prefix of another's
     grammarb     (grammar) an element containing '=' parses into a name and a non-empty key map with distinct key names
     schema_keysb (schema, YANG) every use of a list carries the same key names in the same order
     key_namesb   (schema)  a container / list inside a list entry is not named like one of the entry's keys
     key_leavesb  (values)  no leaf value makes handleLeafValue panic; an explicit key leaf says what the path says
     siblingsb    (schema)  two different elements under one parent share a member name only as two entries of one list
                            with different key maps
   all evaluated on the live paths (per path, or per pair of paths), never on the trie; C18_build_render_inputs and
   C18_flatten_build_inputs restate the two main theorems over them.  Each schema / grammar / value condition is needed:
   C18_schema_keys_needed (BuildTree succeeds, the document reads back a different key), C18_siblings_needed and
   C18_key_names_needed (BuildTree fails), C18_key_leaves_needed (entry split), C18_grammar_needed (panic). *)
From Coq Require Import List NArith Bool Permutation Sorted.
From OC Require Import Base.Bytes Model.Tree Model.TreeSpec Proofs.TreeProofs Proofs.TreeBuildProofs Proofs.TreeFlattenProofs Proofs.TreeExamples
     Proofs.TreeContiguous Proofs.TreeContiguousSets Proofs.TreeWfInputs Proofs.TreeWfInputsEx.
Import ListNotations.

(* Pruning keeps exactly (as a multiset) the path/values that have no tombstone strictly above them at a path
   element boundary and that are not tombstones themselves - unless top tombstones are to be left behind -
   and returns them sorted by path.  No side condition on sibling names (boundary_safe is gone). *)
Theorem C18_prune_exact : forall leave pvs,
  (forall x, In x pvs -> pv_path x <> []) ->
  Permutation (prune leave pvs) (filter (keep_spec leave pvs) pvs) /\
  StronglySorted pv_le (prune leave pvs).
Proof. exact prune_exact. Qed.
Print Assumptions C18_prune_exact.

(* "above at an element boundary": same text up to the ancestor's end, then '/' or '[' *)
Theorem C18_below_is_element_boundary : forall p a,
  is_root a = false ->
  (is_path_below p a = true <-> exists c r, p = a ++ c :: r /\ boundary c = true).
Proof. exact is_path_below_spec. Qed.
Print Assumptions C18_below_is_element_boundary.

(* tree.go's own ancestor scan is utils.IsPathBelow against every tombstone *)
Theorem C18_prune_uses_is_path_below : forall p dels,
  p <> [] -> below_deleted p dels = existsb (is_path_below p) dels.
Proof. exact below_deleted_existsb. Qed.
Print Assumptions C18_prune_uses_is_path_below.

(* PrunePathMap does not depend on Go's map iteration order *)
Theorem C18_prune_map_order : forall leave m m',
  NoDup (map pv_path m) -> Permutation m m' -> prune_map leave m = prune_map leave m'.
Proof. exact prune_order_independent. Qed.
Print Assumptions C18_prune_map_order.

(* BuildTree on a well-formed set yields the document the live paths describe: one member per container,
   one list entry per key set, keys injected once *)
Theorem C18_build_render : forall rfc pvs,
  wf_set rfc pvs = true ->
  build_tree rfc pvs = Ok (render rfc (trie_of (live_paths pvs))).
Proof. exact build_tree_render. Qed.
Print Assumptions C18_build_render.

(* Flattening the document gives back exactly the live valued leaves, plus the key leaves of the list entries
   the live paths go through (an explicit key leaf replaces the injected one).  wf_set: the live paths, in
   the order BuildTree processes them, are the depth-first enumeration of a well-formed trie - entries
   contiguous, canonical key order, one key-name list per list, no leaf above a leaf, explicit key leaves
   agreeing with the path.  That every sorted, normal, prefix-free set has contiguous entries is proved below
   (C18_sorted_live_paths); the rest of wf_set is still evaluated (extracted) by the driver on every generated set. *)
Theorem C18_flatten_build : forall rfc pvs,
  wf_set rfc pvs = true ->
  exists t, build_tree rfc pvs = Ok t /\
            Permutation (flatten (schema_of (live_paths pvs)) [] t)
                        (explicit_leaves rfc (live_paths pvs) ++ key_leaves rfc (trie_of (live_paths pvs)) []).
Proof. exact flatten_build. Qed.
Print Assumptions C18_flatten_build.

(* no more: every key leaf read back is implied by a key of a list entry on some live path *)
Theorem C18_key_leaves_implied : forall rfc pvs x,
  wf_set rfc pvs = true ->
  In x (key_leaves rfc (trie_of (live_paths pvs)) []) ->
  exists p, In p (live_paths pvs) /\ In x (implied_of [] (fst p)).
Proof. exact key_leaves_implied. Qed.
Print Assumptions C18_key_leaves_implied.

(* the hypotheses are satisfiable by a non-trivial set (nested and multi-key lists, numeric keys with an explicit
   numeric key leaf, prefix-sharing siblings, tombstones) *)
Theorem C18_wf_example : wf_set true wf_example = true /\ wf_set false wf_example = true.
Proof. exact wf_example_ok. Qed.
Print Assumptions C18_wf_example.

(* one key set, one entry: the list called n of a well-formed node holds exactly one entry per keyed child n,
   in order (an entry is never split) ... *)
Theorem C18_entries_one_per_key_set : forall rfc ks sp K0 cs n,
  wf_trie rfc ks sp K0 (TNode cs) = true -> ~ In n (map fst K0) ->
  (forall et, In et cs -> child_name et = n -> keyed_child et) ->
  arr_of n (render_cs rfc (TNode cs) (keymap_node K0)) = entries_of rfc n cs.
Proof. exact render_entries. Qed.
Print Assumptions C18_entries_one_per_key_set.

(* ... and entries of different key sets answer to their own keys only (entries are never merged) *)
Theorem C18_entries_distinct : forall rfc ks sp K0 cs ea ca eb cb n Ka Kb,
  wf_trie rfc ks sp K0 (TNode cs) = true ->
  In (ea, TNode ca) cs -> In (eb, TNode cb) cs ->
  classify ea = EKeyed n Ka -> classify eb = EKeyed n Kb -> kv_eqb Ka Kb = false ->
  full_match Ka (render_cs rfc (TNode ca) (keymap_node Ka)) /\
  some_differs Kb (render_cs rfc (TNode ca) (keymap_node Ka)).
Proof. exact entries_distinct. Qed.
Print Assumptions C18_entries_distinct.

(* outside the domain: keys written in different orders split an entry (environment only: plugin output) *)
Theorem C18_noncanonical_refuted :
  exists l, build_tree true noncanonical_witness = Ok (NMap [(B "m", NArr l)]) /\
            count_matching [(B "a", B "1"); (B "b", B "2")] l = 2%nat /\
            wf_set true noncanonical_witness = false.
Proof. exact noncanonical_split. Qed.
Print Assumptions C18_noncanonical_refuted.

(* open finding F-C18-1: an explicit key leaf of a non-basic JSON type splits its entry *)
Theorem C18_nonbasic_key_leaf_refuted :
  exists l, build_tree true nonbasic_key_witness = Ok (NMap [(B "l", NArr l)]) /\
            List.length l = 2%nat /\ wf_set true nonbasic_key_witness = false.
Proof. exact nonbasic_key_split. Qed.
Print Assumptions C18_nonbasic_key_leaf_refuted.

(* ---- sorted bytewise => contiguous.
   text p = "/" e1 "/" e2 ... of the elements of p; text_le = bytewise order of the texts (what PrunePathValues sorts by);
   elem_ok e: e is not empty and nextTokenIndex does not split it (brackets closed, no pending escape at its end);
   pfree L: no path's elements are a prefix of another's;  ctg L: whatever lies between two paths that share leading
   elements shares them too;  good t: every node has at least one child and pairwise distinct child elements *)
Theorem C18_sorted_contiguous : forall L,
  (forall p, In p L -> Forall elem_ok (fst p)) -> pfree L -> StronglySorted text_le L -> ctg L.
Proof. exact sorted_ctg. Qed.
Print Assumptions C18_sorted_contiguous.

Theorem C18_sorted_is_dfs : forall L,
  (forall p, In p L -> fst p <> [] /\ Forall elem_ok (fst p)) -> pfree L -> StronglySorted text_le L ->
  exists cs, NoDup (map fst cs) /\ Forall (fun et => good (snd et)) cs /\ dfs (TNode cs) = L /\ trie_of L = TNode cs.
Proof. exact sorted_is_dfs. Qed.
Print Assumptions C18_sorted_is_dfs.

(* folding a depth-first enumeration back finds the trie *)
Theorem C18_trie_of_dfs : forall t, good t -> trie_of (dfs t) = t.
Proof. exact trie_of_dfs. Qed.
Print Assumptions C18_trie_of_dfs.

(* SplitPath returns the elements of a normal text *)
Theorem C18_split_ptext : forall es, es <> [] -> Forall elem_ok es -> split_path (ptext es) = es.
Proof. exact split_ptext. Qed.
Print Assumptions C18_split_ptext.

(* on path/value sets: the contiguity conjunct of wf_set holds for every set of normal, prefix-free paths *)
Theorem C18_sorted_live_paths : forall pvs,
  (forall x, In x pvs -> normal_textb (pv_path x) = true) -> pfree (live_paths pvs) ->
  exists cs, NoDup (map fst cs) /\ Forall (fun et => good (snd et)) cs /\
             dfs (TNode cs) = live_paths pvs /\ trie_of (live_paths pvs) = TNode cs /\
             paths_eqb (dfs (trie_of (live_paths pvs))) (live_paths pvs) = true.
Proof. exact sorted_live_paths. Qed.
Print Assumptions C18_sorted_live_paths.

Theorem C18_sorted_inhabited :
  (forall x, In x wf_example -> normal_textb (pv_path x) = true) /\ pfree (live_paths wf_example).
Proof. exact sorted_example. Qed.
Print Assumptions C18_sorted_inhabited.

(* the hypotheses are needed: without the leading '/' ("/a/b" < "/z/y" < "a/c") element a is split although the set is
   prefix-free; with a leaf above a leaf ("/a/b" < "/a/b-c" < "/a/b/d", '-' < '/') element b is split although all
   texts are normal *)
Theorem C18_leading_slash_needed :
  pfree (live_paths cx_slash) /\
  map fst (live_paths cx_slash) = [[B "a"; B "b"]; [B "z"; B "y"]; [B "a"; B "c"]] /\
  child_elems (trie_of (live_paths cx_slash)) = [B "a"; B "z"; B "a"] /\
  normal_textb (B "a/c") = false /\ wf_set true cx_slash = false.
Proof. exact leading_slash_needed. Qed.
Print Assumptions C18_leading_slash_needed.

Theorem C18_prefix_free_needed :
  (forall x, In x cx_leaf -> normal_textb (pv_path x) = true) /\
  map fst (live_paths cx_leaf) = [[B "a"; B "b"]; [B "a"; B "b-c"]; [B "a"; B "b"; B "d"]] /\
  pfreeb (live_paths cx_leaf) = false /\
  match trie_of (live_paths cx_leaf) with TNode [(_, t)] => child_elems t | _ => [] end = [B "b"; B "b-c"; B "b"] /\
  wf_set true cx_leaf = false.
Proof. exact prefix_free_needed. Qed.
Print Assumptions C18_prefix_free_needed.

(* ---- wf_set from conditions on the input (see the header for inputs_okb) *)
Theorem C18_wf_set_from_inputs : forall rfc pvs, inputs_okb rfc pvs = true -> wf_set rfc pvs = true.
Proof. exact wf_set_from_inputs. Qed.
Print Assumptions C18_wf_set_from_inputs.

Theorem C18_build_render_inputs : forall rfc pvs, inputs_okb rfc pvs = true ->
  build_tree rfc pvs = Ok (render rfc (trie_of (live_paths pvs))).
Proof. exact build_render_from_inputs. Qed.
Print Assumptions C18_build_render_inputs.

Theorem C18_flatten_build_inputs : forall rfc pvs, inputs_okb rfc pvs = true ->
  exists t, build_tree rfc pvs = Ok t /\
            Permutation (flatten (schema_of (live_paths pvs)) [] t)
                        (explicit_leaves rfc (live_paths pvs) ++ key_leaves rfc (trie_of (live_paths pvs)) []).
Proof. exact flatten_build_from_inputs. Qed.
Print Assumptions C18_flatten_build_inputs.

(* the trie is well formed as soon as every one of its paths walks through (walk = wf_trie along one path) and the
   paths part compatibly (sib) *)
Theorem C18_wf_from_paths : forall rfc ks t, good t -> forall cs, t = TNode cs -> forall sp K0,
  (forall p, In p (dfs t) -> walk rfc ks sp K0 (fst p) (snd p) = true) ->
  ForallOrdPairs sibP (dfs t) -> wf_trie rfc ks sp K0 t = true.
Proof. exact wf_from_paths. Qed.
Print Assumptions C18_wf_from_paths.

Theorem C18_inputs_inhabited : inputs_okb true wf_example = true /\ inputs_okb false wf_example = true.
Proof. exact inputs_example. Qed.
Print Assumptions C18_inputs_inhabited.

(* parts = (normal texts, prefix-free, grammar, schema keys, key names, key leaves, siblings) *)
Theorem C18_schema_keys_needed :
  parts true cx_keys = (true, true, true, false, true, true, true) /\ wf_set true cx_keys = false /\
  exists t x, build_tree true cx_keys = Ok t /\
              In x (flatten (schema_of (live_paths cx_keys)) [] t) /\
              ~ In x (explicit_leaves true (live_paths cx_keys) ++ key_leaves true (trie_of (live_paths cx_keys)) []) /\
              x = ([(B "l", [(B "a", [])]); (B "w", [])], GStr (B "2")).
Proof. exact schema_keys_needed. Qed.
Print Assumptions C18_schema_keys_needed.

Theorem C18_siblings_needed :
  parts true cx_kind = (true, true, true, true, true, true, false) /\ build_tree true cx_kind = Err /\ wf_set true cx_kind = false.
Proof. exact siblings_needed. Qed.
Print Assumptions C18_siblings_needed.

Theorem C18_key_names_needed :
  parts true cx_kname = (true, true, true, true, false, true, true) /\ build_tree true cx_kname = Err /\ wf_set true cx_kname = false.
Proof. exact key_names_needed. Qed.
Print Assumptions C18_key_names_needed.

Theorem C18_key_leaves_needed :
  parts true cx_kleaf = (true, true, true, true, true, false, true) /\
  (exists l, build_tree true cx_kleaf = Ok (NMap [(B "l", NArr l)]) /\ List.length l = 2%nat) /\ wf_set true cx_kleaf = false.
Proof. exact key_leaves_needed. Qed.
Print Assumptions C18_key_leaves_needed.

Theorem C18_grammar_needed :
  parts true cx_gram = (true, true, false, true, true, true, true) /\ build_tree true cx_gram = Panic /\ wf_set true cx_gram = false.
Proof. exact grammar_needed. Qed.
Print Assumptions C18_grammar_needed.

(* C18 - The JSON document is the configuration, no more and no less.
   Statements only; proofs live in Proofs/TreeProofs.v, Proofs/TreeBuildProofs.v, Proofs/TreeExamples.v. *)
From Coq Require Import List NArith Bool Permutation Sorted.
From OC Require Import Base.Bytes Model.Tree Model.TreeSpec Proofs.TreeProofs Proofs.TreeBuildProofs Proofs.TreeExamples.
Import ListNotations.

(* Pruning keeps exactly (as a multiset) the path/values that have no tombstone strictly above them at a path
   element boundary and that are not tombstones themselves - unless top tombstones are to be left behind -
   and returns them sorted by path.  No side condition on sibling names (boundary_safe is gone). *)
Theorem C18_prune_exact : forall leave pvs,
  (forall x, In x pvs -> pv_path x <> []) ->
  Permutation (prune leave pvs) (filter (keep_spec leave pvs) pvs) /\
  StronglySorted pv_le (prune leave pvs).
Proof. exact prune_exact. Qed.
Print Assumptions C18_prune_exact.

(* "above at an element boundary": same text up to the ancestor's end, then '/' or '[' *)
Theorem C18_below_is_element_boundary : forall p a,
  is_root a = false ->
  (is_path_below p a = true <-> exists c r, p = a ++ c :: r /\ boundary c = true).
Proof. exact is_path_below_spec. Qed.
Print Assumptions C18_below_is_element_boundary.

(* tree.go's own ancestor scan is utils.IsPathBelow against every tombstone *)
Theorem C18_prune_uses_is_path_below : forall p dels,
  p <> [] -> below_deleted p dels = existsb (is_path_below p) dels.
Proof. exact below_deleted_existsb. Qed.
Print Assumptions C18_prune_uses_is_path_below.

(* PrunePathMap does not depend on Go's map iteration order *)
Theorem C18_prune_map_order : forall leave m m',
  NoDup (map pv_path m) -> Permutation m m' -> prune_map leave m = prune_map leave m'.
Proof. exact prune_order_independent. Qed.
Print Assumptions C18_prune_map_order.

(* BuildTree on a well-formed set yields the document the live paths describe: one member per container,
   one list entry per key set, keys injected once *)
Theorem C18_build_render : forall rfc pvs,
  wf_set rfc pvs = true ->
  build_tree rfc pvs = Ok (render rfc (trie_of (live_paths pvs))).
Proof. exact build_tree_render. Qed.
Print Assumptions C18_build_render.

(* outside the domain: keys written in different orders split an entry (environment only: plugin output) *)
Theorem C18_noncanonical_refuted :
  exists l, build_tree true noncanonical_witness = Ok (NMap [(B "m", NArr l)]) /\
            count_matching [(B "a", B "1"); (B "b", B "2")] l = 2%nat /\
            wf_set true noncanonical_witness = false.
Proof. exact noncanonical_split. Qed.
Print Assumptions C18_noncanonical_refuted.

(* open finding F-C18-1: an explicit key leaf of a non-basic JSON type splits its entry *)
Theorem C18_nonbasic_key_leaf_refuted :
  exists l, build_tree true nonbasic_key_witness = Ok (NMap [(B "l", NArr l)]) /\
            List.length l = 2%nat /\ wf_set true nonbasic_key_witness = false.
Proof. exact nonbasic_key_split. Qed.
Print Assumptions C18_nonbasic_key_leaf_refuted.

(* C10 / C04, the southbound connection manager - statements only.

   The theorems of Properties/C10.v and Properties/C04.v speak about a protocol world in which connections come and go
   by the labels LConnUp c t / LConnDown c (Model/Proto2.v).  In the code these labels are produced by
   pkg/southbound/gnmi/conn_manager.go: Connect starts one goroutine per target that follows the state of the gRPC
   channel and adds / removes the Conn (id = fresh UUID) of the target.  Model: Model/ConnMgr.v - the manager as a state
   machine whose events are Connect, Disconnect and [ESample g s] = goroutine g reads state s of its channel; outputs
   [Added g t id] / [Removed g t id] are what the manager's Watch delivers.  [run n0 es] = [run_from current (init n0) es]
   is conn_manager.go as it is (/repo ac94f55 and later: the Conn is removed on every state but READY, IDLE included);
   [run_before_repair] is the loop before ac94f55 (IDLE left the Conn alone) and appears only in the regression theorem;
   theorems stated with [fx] hold for both.  n0 is the first connection id (ids are a counter: fresh, as UUIDs are).

   What the protocol theorems need from the manager (the contract), and where it is proved:
   (i)   whenever the channel of a target is lost and READY again, the old connection is Removed before a new one is
         Added, and the new one has a new id:
         - C10_conn_seen_loss_replaces (the main loss theorem, current code): for EVERY event sequence, if between two
           READY samples the goroutine read at least ONE state other than READY ([loss_seen current]) and did not read
           SHUTDOWN, the connection it had is Removed and it ends with a new, larger id.  After a lost transport the
           channel stays IDLE until somebody asks it to connect - the goroutine itself, when it reads IDLE, or an RPC
           issued on the idle channel - so reading nothing is only possible in the second case;
         - C10_conn_channel_loss_replaces: in particular when the goroutine reads EVERY state of a channel that follows
           gRPC's transitions ([chan_ok]: READY can only be left through IDLE, and READY only be entered from CONNECTING);
         - C10_conn_unread_loss_refuted: what is NOT covered - this is the honest limit of a loop that samples the
           state: WITHOUT any assumption on the samples the contract does not hold; the channel goes READY IDLE
           CONNECTING READY and the goroutine reads READY READY (it was not scheduled in between and an RPC re-dialled
           the idle channel): nothing is Removed.  C10_conn_seen_loss_replaces is the partial theorem under the negation
           of that shape.  Not observed on the real manager (0 of 4000 at-once restarts of 800 concurrent managers);
         - C10_conn_skipped_connecting_before_repair: regression for finding F-CONN-1, fixed by /repo ac94f55: the loop
           before the repair kept the old connection on the samples READY IDLE READY (a re-dial that completes before
           the goroutine reads the state again hides CONNECTING; reproduced on the real manager, about 1 % of 800
           concurrent at-once restarts); C10_conn_repair_covers_the_witness: the code as it is Removes and Adds on them;
   (ii)  ids are never reused: C10_conn_ids_never_reused, C10_conn_ids_increasing;
   (iii) at most one live connection per Connect: C10_conn_one_live_per_connect (the Added / Removed outputs of a
         goroutine alternate and each Removed is of the id Added last), C10_conn_get_is_live (Get answers exactly for
         the current connections of the goroutines), C10_conn_id_of_one_connect (no id belongs to two goroutines),
         C10_conn_removed_id_not_handed_out (after Removed id, Get id fails for ever);
         C10_conn_two_live_of_one_target: per TARGET the bound is not one - Disconnect + Connect makes a second
         goroutine while the first has not yet read SHUTDOWN (both connections are distinct LConnUp labels, which the
         protocol model allows);
   (iv)  refinement: C10_conn_refines_conn_labels - the Watch trace read as LConnUp id t / LConnDown id labels,
         interleaved in any way with any other labels of the protocol model, from any world that knows no id >= n0:
         every LConnUp is of an id the world does not have (it takes effect; the over-approximation "(2) the model lets
         a connection id be reused" of Properties/C10.v is not exercised by the manager), every LConnDown is of a live
         id, and the world's [conns] above n0 is the manager's m.conns map at every end of such a run.
   Examples (Proofs/ConnMgrEx.v): the hypotheses hold on a run with a failed attempt in between (ex_away_hyps).
   Trusted: the transcription (differentially executed against the real manager over real gRPC by harness/cmd/conn +
   ocaml/conn_check.ml on every run), freshness of UUIDs, gRPC's channel transitions [chan_next] (read off grpc-go 1.54). *)
From stdpp Require Import gmap.
From RecordUpdate Require Import RecordUpdate.
From Coq Require Import NArith List.
From OC Require Import Model.Proto2 Proofs.P2Base Proofs.ConnMgrRefine.
From OC Require Model.ConnMgr Proofs.ConnMgrProofs Proofs.ConnMgrEx.
Module CM := OC.Model.ConnMgr.
Module CP := OC.Proofs.ConnMgrProofs.
Module CE := OC.Proofs.ConnMgrEx.
Open Scope N_scope.

Theorem C10_conn_seen_loss_replaces : forall n0 es1 g go id1 es2,
  let m := fst (CM.run_from CM.current (CM.init n0) es1) in
  nth_error (CM.m_gors m) g = Some go -> CM.g_conn go = Some id1 ->
  existsb (CM.loss_seen CM.current) (CM.samples_of g es2) = true -> ~ In CM.Shutdown (CM.samples_of g es2) ->
  In (CM.Removed g (CM.g_target go) id1) (snd (CM.run_from CM.current m (es2 ++ [CM.ESample g CM.Ready]))) /\
  exists id2, CP.gconn (fst (CM.run_from CM.current m (es2 ++ [CM.ESample g CM.Ready]))) g = Some id2 /\ id1 < id2.
Proof. exact (CP.seen_loss_replaces_run CM.current). Qed.

Theorem C10_conn_channel_loss_replaces : forall n0 es1 g go id1 es2,
  let m := fst (CM.run_from CM.current (CM.init n0) es1) in
  nth_error (CM.m_gors m) g = Some go -> CM.g_conn go = Some id1 ->
  CM.samples_of g es2 <> [] -> CM.chan_ok (CM.Ready :: CM.samples_of g es2 ++ [CM.Ready]) = true ->
  In (CM.Removed g (CM.g_target go) id1) (snd (CM.run_from CM.current m (es2 ++ [CM.ESample g CM.Ready]))) /\
  exists id2, CP.gconn (fst (CM.run_from CM.current m (es2 ++ [CM.ESample g CM.Ready]))) g = Some id2 /\ id1 < id2.
Proof. exact (CP.channel_loss_replaces_run CM.current). Qed.

Theorem C10_conn_unread_loss_refuted :
  exists (cs ss l1 mid l2 : list CM.chan_state),
    CM.chan_ok cs = true /\ CM.sampled cs ss = true /\
    cs = l1 ++ CM.Ready :: mid ++ CM.Ready :: l2 /\ mid <> [] /\ l2 = [] /\ last ss CM.Idle = CM.Ready /\
    CM.added_ids (snd (CM.run 1 (CM.EConnect 7 :: map (CM.ESample 0) ss))) = [1] /\
    (forall g t id, ~ In (CM.Removed g t id) (snd (CM.run 1 (CM.EConnect 7 :: map (CM.ESample 0) ss)))) /\
    CM.get (fst (CM.run 1 (CM.EConnect 7 :: map (CM.ESample 0) ss))) 1 = Some 7.
Proof. exact CE.unread_loss_refuted. Qed.

Theorem C10_conn_skipped_connecting_before_repair :
  exists (cs ss l1 mid l2 : list CM.chan_state),
    CM.chan_ok cs = true /\ CM.sampled cs ss = true /\
    cs = l1 ++ CM.Ready :: mid ++ CM.Ready :: l2 /\ mid <> [] /\ l2 = [] /\ last ss CM.Idle = CM.Ready /\
    CM.added_ids (snd (CM.run_before_repair 1 (CM.EConnect 7 :: map (CM.ESample 0) ss))) = [1] /\
    (forall g t id, ~ In (CM.Removed g t id) (snd (CM.run_before_repair 1 (CM.EConnect 7 :: map (CM.ESample 0) ss)))) /\
    CM.get (fst (CM.run_before_repair 1 (CM.EConnect 7 :: map (CM.ESample 0) ss))) 1 = Some 7.
Proof. exact CE.skipped_connecting_refuted_before_repair. Qed.

Theorem C10_conn_repair_covers_the_witness :
  snd (CM.run 1 CE.ex_skip) = [CM.Added 0 7 1; CM.Removed 0 7 1; CM.CallConnect 0; CM.Added 0 7 2] /\
  CP.gconn (fst (CM.run 1 CE.ex_skip)) 0 = Some 2 /\ CM.get (fst (CM.run 1 CE.ex_skip)) 1 = None.
Proof. exact CE.skipped_connecting_now. Qed.

Theorem C10_conn_ids_never_reused : forall fx n0 es, NoDup (CM.added_ids (snd (CM.run_from fx (CM.init n0) es))).
Proof. exact CP.ids_never_reused. Qed.

Theorem C10_conn_ids_increasing : forall fx n0 es, CP.increasing_from n0 (CM.added_ids (snd (CM.run_from fx (CM.init n0) es))).
Proof. exact CP.ids_increasing. Qed.

Theorem C10_conn_one_live_per_connect : forall fx n0 es g,
  CM.alternates g None (snd (CM.run_from fx (CM.init n0) es)) = Some (CP.gconn (fst (CM.run_from fx (CM.init n0) es)) g).
Proof. exact CP.one_live_per_connect. Qed.

Theorem C10_conn_get_is_live : forall fx n0 es id t,
  let m := fst (CM.run_from fx (CM.init n0) es) in
  CM.get m id = Some t <->
  exists g go, nth_error (CM.m_gors m) g = Some go /\ CM.g_conn go = Some id /\ CM.g_target go = t.
Proof. exact CP.get_is_live. Qed.

Theorem C10_conn_id_of_one_connect : forall fx n0 es g1 g2 id,
  let m := fst (CM.run_from fx (CM.init n0) es) in
  CP.gconn m g1 = Some id -> CP.gconn m g2 = Some id -> g1 = g2.
Proof. exact CP.conn_of_one_connect. Qed.

Theorem C10_conn_removed_id_not_handed_out : forall fx n0 es g t id,
  In (CM.Removed g t id) (snd (CM.run_from fx (CM.init n0) es)) -> CM.get (fst (CM.run_from fx (CM.init n0) es)) id = None.
Proof. exact CP.removed_id_not_handed_out. Qed.

Theorem C10_conn_two_live_of_one_target :
  snd (CM.run 1 CE.ex_reconnect) = [CM.Added 0 7 1; CM.Added 1 7 2] /\
  CM.get (fst (CM.run 1 CE.ex_reconnect)) 1 = Some 7 /\ CM.get (fst (CM.run 1 CE.ex_reconnect)) 2 = Some 7 /\
  snd (CM.run 1 (CE.ex_reconnect ++ [CM.ESample 0 CM.Shutdown])) = [CM.Added 0 7 1; CM.Added 1 7 2; CM.Removed 0 7 1].
Proof. exact CE.two_live_of_one_target. Qed.

Section C10_conn.
  Context {V Ch Req D : Type}.
  Context (candidate : V -> Ch -> V) (candidate_rb : V -> Ch -> V) (rollback_of : V -> Ch -> Ch)
          (overlay : V -> V -> V) (commit_merge : N -> N -> V -> V -> Ch -> V)
          (payload : N -> V -> Ch -> option Req) (record_applied : N -> N -> V -> V -> V -> Ch -> V)
          (touched : N -> V -> Ch -> V) (restore : V -> V -> V)
          (resync_payload : V -> list (option Req)) (doc_ok : V -> bool)
          (dev_apply : D -> Req -> D) (stamp : N -> Ch -> Ch) (v_empty : V) (d_empty : D) (ch_empty : Ch).
  Notation world := (@world V Ch Req D).
  Notation label := (@label Ch).
  Notation step := (@step V Ch Req D candidate candidate_rb rollback_of overlay commit_merge payload record_applied
                          touched restore resync_payload doc_ok dev_apply stamp v_empty d_empty ch_empty).
  Notation effective := (@effective V Ch Req D candidate candidate_rb rollback_of overlay commit_merge payload record_applied
                                    touched restore resync_payload doc_ok dev_apply stamp v_empty d_empty ch_empty).

  Theorem C10_conn_refines_conn_labels : forall fx n0 es (w0 : world) (ls : list label),
    (forall c, n0 <= c -> conns w0 !! c = None) ->
    List.filter is_conn_label ls = labels_of (snd (CM.run_from fx (CM.init n0) es)) ->
    effective w0 ls /\
    forall c, conns (fold_left step ls w0) !! c =
              if n0 <=? c then CM.get (fst (CM.run_from fx (CM.init n0) es)) c else conns w0 !! c.
  Proof.
    exact (manager_refines_conn_labels candidate candidate_rb rollback_of overlay commit_merge payload record_applied
             touched restore resync_payload doc_ok dev_apply stamp v_empty d_empty ch_empty).
  Qed.
End C10_conn.

Print Assumptions C10_conn_seen_loss_replaces.
Print Assumptions C10_conn_channel_loss_replaces.
Print Assumptions C10_conn_unread_loss_refuted.
Print Assumptions C10_conn_skipped_connecting_before_repair.
Print Assumptions C10_conn_repair_covers_the_witness.
Print Assumptions C10_conn_ids_never_reused.
Print Assumptions C10_conn_ids_increasing.
Print Assumptions C10_conn_one_live_per_connect.
Print Assumptions C10_conn_get_is_live.
Print Assumptions C10_conn_id_of_one_connect.
Print Assumptions C10_conn_removed_id_not_handed_out.
Print Assumptions C10_conn_two_live_of_one_target.
Print Assumptions C10_conn_refines_conn_labels.

(* C08 - Every Set and rollback request is answered, and the answer is truthful.
   Statements only; proofs live in Proofs/HandlerProofs.v and Proofs/Watch2Proofs.v.
   The wait predicates and failure switches (set_wait, rollback_wait) are built from Gen/Tables.v, which
   is regenerated from the Go source on every run: these theorems are re-proved against the current code.

   h       : the successive records of the request's transaction (one per store write), any length
   j, k    : how many of them the store's event loop had dispatched when the handler's watch was
             registered / had been written when the watch's replay read was served (Model/Watch2.v);
             placement_ok: 1 <= k <= |h| and j <= k - every placement of the controllers' progress
             relative to the handler's Create and Watch steps
   sy      : the request's synchronicity *)
From Coq Require Import List NArith Arith Bool.
From OC Require Import Base.Bytes Model.Failure Model.Watch2 Model.Handler Gen.Tables Proofs.HandlerProofs.
Import ListNotations.
Local Close Scope N_scope.
Local Open Scope nat_scope.

(* never keeps waiting for a transaction that has finished (wait loops of Set and RollbackTransaction) *)
Theorem C08_answers : forall sy h j k,
  placement_ok h j k = true -> terminal (last_status h) = true ->
  set_wait (events_of sy (delivered h j k)) <> Waiting /\
  rollback_wait (events_of sy (delivered h j k)) <> Waiting.
Proof. exact answers. Qed.
Print Assumptions C08_answers.

(* the same for the complete handlers *)
Theorem C08_answers_handlers : forall log nlog id cm sy h j k,
  placement_ok h j k = true -> terminal (last_status h) = true ->
  snd (set_handler log id cm (events_of sy (delivered h j k))) <> SetWaiting /\
  rollback_handler nlog id (events_of sy (delivered h j k)) <> RbWaiting.
Proof. exact handlers_answer. Qed.
Print Assumptions C08_answers_handlers.

(* ... and under any delivery at all (events lost, repeated, reordered) that hands over the final record *)
Theorem C08_answers_any_delivery : forall sy h d,
  terminal (last_status h) = true -> In (last_status h) d ->
  set_wait (events_of sy d) <> Waiting /\ rollback_wait (events_of sy d) <> Waiting.
Proof. exact answers_any_delivery. Qed.
Print Assumptions C08_answers_any_delivery.

(* ... and stated on the store's whole log: the id filter hands the watcher its own transaction only *)
Theorem C08_answers_whole_log : forall (log : list (str * tx_status)) tid sy j k,
  let h := project eqb_str tid log in
  j <= k -> k <= length log -> 1 <= length (project eqb_str tid (firstn k log)) ->
  terminal (last_status h) = true ->
  set_wait (events_of sy (log_delivered eqb_str log tid j k)) <> Waiting /\
  rollback_wait (events_of sy (log_delivered eqb_str log tid j k)) <> Waiting.
Proof. exact answers_whole_log. Qed.
Print Assumptions C08_answers_whole_log.

(* success only if the awaited stage was reached (committed or applied for asynchronous requests, applied
   for synchronous ones); an error only if the transaction is FAILED for good, with the status code of the
   failure class recorded in it *)
Theorem C08_truthful : forall sy h j k,
  (set_wait (events_of sy (delivered h j k)) = Succeeded -> reached sy h = true) /\
  (rollback_wait (events_of sy (delivered h j k)) = Succeeded -> reached sy h = true) /\
  (forall c, valid_history h = true ->
     set_wait (events_of sy (delivered h j k)) = Failed_with c \/
     rollback_wait (events_of sy (delivered h j k)) = Failed_with c ->
     st_state (last_status h) = FAILED /\ c = status_of_failure (st_failure (last_status h))).
Proof. exact truthful. Qed.
Print Assumptions C08_truthful.

(* the complete Set handler (response construction included; cm_parses: every path of the request's change
   map parses back into gNMI elements, see HandlerProofs.set_err_unparsable_path_witness) *)
Theorem C08_truthful_set_handler : forall log id cm sy h j k,
  (forall r, snd (set_handler log id cm (events_of sy (delivered h j k))) = SetOk r -> reached sy h = true) /\
  (forall c, cm_parses cm = true -> valid_history h = true ->
     snd (set_handler log id cm (events_of sy (delivered h j k))) = SetErr c ->
     st_state (last_status h) = FAILED /\ c = status_of_failure (st_failure (last_status h))).
Proof. exact set_handler_truthful. Qed.
Print Assumptions C08_truthful_set_handler.

Theorem C08_truthful_rollback_handler : forall nlog id sy h j k,
  (forall i n, rollback_handler nlog id (events_of sy (delivered h j k)) = RbOk i n -> reached sy h = true) /\
  (forall c, valid_history h = true ->
     rollback_handler nlog id (events_of sy (delivered h j k)) = RbErr c ->
     st_state (last_status h) = FAILED /\ c = status_of_failure (st_failure (last_status h))).
Proof. exact rollback_handler_truthful. Qed.
Print Assumptions C08_truthful_rollback_handler.

(* the successful Set response lists exactly the (target, path, update|delete) triples of the request's
   change map and carries the identifier and the log index under which that change map is stored *)
Theorem C08_response_exact : forall log id cm evs r,
  snd (set_handler log id cm evs) = SetOk r ->
  resp_rows r = rows_of cm /\ resp_id r = id /\
  tx_lookup (fst (set_handler log id cm evs)) (resp_index r) = Some (id, cm).
Proof. exact response_exact. Qed.
Print Assumptions C08_response_exact.

Theorem C08_response_exact_rollback : forall nlog id evs id' index,
  rollback_handler nlog id evs = RbOk id' index -> id' = id /\ index = N.of_nat (S nlog).
Proof. exact rollback_response_exact. Qed.
Print Assumptions C08_response_exact_rollback.

(* the generated failure switches of Set and RollbackTransaction, composed with the library's status
   mapping, give every failure class its own status code (status_of), never OK, and the class can be
   read back from the code *)
Theorem C08_roundtrip_table :
  (forall f, lib_status (set_failure_ctor f) = status_of f) /\
  (forall f, lib_status (rollback_failure_ctor f) = status_of f) /\
  lib_status set_nil_failure_ctor = G_Unknown /\
  lib_status rollback_nil_failure_ctor = G_Unknown /\
  (forall f, In f named_failure_types -> class_of_code (lib_status (set_failure_ctor f)) = Some f) /\
  (forall f, In f named_failure_types -> class_of_code (lib_status (rollback_failure_ctor f)) = Some f) /\
  (forall f, status_of f <> G_OK).
Proof. exact roundtrip_table. Qed.
Print Assumptions C08_roundtrip_table.

(* the store's watcher registry (idWatchers): a watcher that leaves unregisters only itself, so a second
   watcher of the request's transaction coming and going does not change what the handler is sent *)
Theorem C08_second_watcher_leaves : forall (r : list (str * list nat)) t2 w2 t1 w1,
  w1 <> w2 ->
  (In w1 (watchers_of eqb_str (unregister eqb_str Nat.eqb r t2 w2) t1) <-> In w1 (watchers_of eqb_str r t1)).
Proof. exact second_watcher_leaves. Qed.
Print Assumptions C08_second_watcher_leaves.

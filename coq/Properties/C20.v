(* C20 - The v3 transaction protocol keeps its specified order and consistency.
   Statements only; proofs live in Proofs/Proto3Proofs.v, Proofs/Proto3Witness.v and Proofs/Proto3Order*.v.
   PROVED, unbounded (all reachable worlds): commit-before-apply, ordinal monotonicity, and the whole first conjunct of
   Order of spec/Config.tla - C20_order (reach w -> order_ok (w_hist w) = true) with its readable consequences
   C20_changes_in_log_order, C20_ordinals_follow_log_order, C20_rollbacks_reverse(_explicit); the proof goes through the
   frontier invariant C20_frontier_invariant (Proofs/Proto3OrderBase.v: SInv + HInv, 28 conjuncts relating the Committed /
   Applied cursors to the phase states of all transactions and to the history).
   Also PROVED unbounded: C20_failed_blocks_later (a change whose apply FAILED or was ABORTED keeps every later change from
   being applied until it is rolled back), through the second invariant layer C20_blocks_invariant (Proofs/Proto3Blocks*.v).
   BOUNDED only (depth 7): Consistency on histories inside the guards (C20_safety_bounded_partial).
   REFUTED for the code as it is: Consistency and termination (C20_*_refuted).
   reach w = w is the result of ANY finite sequence of labels (append change, rollback request, reconcile of a
   transaction / the configuration / the mastership with any oracle and any crash point, topology and connection
   changes, device restart) from the empty world. *)
From Coq Require Import List NArith Bool Lia.
From OC Require Import Model.Proto3 Spec.Tla3 Proofs.Proto3Proofs Proofs.Proto3Witness
  Proofs.Proto3OrderBase Proofs.Proto3OrderStep Proofs.Proto3OrderThm Proofs.Proto3Ordinals Proofs.Proto3BlocksBase Proofs.Proto3BlocksStep.
Import ListNotations.
Open Scope N_scope.

(* PROVED for every reachable world (all histories, schedules, crash points): each phase is committed before it is
   applied - a change whose apply is or was in progress on the device has its commit COMPLETE, a rollback whose apply
   left PENDING has its rollback commit COMPLETE. *)
Theorem C20_commit_before_apply : forall w, reach w -> Forall cba (w_txs w).
Proof. exact commit_before_apply_reach. Qed.
Print Assumptions C20_commit_before_apply.

(* PROVED for every world and every label: the committed ordinal - the sequence number that orders applies - never
   decreases and grows by at most one per step. *)
Theorem C20_ordinal_mono : forall w l c c',
  w_cfg w = Some c -> w_cfg (step w l) = Some c' ->
  k_ordinal (c_cm c) <= k_ordinal (c_cm c') <= k_ordinal (c_cm c) + 1.
Proof. exact committed_ordinal_step. Qed.
Print Assumptions C20_ordinal_mono.

(* PROVED for every reachable world: the frontier invariant.  Inv w = SInv /\ HInv over (get_tx w, number of transactions,
   Committed cursor, Applied cursor, history): Committed.Index = Committed.Change; transactions above Change + 1 are PENDING,
   the one at Change + 1 is PENDING or (IN_PROGRESS / FAILED with Committed.Target naming it), those up to Change are
   COMPLETE / FAILED (or the one at Change is IN_PROGRESS with its configuration write done); a rollback commit that left
   PENDING belongs to the transaction at Committed.Index with Committed.Target = its rollback index; ordinals of committed
   changes are positive, bounded by Committed.Ordinal and strictly increasing in the log index, a committed rollback holds the
   top ordinal; a change apply IN_PROGRESS is the one Applied.Target names with Applied.Ordinal just below (or equal, after its
   configuration write) its ordinal; COMPLETE / ABORTED / FAILED applies are at most one above Applied.Ordinal; a rollback
   apply IN_PROGRESS has its commit COMPLETE and Applied.Target = its rollback index; every completed change commit in the
   history has index <= Committed.Change, every committed change has its completion event, every completed change apply in
   the history belongs to a committed change with ordinal <= Applied.Ordinal; and the history is ordered. *)
Theorem C20_frontier_invariant : forall w, reach w -> Inv w.
Proof. exact Inv_reach. Qed.
Print Assumptions C20_frontier_invariant.

(* PROVED for every reachable world (all label sequences, all crash prefixes, all oracles): the first conjunct of Order of
   spec/Config.tla - every COMPLETE event of the history is an ordered change commit / change apply / rollback commit /
   rollback apply with respect to the events before it. *)
Theorem C20_order : forall w, reach w -> order_ok (w_hist w) = true.
Proof. exact order_reach. Qed.
Print Assumptions C20_order.

(* ... hence: change commits complete in log-index order and change applies complete in log-index order (p = StCommit / StApply) *)
Theorem C20_changes_in_log_order : forall w, reach w ->
  forall p h1 e1 h2 e2 h3, w_hist w = h1 ++ e1 :: h2 ++ e2 :: h3 ->
  is_ev PhChange p e1 = true -> is_ev PhChange p e2 = true -> e_index e1 < e_index e2.
Proof. exact changes_in_log_order_reach. Qed.
Print Assumptions C20_changes_in_log_order.

(* ... the ordinal handed out at commit, which sequences the applies, grows with the log index *)
Theorem C20_ordinals_follow_log_order : forall w, reach w ->
  forall j t k u, get_tx w j = Some t -> get_tx w k = Some u -> t_cc t = Complete -> t_cc u = Complete -> j < k ->
  t_cord t < t_cord u.
Proof. exact ordinals_follow_log_order_reach. Qed.
Print Assumptions C20_ordinals_follow_log_order.

(* ... and the ordinals stay inside the Committed cursor of the configuration: a committed change carries an ordinal between 1
   and Committed.Ordinal; a committed rollback carries exactly Committed.Ordinal, above the ordinal of every committed change
   (a rollback record never names an ordinal the configuration has not reached: the applies are sequenced by these numbers).
   The monitor c20_ordinal_outside_cursor evaluates both on the records of the implementation after every step. *)
Theorem C20_change_ordinal_within_cursor : forall w, reach w ->
  forall j t, get_tx w j = Some t -> t_cc t = Complete -> 1 <= t_cord t <= k_ordinal (cmc w).
Proof. exact change_ordinal_within_cursor_reach. Qed.
Print Assumptions C20_change_ordinal_within_cursor.

Theorem C20_rollback_ordinal_is_cursor : forall w, reach w ->
  forall j t, get_tx w j = Some t -> t_rc t = Some Complete ->
  t_rord t = k_ordinal (cmc w) /\
  forall k u, get_tx w k = Some u -> t_cc u = Complete -> t_cord u < t_rord t.
Proof. exact rollback_ordinal_is_cursor_reach. Qed.
Print Assumptions C20_rollback_ordinal_is_cursor.

(* ... rollback commits / applies complete in reverse order of the changes they undo: a completed rollback of stage p is an
   IsOrderedRollback of Config.tla at its position - spelled out: its change was completed before it, and every completed
   stage-p change with a larger index before it has since been followed by a stage-p rollback event of that index *)
Theorem C20_rollbacks_reverse : forall w, reach w ->
  forall p h1 e h2, w_hist w = h1 ++ e :: h2 -> is_ev PhRollback p e = true -> ordered_rollback p h1 e = true.
Proof. exact rollbacks_reverse_reach. Qed.
Print Assumptions C20_rollbacks_reverse.

Theorem C20_rollbacks_reverse_explicit : forall w, reach w ->
  forall p h1 e h2, w_hist w = h1 ++ e :: h2 -> is_ev PhRollback p e = true ->
  (exists x, In x h1 /\ e_phase x = PhChange /\ is_complete x = true /\ e_index x = e_index e) /\
  (forall l1 x l2, h1 = l1 ++ x :: l2 -> is_ev PhChange p x = true -> e_index e < e_index x ->
     exists k, In k l2 /\ e_phase k = PhRollback /\ e_stage k = p /\ e_index k = e_index x).
Proof. exact rollbacks_reverse_explicit_reach. Qed.
Print Assumptions C20_rollbacks_reverse_explicit.

(* PROVED for every reachable world: the second layer of the frontier invariant (FInv, Proofs/Proto3BlocksBase.v) - the
   rollback index a change records when it starts committing is at least every committed index below it; Applied.Target,
   Applied.Revision and Committed.Revision name committed changes; the applied revision stays below every committed change
   the applied ordinal has not reached, and below a change whose apply FAILED / was ABORTED until a rollback apply has
   completed; a PENDING apply that Applied.Target already names passed the abort gate; and the blocking rule itself. *)
Theorem C20_blocks_invariant : forall w, reach w -> Inv w /\ FInv (get_tx w) (cmc w) (apc w).
Proof. exact Inv2_reach. Qed.
Print Assumptions C20_blocks_invariant.

(* PROVED for every reachable world (all label sequences, all crash prefixes, all oracles): after a change whose apply FAILED
   or was ABORTED no later change has its apply IN_PROGRESS or COMPLETE unless the failed one has been rolled back (its
   rollback apply COMPLETE / FAILED) - the abort gate of applyChange, Applied.Revision < Rollback.Index, does its job. *)
Theorem C20_failed_blocks_later : forall w, reach w -> failed_blocks_later_ok w = true.
Proof. exact failed_blocks_later_reach. Qed.
Print Assumptions C20_failed_blocks_later.

(* BOUNDED (Order and the blocking rule are proved above without bound; what is still only bounded here is Consistency,
   which the code violates in general - see the refutations below):
   every label sequence of length <= 7 over append / rollback of the committed revision / reconcile of transactions
   1..2 {complete, crash after the first write, plugin rejects, device refuses} from a healthy single-path
   configuration keeps Order (changes in log order, rollbacks in reverse order), commit-before-apply on the event
   history, the blocking rule for failed / aborted applies and Consistency (committed values, applied values and -
   when synchronized and no apply is in flight - the device hold the change that is the committed / applied revision). *)
Theorem C20_safety_bounded_partial : explore 7 w_healthy = true.
Proof. exact bounded_exploration. Qed.
Print Assumptions C20_safety_bounded_partial.

(* a non-trivial history with a crash between the two records at every step satisfies the whole of Safety, the
   blocking rule and terminates *)
Theorem C20_example_history : let w := run ls_good in
  safety_ok w && failed_blocks_later_ok w && all_terminal w && negb (w_panicked w) = true.
Proof. exact good_history. Qed.
Print Assumptions C20_example_history.

(* REFUTED on the faithful model (each witness reproduced on the real code, findings/C20.jsonl): *)

(* Consistency, committed side (F-20b: the committed path map written by Create shadows later committed values) *)
Theorem C20_consistency_committed_refuted : exists w, reach w /\ order_ok (w_hist w) = true /\ consistency_committed_ok w = false.
Proof. exists (run ls_alias). split; [exists ls_alias; reflexivity | split; [exact alias_history_is_ordered | exact alias_refutes_committed]]. Qed.
Print Assumptions C20_consistency_committed_refuted.

(* Consistency, applied side: after a rollback over a shadowed value (F-20c), through the store's loop variable (F-20d),
   below a tomb-stone (F-20h) *)
Theorem C20_consistency_applied_refuted :
  (exists w, reach w /\ consistency_applied_ok w = false /\ w = run ls_alias_rb) /\
  (exists w, reach w /\ consistency_applied_ok w = false /\ w = run ls_loopvar) /\
  (exists w, reach w /\ consistency_applied_ok w = false /\ w = run ls_tomb).
Proof.
  split; [|split].
  - exists (run ls_alias_rb). split; [exists ls_alias_rb; reflexivity | split; [exact alias_rollback_refutes_applied | reflexivity]].
  - exists (run ls_loopvar). split; [exists ls_loopvar; reflexivity | split; [exact loop_variable_refutes_applied | reflexivity]].
  - exists (run ls_tomb). split; [exists ls_tomb; reflexivity | split; [exact tombstone_refutes_applied | reflexivity]].
Qed.
Print Assumptions C20_consistency_applied_refuted.

(* the applied revision can name a change that never reached the device (F-20g) *)
Theorem C20_applied_revision_refuted : exists w, reach w /\ consistency_applied_ok w = false /\
  match w_cfg w with Some c => match get_tx w (k_revision (c_ap c)) with Some t => t_ca t = Failed | None => False end | None => False end.
Proof.
  exists (run ls_unapplied). split; [exists ls_unapplied; reflexivity | split; [exact unapplied_refutes_applied | vm_compute; reflexivity]].
Qed.
Print Assumptions C20_applied_revision_refuted.

(* hence Safety of spec/Config.tla does not hold for the code as it is *)
Theorem C20_safety_refuted : exists w, reach w /\ safety_ok w = false.
Proof.
  exists (run ls_alias). split; [exists ls_alias; reflexivity|].
  unfold safety_ok, consistency_ok. rewrite alias_refutes_committed. rewrite andb_false_r. reflexivity.
Qed.
Print Assumptions C20_safety_refuted.

(* "every transaction terminates": a reconcile can panic (F-20a) ... *)
Theorem C20_termination_refuted_panic : exists w, reach w /\ w_panicked w = true.
Proof. exists (run ls_nil). split; [exists ls_nil; reflexivity | exact nil_values_panic]. Qed.
Print Assumptions C20_termination_refuted_panic.

(* ... and after a completed rollback (F-20e) or behind a change that failed validation (F-20f) a transaction is
   pending for ever: no reconcile of any transaction under any oracle has any effect, and the configuration and
   mastership reconcilers never write the committed cursors *)
Theorem C20_termination_refuted_wedge : exists w, reach w /\ all_terminal w = false /\
  forall o i, fst (rec_tx o w i) = [].
Proof.
  exists (run ls_wedge). split; [exists ls_wedge; reflexivity|]. split; [exact wedge_not_terminal|].
  intros o i.
  destruct (N.ltb 2 i) eqn:E.
  - apply wedge_no_other_tx. apply N.ltb_lt. exact E.
  - apply N.ltb_ge in E.
    assert (H : i = 0 \/ i = 1 \/ i = 2) by lia.
    destruct H as [-> | [-> | ->]]; [vm_compute; reflexivity | apply wedge_tx1_done | apply wedge_tx2_stuck].
Qed.
Print Assumptions C20_termination_refuted_wedge.

Theorem C20_termination_refuted_behind_failed : exists w, reach w /\ all_terminal w = false /\
  forall o, fst (rec_tx o w 1) = [] /\ fst (rec_tx o w 2) = [].
Proof. exists (run ls_behind). split; [exists ls_behind; reflexivity | split; [exact behind_failed_not_terminal | exact behind_failed_stuck]]. Qed.
Print Assumptions C20_termination_refuted_behind_failed.

(* C12 - No request can crash the server.
   Any gNMI Capabilities, Get, Set or Subscribe request and any admin request that can be decoded
   from the wire is answered with a response or a gRPC status; the handler never panics.
   Statements only; proofs live in Proofs/PanicSkelProofs.v.  The handlers are the transcriptions in
   Model/PanicSkel.v (outcome = Ok | Err code | Panic); np o means "o is not a Panic". *)
From Coq Require Import List NArith ZArith Bool.
From OC Require Import Base.Bytes Model.PanicSkel Proofs.PanicSkelProofs Proofs.PanicSkelRegexp.
Import ListNotations.

(* Set: every decodable request, every topology / plugin set / size limit *)
Theorem C12_total_set : forall e r, set_wire_ok r = true -> is_panic (set_handler e r) = false.
Proof. exact set_handler_total. Qed.
Print Assumptions C12_total_set.

(* the decodability hypothesis cannot be dropped: a nil path element (never produced by a decoder) panics *)
Theorem C12_set_needs_wire_ok : exists e r, set_wire_ok r = false /\ set_handler e r = Panic w_nil.
Proof. exact set_handler_needs_wire_ok. Qed.
Print Assumptions C12_set_needs_wire_ok.

(* Subscribe: every stream of messages, no hypothesis at all (all accessors on the path are nil-safe) *)
Theorem C12_total_subscribe : forall ms subscribed, is_panic (subscribe_handler subscribed ms) = false.
Proof. exact subscribe_handler_total. Qed.
Print Assumptions C12_total_subscribe.

(* Capabilities, ListRegisteredModels, RollbackTransaction, transaction / configuration get-list-watch *)
Theorem C12_total_scalar_handlers : forall i,
  is_panic capabilities_handler = false /\ is_panic list_models_handler = false /\
  is_panic (rollback_handler i) = false /\ is_panic admin_store_handler = false.
Proof. exact misc_handlers_total. Qed.
Print Assumptions C12_total_scalar_handlers.

(* Get: every decodable request against every configuration whose live entries are inside the domain of
   the tree builder and the value accessors (state_ok: holds for empty configurations and is monitored on
   the implementation's stores after every accepted Set) *)
Theorem C12_total_get : forall e st r,
  get_wire_ok r = true -> state_ok st = true -> is_panic (get_handler e st r) = false.
Proof. exact get_handler_total. Qed.
Print Assumptions C12_total_get.

(* regexp.MustCompile accepts the text MatchWildcardRegexp builds from ANY query (exact or prefix form):
   the emitted text always stays inside the recognised regexp fragment *)
Theorem C12_regexp_total : forall q exact, is_panic (must_compile (wildcard_regexp q exact)) = false.
Proof. exact wildcard_regexp_compiles. Qed.
Print Assumptions C12_regexp_total.

(* LeafSelectionQuery without a change context: full *)
Theorem C12_total_leafselection_no_context : forall e st r,
  l_ctx r = None -> state_ok st = true -> is_panic (lsq_handler e st r) = false.
Proof. exact lsq_handler_total_no_context. Qed.
Print Assumptions C12_total_leafselection_no_context.

(* LeafSelectionQuery with a change context.
   PARTIAL: the paths the change context adds become live entries of the configuration the tree is built
   from; the theorem assumes they are inside the tree builder's domain (tree_safe_updates).  Missing: the
   proof that FindPathFromModel(exact) + CheckKeyValue only accept such paths, and a contract for the paths
   a model plugin answers for JSON values. *)
Theorem C12_total_leafselection_partial : forall e st r,
  lsq_wire_ok r = true -> state_ok st = true -> tree_safe_updates e st r -> is_panic (lsq_handler e st r) = false.
Proof. exact lsq_handler_total_partial. Qed.
Print Assumptions C12_total_leafselection_partial.

(* the state hypothesis has content: a path that passes IsPathValid and still makes addPathToTree slice
   out of range (it can only come from a model plugin's answer for a JSON value) *)
Theorem C12_valid_path_outside_tree_domain :
  is_path_valid (B "/list[k=a]]b=c]/v") = true /\ tree_guard (B "/list[k=a]]b=c]/v") = Panic w_slice.
Proof. exact tree_guard_unsafe_valid_path. Qed.
Print Assumptions C12_valid_path_outside_tree_domain.

(* C09 - Controllers never strand a transaction that could make progress.
   Statements only.

   Model: Model/Proto2Queue.v = the protocol model Model/Proto2.v (the five v2 reconcilers, tied to the code by the
   p2 harness) + the pending work of the five controllers as ONE multiset of (controller, id): the six watcher.go
   files are transcribed as [wakes] (which ids a store write / topology change / connection change enqueues) and
   onos-lib-go's reconcileRequest as [requeue] (Requeue{id} enqueues id, an error re-enqueues the same id, anything
   else drops it).  A queue step delivers ANY pending id (every delivery order), runs the whole reconcile, applies its
   effects and enqueues what the watchers map each write to.  The model is the CURRENT code: the repairs of the lost
   wake-ups F-02a (dead_prev), F-02b (initfail_successor), F-02e (sync_wakeup) and of the wedged target F-21 - /repo
   commits ee3b808, 39c8330, cb11c37, 6c28fbb - and of the SERIALIZABLE gates F-02d - eabfc1f, the transaction watcher
   also names the successors of the transaction on each of its targets - are part of Model/Proto2.v and of [wakes].

   How the theorems decide the property.
   The property text is still FALSE for the current code: one lost wake-up family is left (found by the model search
   after the SERIALIZABLE gates were repaired; open finding F-C09-23 with a tested repair fixes/C09-4.patch), shown by
   two theorems about the executable instance (evaluated delivery orders):
     C09_lost_wakeup_sync_serializable_refuted    idle, every target connected and synchronised, and the proposal whose turn
                                                  it is waits in APPLYING for ever: a SERIALIZABLE Set and a plain Set were
                                                  committed before the device connected; the configuration event leads only to
                                                  the second proposal (COMMITTED without apply phase behind the gate), which
                                                  hands over to its successor, never to its predecessor (reproduced on the
                                                  real controllers with their real watchers and queues by harness/cmd/c09)
     C09_requeue_cycle_refuted                    the same situation with a third Set: every target connected, a transaction
                                                  not final, and everything that is pending is a pair of proposals that,
                                                  whatever the oracle, do nothing but re-queue each other: no delivery order
                                                  ever empties the queue or changes the world (a livelock)
   The repaired shapes are regression Examples in Proofs/P2_QueueWitness.v (regression_dead_prev, _apply_failed,
   _initfail_successor, _serializable_gate, _serializable_three, _sync_wakeup, _two_changes_offline,
   _partial_apply_failure: complete histories of the scenarios of F-02a, F-02b, F-02d, F-02e and F-21 end idle, at a
   fixed point, every target connected, every transaction final).
   What is proved for all pure layers, worlds, oracles and delivery orders:
     C09_queue_runs_are_runs      every queued run is a run of Model/Proto2.v (so every invariant proved about that
                                  model - C01 ... - holds in every queued world)
     C09_enabled_only_stored      only ids that name a stored record can be enabled: the "one extra pass over all
                                  objects" of the harness monitors is a complete fixed-point test
     C09_fixpoint_partial         C09_fixpoint under the wake-up-token invariant [tokens] (every enabled id is reached
                                  from a pending id through re-queue results): all queues empty => no reconcile of any
                                  controller id has an effect, for any oracle.
                                  PARTIAL: [tokens] is a hypothesis, not a proved invariant.  The missing lemma is
                                  "qstep preserves tokens" for the model with the repair of F-C09-23 (one case per
                                  effect x waiting state; it needs the chain invariants prev/next/cursors of DESIGN 5.0).
                                  Evidence instead of proof: ocaml/c09_search.ml finds no idle state that is not a fixed
                                  point in > 700 000 idle states without SERIALIZABLE transactions - and, with fixes/C09-4.patch modelled, none and
                                  no livelock with them either (run on every check
                                  by props/c09_extra.py); tokens_satisfiable exhibits a non-trivial world.
     C09_terminates_partial       every write of the transaction controller and of the proposal controller to a
                                  transaction / proposal record strictly lowers the phase rank of that record
                                  (C09_rank_bounds: at most 11 / 12), so records only move forward and each is written a
                                  bounded number of times.  PARTIAL: not summed into one global measure (missing: the
                                  sum over the finite maps, and the cursor writes of the configuration - Proposed /
                                  Committed / Applied indexes - which need the chain invariant prev < index), and
                                  C09_requeue_cycle_refuted shows that effect-free re-queueing need NOT terminate.
   C09_progress is neither proved nor refuted for the current model (its refutation, the wedged target F-21, is repaired:
   regression_partial_apply_failure); a proof needs the same chain invariants. *)
From stdpp Require Import gmap.
From Coq Require Import NArith.
From OC Require Import Base.Bytes Model.P2Pure Model.Proto2 Model.P2Inst Model.Proto2Queue Model.P2QInst
     Proofs.P2Base Proofs.P2Phases Proofs.P2_Queue Proofs.P2_QueueWitness.
Open Scope N_scope.

Section C09.
  Context {V Ch Req D : Type}.
  Context (candidate : V -> Ch -> V) (candidate_rb : V -> Ch -> V) (rollback_of : V -> Ch -> Ch)
          (overlay : V -> V -> V) (commit_merge : N -> N -> V -> V -> Ch -> V)
          (payload : N -> V -> Ch -> option Req) (record_applied : N -> N -> V -> V -> V -> Ch -> V)
          (touched : N -> V -> Ch -> V) (restore : V -> V -> V)
          (resync_payload : V -> list (option Req)) (doc_ok : V -> bool)
          (dev_apply : D -> Req -> D) (stamp : N -> Ch -> Ch) (v_empty : V) (d_empty : D) (ch_empty : Ch).
  Notation reconcile := (@reconcile V Ch Req D candidate candidate_rb rollback_of overlay commit_merge payload record_applied
                                    touched restore resync_payload doc_ok stamp v_empty d_empty ch_empty).
  Notation reach := (@reach V Ch Req D candidate candidate_rb rollback_of overlay commit_merge payload record_applied
                            touched restore resync_payload doc_ok dev_apply stamp v_empty d_empty ch_empty).
  Notation qreach := (@qreach V Ch Req D candidate candidate_rb rollback_of overlay commit_merge payload record_applied
                                 touched restore resync_payload doc_ok dev_apply stamp v_empty d_empty ch_empty).
  Notation tokens := (@tokens V Ch Req D candidate candidate_rb rollback_of overlay commit_merge payload record_applied
                              touched restore resync_payload doc_ok stamp v_empty d_empty ch_empty).
  Notation forward := (@forward V Ch Req D).

  Theorem C09_queue_runs_are_runs : forall (s : @qworld V Ch Req D), qreach s -> reach (qw s).
  Proof. exact (qreach_reach candidate candidate_rb rollback_of overlay commit_merge payload record_applied touched restore
                  resync_payload doc_ok dev_apply stamp v_empty d_empty ch_empty). Qed.

  Theorem C09_enabled_only_stored : forall (o : oracle) (w : @world V Ch Req D) (c : ctrl),
    fst (reconcile o w c) <> [] -> In c (all_ctrls w).
  Proof. exact (enabled_stored candidate candidate_rb rollback_of overlay commit_merge payload record_applied touched restore
                  resync_payload doc_ok stamp v_empty d_empty ch_empty). Qed.

  Theorem C09_fixpoint_partial : forall (s : @qworld V Ch Req D),
    qreach s -> tokens s -> idle s = true -> forall c o, fst (reconcile o (qw s) c) = [].
  Proof. exact (fun s _ => fixpoint_of_tokens candidate candidate_rb rollback_of overlay commit_merge payload record_applied touched
                  restore resync_payload doc_ok stamp v_empty d_empty ch_empty s). Qed.

  Theorem C09_terminates_partial : forall (o : oracle) (w : @world V Ch Req D) (c : ctrl),
    (match c with CtlTx _ | CtlProp _ => True | _ => False end) -> Forall (forward w) (fst (reconcile o w c)).
  Proof. exact (records_move_forward candidate candidate_rb rollback_of overlay commit_merge payload record_applied touched restore
                  resync_payload doc_ok stamp v_empty d_empty ch_empty). Qed.

  Theorem C09_rank_bounds : forall (T : @txn Ch) (P : @prop Ch), (mt T <= 11)%nat /\ (mp P <= 12)%nat.
  Proof. exact (fun T P => conj (mt_bound T) (mp_bound P)). Qed.
End C09.

(* the current code, executable instance *)
Theorem C09_lost_wakeup_sync_serializable_refuted : lost_wakeup sig_apply_ready.
Proof. exact lost_wakeup_sync_serializable. Qed.
Theorem C09_requeue_cycle_refuted : livelock.
Proof. exact livelock_behind_gate. Qed.

Print Assumptions C09_queue_runs_are_runs.
Print Assumptions C09_enabled_only_stored.
Print Assumptions C09_fixpoint_partial.
Print Assumptions C09_terminates_partial.
Print Assumptions C09_rank_bounds.
Print Assumptions C09_lost_wakeup_sync_serializable_refuted.
Print Assumptions C09_requeue_cycle_refuted.

(* C09 - Controllers never strand a transaction that could make progress.
   Statements only.

   Model: Model/Proto2Queue.v = the protocol model Model/Proto2.v (the five v2 reconcilers, tied to the code by the
   p2 harness) + the pending work of the five controllers as ONE multiset of (controller, id): the six watcher.go
   files are transcribed as [wakes] (which ids a store write / topology change / connection change enqueues) and
   onos-lib-go's reconcileRequest as [requeue] (Requeue{id} enqueues id, an error re-enqueues the same id, anything
   else drops it).  A queue step delivers ANY pending id (every delivery order), runs the whole reconcile, applies its
   effects and enqueues what the watchers map each write to.  The model is the CURRENT code: the repairs of the lost
   wake-ups F-02a (dead_prev), F-02b (initfail_successor), F-02e (sync_wakeup) and of the wedged target F-21 - /repo
   commits ee3b808, 39c8330, cb11c37, 6c28fbb - of the SERIALIZABLE gates F-02d - eabfc1f, the transaction watcher also
   names the successors of the transaction on each of its targets - and of F-C09-23 - 3e4ef79, the proposal
   controller's configuration watcher also names the first proposal that is not applied yet - are part of Model/Proto2.v and of [wakes].

   How the theorems decide the property.
   No lost wake-up family is known any more for the current code: the model search (ocaml/c09_search.ml, run on every
   check) finds no idle state that is not a fixed point and no livelock with every target connected, with and without
   SERIALIZABLE transactions (> 700 000 idle states per tier-thorough run); the seven scenarios of the repaired
   findings complete on the real controllers (harness/cmd/c09) and as regression Examples in Proofs/P2_QueueWitness.v
   (regression_dead_prev, _apply_failed, _initfail_successor, _serializable_gate, _serializable_three, _sync_wakeup,
   _sync_serializable, _serializable_two_followers, _sync_serializable_rollback, _two_changes_offline, _partial_apply_failure: they end idle, at a fixed point, every target
   connected, every transaction final).  The property is NOT proved in full:
     C09_busy_wait_refuted        "the controllers have no pending work" need not be reached while a device is away: behind
                                  a SERIALIZABLE transaction that waits for its device, a COMMITTED proposal whose apply
                                  phase was not started and its successor in APPLYING re-queue each other, whatever the
                                  oracle, and nothing else is pending: the work set stays non-empty and the world unchanged
                                  until the environment moves (open finding F-C09-22; no small repair)
   What is proved for all pure layers, worlds, oracles and delivery orders:
     C09_queue_runs_are_runs      every queued run is a run of Model/Proto2.v (so every invariant proved about that
                                  model - C01 ... - holds in every queued world)
     C09_enabled_only_stored      only ids that name a stored record can be enabled: the "one extra pass over all
                                  objects" of the harness monitors is a complete fixed-point test
     C09_fixpoint_partial         C09_fixpoint under the wake-up-token invariant [tokens] (every enabled id is reached
                                  from a pending id through re-queue results): all queues empty => no reconcile of any
                                  controller id has an effect, for any oracle.
                                  PARTIAL: [tokens] is a hypothesis, not a proved invariant.  Proved towards it:
     C09_writes_wake_owners       after the delivery of ANY pending id, for every record it wrote the controller of that
                                  record, the transaction of a written proposal, and for a configuration the proposal
                                  controller (Index, Applied.Index, Proposed.Index), the configuration and the mastership
                                  controller are pending: every id whose enabledness depends only on the written record
                                  keeps a token.
     C09_wait_a_has_token         PROVED for every reachable queued world (wait (a)): an INITIALIZING transaction that is
                                  enabled is pending, or its predecessor is INITIALIZED and has not started validating -
                                  and the write that takes the predecessor past its validate gate returns Requeue{i}.
     C09_wait_b_has_token         PROVED for every reachable queued world (wait (b)): an enabled transaction at one of the
                                  three gates (INITIALIZED / VALIDATED / COMMITTED, next phase not started) is pending: the
                                  transaction event of the SERIALIZABLE predecessor that opens the gate names it (tx_wakes,
                                  eabfc1f; uses J, K, T_inv, C_inv of the protocol model lifted to queued worlds).
     C09_fixpoint_partial2        the fixed-point theorem with the token hypothesis ONLY for the ids that are not an
                                  INITIALIZING or gate-state transaction ([tokens_rest]): all queues empty => a reconcile
                                  has no effect, or it is an INITIALIZING transaction whose predecessor is INITIALIZED and
                                  parked at the validate gate, closed behind a SERIALIZABLE transaction that is not
                                  VALIDATED yet ([parked_behind_gate]; excluding it at an idle world needs the descent over
                                  transaction indexes: that older transaction must itself have something pending).
                                  Note: [tokens] as stated (effect-free hand-overs only) is NOT an invariant of the non-idle
                                  reachable worlds - exactly wait (a) breaks it, between the predecessor's INITIALIZED write
                                  and its next reconcile (1.7 million reachable states checked by ocaml/c09_search.ml with
                                  C09_INV=2: no other shape) - which is why (a) is stated with the guardian disjunct.
                                  STILL MISSING for [tokens_rest] (each needs the chain invariants C_inv / T_inv / G_inv of
                                  Proofs/P2_Cursor*.v, which hold in every queued world by C09_queue_runs_are_runs, plus a
                                  case analysis per waiting state): the cross-record waits -
                                  the transaction controller's phase scans (woken by the proposal events: record-local,
                                      C09_writes_wake_owners) and
                                  (c) a proposal waiting for Committed / Applied.Index = PrevIndex (token: the predecessor's
                                      requeue_next, or the walk back from Proposed.Index / first_unapplied) - the VALIDATE
                                      half of it (Committed.Index = PrevIndex) is now PROVED for every queued world:
                                      C09_wait_c_has_token at the end of this file (Proofs/P2_QueueWaitC{,2,3}.v), with the
                                      guardian it needs (the predecessor is in Abort IN_PROGRESS, and its Applied.Index is not
                                      yet on its own PrevIndex or the predecessor itself is pending); the Abort IN_PROGRESS
                                      and Apply waits on the cursors are still open;
                                  (d) a proposal in APPLYING waiting for master / term / synchronisation / connection
                                      (token: cfg_wakes first_unapplied);
                                  and an environment hypothesis: no foreign CONTROLS relation and no target removed while its
                                  connection stays (there the connection / mastership ids are enabled by design without
                                  being woken).  Evidence instead of proof: the search above.
     C09_terminates_partial       every write of the transaction controller and of the proposal controller to a
                                  transaction / proposal record strictly lowers the phase rank of that record
                                  (C09_rank_bounds: at most 11 / 12), so records only move forward and each is written a
                                  bounded number of times.  PARTIAL: not summed into one global measure (missing: the
                                  sum over the finite maps, and the cursor writes of the configuration - Proposed /
                                  Committed / Applied indexes - which need the chain invariant prev < index), and
                                  C09_busy_wait_refuted shows that effect-free re-queueing need NOT terminate while a device is away.
   C09_progress (reachable, every target connected, a transaction not final => some id enabled) is neither proved nor
   refuted for the current model (its refutation, the wedged target F-21, is repaired: regression_partial_apply_failure);
   a proof needs the same chain invariants and the case analysis (c), (d) read as progress statements. *)
From stdpp Require Import gmap.
From Coq Require Import NArith.
From OC Require Import Base.Bytes Model.P2Pure Model.Proto2 Model.P2Inst Model.Proto2Queue Model.P2QInst
     Proofs.P2Base Proofs.P2Phases Proofs.P2_Cursor Proofs.P2_Queue Proofs.P2_QueueWaitA Proofs.P2_QueueWaitC Proofs.P2_QueueWitness.
Open Scope N_scope.

Section C09.
  Context {V Ch Req D : Type}.
  Context (candidate : V -> Ch -> V) (candidate_rb : V -> Ch -> V) (rollback_of : V -> Ch -> Ch)
          (overlay : V -> V -> V) (commit_merge : N -> N -> V -> V -> Ch -> V)
          (payload : N -> V -> Ch -> option Req) (record_applied : N -> N -> V -> V -> V -> Ch -> V)
          (touched : N -> V -> Ch -> V) (restore : V -> V -> V)
          (resync_payload : V -> list (option Req)) (doc_ok : V -> bool)
          (dev_apply : D -> Req -> D) (stamp : N -> Ch -> Ch) (v_empty : V) (d_empty : D) (ch_empty : Ch).
  Notation reconcile := (@reconcile V Ch Req D candidate candidate_rb rollback_of overlay commit_merge payload record_applied
                                    touched restore resync_payload doc_ok stamp v_empty d_empty ch_empty).
  Notation reach := (@reach V Ch Req D candidate candidate_rb rollback_of overlay commit_merge payload record_applied
                            touched restore resync_payload doc_ok dev_apply stamp v_empty d_empty ch_empty).
  Notation qreach := (@qreach V Ch Req D candidate candidate_rb rollback_of overlay commit_merge payload record_applied
                                 touched restore resync_payload doc_ok dev_apply stamp v_empty d_empty ch_empty).
  Notation tokens := (@tokens V Ch Req D candidate candidate_rb rollback_of overlay commit_merge payload record_applied
                              touched restore resync_payload doc_ok stamp v_empty d_empty ch_empty).
  Notation forward := (@forward V Ch Req D).
  Notation qstp := (@qstep V Ch Req D candidate candidate_rb rollback_of overlay commit_merge payload record_applied
                            touched restore resync_payload doc_ok dev_apply stamp v_empty d_empty ch_empty).

  Theorem C09_queue_runs_are_runs : forall (s : @qworld V Ch Req D), qreach s -> reach (qw s).
  Proof. exact (qreach_reach candidate candidate_rb rollback_of overlay commit_merge payload record_applied touched restore
                  resync_payload doc_ok dev_apply stamp v_empty d_empty ch_empty). Qed.

  Theorem C09_enabled_only_stored : forall (o : oracle) (w : @world V Ch Req D) (c : ctrl),
    fst (reconcile o w c) <> [] -> In c (all_ctrls w).
  Proof. exact (enabled_stored candidate candidate_rb rollback_of overlay commit_merge payload record_applied touched restore
                  resync_payload doc_ok stamp v_empty d_empty ch_empty). Qed.

  Theorem C09_fixpoint_partial : forall (s : @qworld V Ch Req D),
    qreach s -> tokens s -> idle s = true -> forall c o, fst (reconcile o (qw s) c) = [].
  Proof. exact (fun s _ => fixpoint_of_tokens candidate candidate_rb rollback_of overlay commit_merge payload record_applied touched
                  restore resync_payload doc_ok stamp v_empty d_empty ch_empty s). Qed.

  Theorem C09_writes_wake_owners : forall (s : @qworld V Ch Req D) n o c0 e c,
    nth_error (queue s) n = Some c0 -> In e (fst (reconcile o (qw s) c0)) -> lands (qw s) e -> In c (owners e) ->
    In c (queue (@qstep V Ch Req D candidate candidate_rb rollback_of overlay commit_merge payload record_applied touched restore
                        resync_payload doc_ok dev_apply stamp v_empty d_empty ch_empty s (QDeliver n o))).
  Proof. exact (delivery_wakes_owners candidate candidate_rb rollback_of overlay commit_merge payload record_applied touched restore
                  resync_payload doc_ok dev_apply stamp v_empty d_empty ch_empty). Qed.

  Theorem C09_wait_a_has_token : forall (s : @qworld V Ch Req D), qreach s ->
    forall i (T : @txn Ch), txs (qw s) !! i = Some T -> t_init T = Some Doing -> fst (reconcile (mkOracle true true COk 0 0) (qw s) (CtlTx i)) <> [] ->
      In (CtlTx i) (queue s) \/ exists P, txs (qw s) !! (i - 1) = Some P /\ at_init_gate P.
  Proof. exact (wait_a_reach candidate candidate_rb rollback_of overlay commit_merge payload record_applied touched restore
                  resync_payload doc_ok dev_apply stamp v_empty d_empty ch_empty). Qed.

  Theorem C09_wait_b_has_token : forall (s : @qworld V Ch Req D), qreach s ->
    forall j (T : @txn Ch), txs (qw s) !! j = Some T -> gate_state T -> fst (reconcile (mkOracle true true COk 0 0) (qw s) (CtlTx j)) <> [] ->
      In (CtlTx j) (queue s).
  Proof. exact (wait_b_reach candidate candidate_rb rollback_of overlay commit_merge payload record_applied touched restore
                  resync_payload doc_ok dev_apply stamp v_empty d_empty ch_empty). Qed.

  (* wait (c), PARTIAL (one delivery, from every reachable queued world): the delivery that makes Committed.Index the
     PrevIndex of a stored proposal (t, i) - which opens its Validate / Abort guard - leaves (t, i) pending, through the
     mover's hand-over to its successor; the ONE exception is exhibited: the mover is the predecessor itself in Abort
     IN_PROGRESS with Applied.Index still behind its own PrevIndex (that branch of reconcileAbort moves Committed.Index
     and returns without a re-queue; the successor is then woken by the configuration event only when it is the proposal
     Proposed.Index names, or later by the re-queue of its own successor).  Not yet an invariant of all queued worlds. *)
  Theorem C09_wait_c_delivery_partial : forall (s : @qworld V Ch Req D) n o c t i (P : @prop Ch),
    qreach s -> nth_error (queue s) n = Some c ->
    props (qw s) !! (t, i) = Some P -> p_prev P <> 0 ->
    @committed_of V Ch Req D (qw s) t <> p_prev P ->
    @committed_of V Ch Req D (qw (qstp s (QDeliver n o))) t = p_prev P ->
    In (CtlProp (t, i)) (queue (qstp s (QDeliver n o))) \/
    exists (Q : @prop Ch), props (qw s) !! (t, p_prev P) = Some Q /\ c = CtlProp (t, p_prev P) /\ p_next Q = i /\
      p_apply Q = None /\ p_abort Q = Some Doing /\
      @committed_of V Ch Req D (qw s) t = p_prev Q /\ @applied_of V Ch Req D (qw s) t <> p_prev Q.
  Proof. exact (committed_opens_wakes candidate candidate_rb rollback_of overlay commit_merge payload record_applied touched restore
                  resync_payload doc_ok dev_apply stamp v_empty d_empty ch_empty). Qed.

  Theorem C09_fixpoint_partial2 : forall (s : @qworld V Ch Req D),
    qreach s ->
    tokens_rest candidate candidate_rb rollback_of overlay commit_merge payload record_applied touched restore resync_payload doc_ok
                stamp v_empty d_empty ch_empty s ->
    idle s = true ->
    forall c o, fst (reconcile o (qw s) c) = [] \/ parked_behind_gate stamp (qw s) c.
  Proof. exact (fixpoint_of_tokens_rest candidate candidate_rb rollback_of overlay commit_merge payload record_applied touched restore
                  resync_payload doc_ok dev_apply stamp v_empty d_empty ch_empty). Qed.

  Theorem C09_terminates_partial : forall (o : oracle) (w : @world V Ch Req D) (c : ctrl),
    (match c with CtlTx _ | CtlProp _ => True | _ => False end) -> Forall (forward w) (fst (reconcile o w c)).
  Proof. exact (records_move_forward candidate candidate_rb rollback_of overlay commit_merge payload record_applied touched restore
                  resync_payload doc_ok stamp v_empty d_empty ch_empty). Qed.

  Theorem C09_rank_bounds : forall (T : @txn Ch) (P : @prop Ch), (mt T <= 11)%nat /\ (mp P <= 12)%nat.
  Proof. exact (fun T P => conj (mt_bound T) (mp_bound P)). Qed.
End C09.

(* the current code, executable instance *)
Theorem C09_busy_wait_refuted : busy_wait.
Proof. exact busy_wait_device_away. Qed.

Print Assumptions C09_queue_runs_are_runs.
Print Assumptions C09_enabled_only_stored.
Print Assumptions C09_fixpoint_partial.
Print Assumptions C09_writes_wake_owners.
Print Assumptions C09_wait_a_has_token.
Print Assumptions C09_wait_b_has_token.
Print Assumptions C09_wait_c_delivery_partial.
Print Assumptions C09_fixpoint_partial2.
Print Assumptions C09_terminates_partial.
Print Assumptions C09_rank_bounds.
Print Assumptions C09_busy_wait_refuted.

(* wait (c), Validate: PROVED for every reachable queued world.  A stored proposal (t, i) in Validate IN_PROGRESS (no later
   phase started) whose PrevIndex is set and equals Committed.Index of its target - its validate guard is open - is pending,
   or it is guarded: its predecessor (t, PrevIndex) is stored in Abort IN_PROGRESS (apply phase not started) and either
   Applied.Index of the target is not yet the predecessor's PrevIndex (the abort moved only Committed.Index and returned
   without re-queueing its successor; it will finish, and then return Requeue{(t, i)}, when ITS predecessor re-queues it)
   or the predecessor itself is pending.  No enabledness premise is needed: a delivery at the open guard writes the
   proposal's record or fails, and a failure re-enters the same id. *)
From OC Require Import Proofs.P2_QueueWaitC2 Proofs.P2_QueueWaitC3.

Section C09c.
  Context {V Ch Req D : Type}.
  Context (candidate : V -> Ch -> V) (candidate_rb : V -> Ch -> V) (rollback_of : V -> Ch -> Ch)
          (overlay : V -> V -> V) (commit_merge : N -> N -> V -> V -> Ch -> V)
          (payload : N -> V -> Ch -> option Req) (record_applied : N -> N -> V -> V -> V -> Ch -> V)
          (touched : N -> V -> Ch -> V) (restore : V -> V -> V)
          (resync_payload : V -> list (option Req)) (doc_ok : V -> bool)
          (dev_apply : D -> Req -> D) (stamp : N -> Ch -> Ch) (v_empty : V) (d_empty : D) (ch_empty : Ch).
  Notation qreach := (@qreach V Ch Req D candidate candidate_rb rollback_of overlay commit_merge payload record_applied
                                 touched restore resync_payload doc_ok dev_apply stamp v_empty d_empty ch_empty).

  Theorem C09_wait_c_has_token : forall (s : @qworld V Ch Req D), qreach s ->
    forall t i (P : @prop Ch), props (qw s) !! (t, i) = Some P ->
      p_apply P = None /\ p_abort P = None /\ p_commit P = None /\ p_validate P = Some Doing ->
      p_prev P <> 0 ->
      match cfgs (qw s) !! t with Some C => c_committed C | None => 0 end = p_prev P ->
      In (CtlProp (t, i)) (queue s) \/
      exists Q : @prop Ch, props (qw s) !! (t, p_prev P) = Some Q /\
        (p_apply Q = None /\ p_abort Q = Some Doing) /\
        (match cfgs (qw s) !! t with Some C => c_applied C | None => 0 end <> p_prev Q \/
         In (CtlProp (t, p_prev P)) (queue s)).
  Proof. exact (wait_c_reach candidate candidate_rb rollback_of overlay commit_merge payload record_applied touched restore
                  resync_payload doc_ok dev_apply stamp v_empty d_empty ch_empty). Qed.
End C09c.
Print Assumptions C09_wait_c_has_token.

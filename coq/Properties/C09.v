(* C09 - Controllers never strand a transaction that could make progress.
   Statements only.

   Model: Model/Proto2Queue.v = the protocol model Model/Proto2.v (the five v2 reconcilers, tied to the code by the
   p2 harness) + the pending work of the five controllers as ONE multiset of (controller, id): the six watcher.go
   files are transcribed as [wakes] (which ids a store write / topology change / connection change enqueues) and
   onos-lib-go's reconcileRequest as [requeue] (Requeue{id} enqueues id, an error re-enqueues the same id, anything
   else drops it).  A queue step delivers ANY pending id (every delivery order), runs the whole reconcile, applies its
   effects and enqueues what the watchers map each write to.  [fixes] switches the candidate repairs on and off
   (fixes/C09-1..3.patch); [no_fixes] is the code as it is.

   How the theorems decide the property.
   The property text is FALSE for the code as it is, in five different ways, each a theorem about the executable
   instance (evaluated delivery orders, all reproduced on the real controllers with their real watchers and queues by
   harness/cmd/c09, see findings/C09.jsonl):
     C09_lost_wakeup_initfail_successor_refuted   a transaction waits for ever behind one whose initialisation FAILED
     C09_lost_wakeup_dead_prev_refuted            a proposal waits for ever behind an ABORTED / apply-FAILED proposal
     C09_lost_wakeup_serializable_gate_refuted    a transaction waits for ever at a SERIALIZABLE gate that has opened
     C09_lost_wakeup_sync_wakeup_refuted          a proposal in APPLYING is not woken when its configuration becomes
                                                  mastered and synchronised (device connects after a Set and its rollback)
     C09_lost_wakeup_commit_hidden_by_apply_refuted  (model only; stalls while the device is away) a proposal waits in
                                                  VALIDATING behind a COMMITTED proposal whose apply phase was started
     C09_progress_refuted                         every target connected and synchronised, the system idle AND at a fixed
                                                  point, and a transaction is not final: after a partial apply failure of a
                                                  multi-target transaction the other targets are wedged (finding F-21)
     C09_requeue_cycle_refuted                    ... and two proposals of the wedged target re-queue each other for ever
                                                  (the work queue never drains: a busy loop, also observed on the real code)
   What is proved for all pure layers, worlds, oracles, delivery orders and both settings of the repairs:
     C09_queue_runs_are_runs      every queued run is a run of Model/Proto2.v (so every invariant proved about that
                                  model - C01 ... - holds in every queued world)
     C09_enabled_only_stored      only ids that name a stored record can be enabled: the "one extra pass over all
                                  objects" of the harness monitors is a complete fixed-point test
     C09_fixpoint_partial         C09_fixpoint under the wake-up-token invariant [tokens] (every enabled id is reached
                                  from a pending id through re-queue results): all queues empty => no reconcile of any
                                  controller id has an effect, for any oracle.
                                  PARTIAL: [tokens] is a hypothesis, not a proved invariant of the repaired model.  The
                                  missing lemma is "qstep all_fixes preserves tokens for worlds without SERIALIZABLE
                                  transactions and without partial apply failures" (one case per effect x waiting
                                  state; it needs the chain invariants prev/next/cursors of DESIGN 5.0 that are not
                                  proved yet).  Evidence instead of proof: ocaml/c09_search.ml finds no idle state
                                  that is not a fixed point in > 700 000 idle states of the repaired model (run on every
                                  check by props/c09_extra.py), and harness/cmd/c09 shows the three repaired shapes gone
                                  on the real controllers.
     C09_terminates_partial       every write of the transaction controller and of the proposal controller to a
                                  transaction / proposal record strictly lowers the phase rank of that record
                                  (C09_rank_bounds: at most 11 / 12), so records only move forward and each is written a
                                  bounded number of times.  PARTIAL: not summed into one global measure (missing: the
                                  sum over the finite maps, and the cursor writes of the configuration - Proposed /
                                  Committed / Applied indexes - which need the chain invariant prev < index), and
                                  C09_requeue_cycle_refuted shows that effect-free re-queueing need NOT terminate.
   C09_progress is not proved in any form (only refuted as stated); it needs the same chain invariants. *)
From stdpp Require Import gmap.
From Coq Require Import NArith.
From OC Require Import Base.Bytes Model.P2Pure Model.Proto2 Model.P2Inst Model.Proto2Queue Model.P2QInst
     Proofs.P2Base Proofs.P2Phases Proofs.P2_Queue Proofs.P2_QueueWitness.
Open Scope N_scope.

Section C09.
  Context {V Ch Req D : Type}.
  Context (candidate : V -> Ch -> V) (candidate_rb : V -> Ch -> V) (rollback_of : V -> Ch -> Ch)
          (overlay : V -> V -> V) (commit_merge : N -> N -> V -> V -> Ch -> V)
          (payload : N -> V -> Ch -> option Req) (record_applied : N -> V -> V -> V -> Ch -> V)
          (touched : N -> V -> Ch -> V) (restore : V -> V -> V)
          (resync_payload : V -> list (option Req)) (doc_ok : V -> bool)
          (dev_apply : D -> Req -> D) (stamp : N -> Ch -> Ch) (v_empty : V) (d_empty : D) (ch_empty : Ch).
  Notation reconcile := (@reconcile V Ch Req D candidate candidate_rb rollback_of overlay commit_merge payload record_applied
                                    touched restore resync_payload doc_ok stamp v_empty d_empty ch_empty).
  Notation reach := (@reach V Ch Req D candidate candidate_rb rollback_of overlay commit_merge payload record_applied
                            touched restore resync_payload doc_ok dev_apply stamp v_empty d_empty ch_empty).
  Notation qreach fx := (@qreach V Ch Req D fx candidate candidate_rb rollback_of overlay commit_merge payload record_applied
                                 touched restore resync_payload doc_ok dev_apply stamp v_empty d_empty ch_empty).
  Notation tokens fx := (@tokens V Ch Req D candidate candidate_rb rollback_of overlay commit_merge payload record_applied
                                 touched restore resync_payload doc_ok stamp v_empty d_empty ch_empty fx).
  Notation forward := (@forward V Ch Req D).

  Theorem C09_queue_runs_are_runs : forall (fx : fixes) (s : @qworld V Ch Req D), qreach fx s -> reach (qw s).
  Proof. exact (qreach_reach candidate candidate_rb rollback_of overlay commit_merge payload record_applied touched restore
                  resync_payload doc_ok dev_apply stamp v_empty d_empty ch_empty). Qed.

  Theorem C09_enabled_only_stored : forall (o : oracle) (w : @world V Ch Req D) (c : ctrl),
    fst (reconcile o w c) <> [] -> In c (all_ctrls w).
  Proof. exact (enabled_stored candidate candidate_rb rollback_of overlay commit_merge payload record_applied touched restore
                  resync_payload doc_ok stamp v_empty d_empty ch_empty). Qed.

  Theorem C09_fixpoint_partial : forall (fx : fixes) (s : @qworld V Ch Req D),
    qreach fx s -> tokens fx s -> idle s = true -> forall c o, fst (reconcile o (qw s) c) = [].
  Proof. exact (fun fx s _ => fixpoint_of_tokens candidate candidate_rb rollback_of overlay commit_merge payload record_applied touched
                  restore resync_payload doc_ok stamp v_empty d_empty ch_empty fx s). Qed.

  Theorem C09_terminates_partial : forall (o : oracle) (w : @world V Ch Req D) (c : ctrl),
    (match c with CtlTx _ | CtlProp _ => True | _ => False end) -> Forall (forward w) (fst (reconcile o w c)).
  Proof. exact (records_move_forward candidate candidate_rb rollback_of overlay commit_merge payload record_applied touched restore
                  resync_payload doc_ok stamp v_empty d_empty ch_empty). Qed.

  Theorem C09_rank_bounds : forall (T : @txn Ch) (P : @prop Ch), (mt T <= 11)%nat /\ (mp P <= 12)%nat.
  Proof. exact (fun T P => conj (mt_bound T) (mp_bound P)). Qed.
End C09.

(* the code as it is, executable instance *)
Theorem C09_lost_wakeup_initfail_successor_refuted : lost_wakeup no_fixes sig_initfail_successor.
Proof. exact lost_wakeup_initfail_successor. Qed.
Theorem C09_lost_wakeup_dead_prev_refuted : lost_wakeup no_fixes sig_dead_prev.
Proof. exact lost_wakeup_dead_prev. Qed.
Theorem C09_lost_wakeup_serializable_gate_refuted : lost_wakeup no_fixes sig_serializable_gate.
Proof. exact lost_wakeup_serializable_gate. Qed.
Theorem C09_lost_wakeup_sync_wakeup_refuted : lost_wakeup no_fixes sig_sync_wakeup.
Proof. exact lost_wakeup_sync_wakeup. Qed.
Theorem C09_lost_wakeup_commit_hidden_by_apply_refuted : lost_wakeup no_fixes sig_commit_hidden_by_apply.
Proof. exact lost_wakeup_commit_hidden_by_apply. Qed.
Theorem C09_progress_refuted : deadlock no_fixes.
Proof. exact deadlock_wedged_target. Qed.
Theorem C09_requeue_cycle_refuted : requeue_cycle no_fixes.
Proof. exact requeue_cycle_wedged_target. Qed.

Print Assumptions C09_queue_runs_are_runs.
Print Assumptions C09_enabled_only_stored.
Print Assumptions C09_fixpoint_partial.
Print Assumptions C09_terminates_partial.
Print Assumptions C09_rank_bounds.
Print Assumptions C09_lost_wakeup_initfail_successor_refuted.
Print Assumptions C09_lost_wakeup_dead_prev_refuted.
Print Assumptions C09_lost_wakeup_serializable_gate_refuted.
Print Assumptions C09_lost_wakeup_sync_wakeup_refuted.
Print Assumptions C09_lost_wakeup_commit_hidden_by_apply_refuted.
Print Assumptions C09_progress_refuted.
Print Assumptions C09_requeue_cycle_refuted.

(* C07 - A crash between any two store writes loses nothing and repeats nothing (protocol part).
   Statements only; proofs in Proofs/P2_Crash.v (reusing Proofs/P2_Failure.v, Proofs/P2Phases.v).  Model: Model/Proto2.v.
   One reconcile invocation is an ordered effect list; the step [LRec c k o] executes its first k effects.  A process
   stop, an error returned by a store call and a version conflict that the controller swallows are therefore all "a
   prefix", and the controllers keep no state between invocations (the stores are the only state), so "restart" is just
   "the controllers run again".  Theorems hold for EVERY pure layer, every world / label / oracle.
   How the theorems decide the property:
   * C07_prefix_is_step (true by definition of [step]; stated so that it is visible) and C07_invariants_survive_crash /
     C07_any_invariant_survives_crash: every invariant proved over [reach] holds after a crash at any point - the phase
     invariant J of Proofs/P2Phases.v (C01: Commit and Abort never mixed), and, through the general form, the
     invariants of the other proof files over Proto2 (cursor / chain / order / term invariants: Proofs/P2_Cursor*.v,
     P2_Order*.v, P2_Term.v of the other builders), which are all of the form "I init, I preserved by every step".
   * Re-run of an interrupted invocation ("no change merged twice or skipped"):
     - commit: C07_commit_effects (the three effects: path-value map, entry, proposal).  The configuration store's
       Update is ONE call of the controller but TWO persisted effects, the path-value map being written BEFORE the
       version-checked entry.  C07_resume_commit_partial: for every cut at a store-call boundary (named predicate
       [store_boundary k]: not between those two effects) re-running the invocation to its end gives exactly the world
       of ONE uninterrupted commit - nothing merged twice, nothing skipped (C07_resume_commit_after_store is the
       detailed form for the cut before the proposal write: the committed index has left the predecessor, the re-run
       only writes the proposal; both need PrevIndex <> index, an invariant of the chain).
       The cut INSIDE the store call: C07_resume_commit_torn (the committed index has not moved, the re-run merges
       AGAIN on top of the values already written), C07_resume_commit_torn_partial (same configurations and proposals
       as uninterrupted PROVIDED the pure layer's merge is stable under repetition: named predicate
       [merge_rerun_stable]; it holds e.g. for plain sets: Example y_commit_hyps), and the OPEN finding F-08c
       (signature c07_torn_commit_remerge, same root cause as the store finding F-08: two Atomix primitives that are
       not written atomically; repair not small): C07_resume_commit_torn_refuted + C07_merge_rerun_unstable_refuted - for
       a Set that deletes /a and sets /a/c in one request the torn commit ends with an empty stored configuration
       where the uninterrupted run has /a/c = 2 (labels: Proofs/P2_Crash.v y_torn, k = 1 vs k = 3).  The harness cannot
       cut inside a store call (its crash points are store-call boundaries and device calls), so this finding is
       exhibited on the model only, by a step that the store code demonstrably allows (values written before the
       version-checked entry write).
     - apply: C07_resume_apply_resend (stopped after the device accepted the request, nothing stored: the re-run sends
       the SAME request again - allowed by the property text - and the device decides again), C07_resume_apply (stopped
       after the configuration entry write: the re-run only writes the proposal; same world as uninterrupted given
       applied term <= mastership term).
     - refused apply (finding F-17, repaired): before the repair the order was [device; applied values; entry with
       Applied.Index := i; proposal FAILED]; cut after the entry write (stop, or conflict swallowed by
       updateProposalStatus) the re-run took the guard Applied.Index >= i and recorded the proposal APPLIED, the
       transaction ended APPLIED although the device had refused (witness then: [LTarget 1; LConnUp 10 1; LChange {/a=1}] ++
       13 rounds ++ [LRec (CtlProp (1,1)) 3 (answer InvalidArgument)] ++ 4 rounds -> TApplied, device untouched).  Now the
       failure is written first: C07_resume_apply_refused_resend (k = 1: nothing stored, request re-sent),
       C07_resume_apply_refused (k >= 2: proposal FAILED with the class, devices untouched, the re-run completes the
       move of the applied index and never rewrites the proposal), C07_failed_is_final, and the regression
       C07_refused_apply_crash_regression (every cut point of the old witness ends FAILED).
     - abort (finding F-18, repaired): before the repair, cut after the entry write of the first or third branch no
       branch of reconcileAbort matched any more and the proposal stayed ABORTING for ever (witness then: 9 rounds with a
       rejecting plugin ++ [LRec (CtlProp (1,1)) 2 o] ++ any number of rounds -> p_abort Doing).  Now a fourth alternative
       writes ABORTED when both indexes have passed the proposal: C07_abort_both / _committed_only / _applied_only /
       _passed / _idle (the five cases), C07_resume_abort_before_entry (k = 1: same branch again), C07_resume_abort_first /
       _third (k = 2: the re-run writes the proposal, world = uninterrupted), C07_resume_abort_second (second branch:
       waits for the applied index, then third branch), regression C07_abort_crash_regression.
     - transaction reconciler: C07_tx_scan_idempotent (its effects are a function of the transaction and proposal
       stores), C07_tx_repeat (steps that write neither repeat the same effects), C07_tx_single_write (one write per
       invocation outside proposal creation), C07_write_twice_is_once, C07_create_guarded / _complete /
       _existing_noop (creation: nothing that exists is created again, nothing missing is skipped).
   NOT proved here (partial): "same final outcome as the crash-free run" for whole histories (needs quiescence +
   the sequential reference; other builder), the stamp of already created proposals in the transaction record after
   an interrupted creation (t_details differ, proposals equal). *)
From stdpp Require Import gmap.
From RecordUpdate Require Import RecordUpdate.
From Coq Require Import NArith.
From OC Require Import Base.Bytes Model.P2Pure Model.Proto2 Model.P2Inst Proofs.P2Base Proofs.P2Phases Proofs.P2_Failure Proofs.P2_Crash Proofs.P2_Rollback.
Open Scope N_scope.

Section C07.
  Context {V Ch Req D : Type}.
  Context (candidate : V -> Ch -> V) (candidate_rb : V -> Ch -> V) (rollback_of : V -> Ch -> Ch)
          (overlay : V -> V -> V) (commit_merge : N -> N -> V -> V -> Ch -> V)
          (payload : N -> V -> Ch -> option Req) (record_applied : N -> N -> V -> V -> V -> Ch -> V)
          (touched : N -> V -> Ch -> V) (restore : V -> V -> V)
          (resync_payload : V -> list (option Req)) (doc_ok : V -> bool)
          (dev_apply : D -> Req -> D) (stamp : N -> Ch -> Ch) (v_empty : V) (d_empty : D) (ch_empty : Ch).
  Notation world := (@world V Ch Req D).
  Notation apply_eff := (@apply_eff V Ch Req D dev_apply d_empty).
  Notation rec_tx := (@rec_tx V Ch Req D stamp).
  Notation rec_prop := (@rec_prop V Ch Req D candidate candidate_rb rollback_of overlay commit_merge payload record_applied
                                  touched restore doc_ok v_empty d_empty ch_empty).
  Notation reconcile := (@reconcile V Ch Req D candidate candidate_rb rollback_of overlay commit_merge payload record_applied
                                    touched restore resync_payload doc_ok stamp v_empty d_empty ch_empty).
  Notation step := (@step V Ch Req D candidate candidate_rb rollback_of overlay commit_merge payload record_applied
                          touched restore resync_payload doc_ok dev_apply stamp v_empty d_empty ch_empty).
  Notation reach := (@reach V Ch Req D candidate candidate_rb rollback_of overlay commit_merge payload record_applied
                            touched restore resync_payload doc_ok dev_apply stamp v_empty d_empty ch_empty).
  Notation dev_answer := (@dev_answer V Ch Req D d_empty).
  Notation dev_of := (@dev_of V Ch Req D d_empty).
  Notation view := (@view V overlay).
  Notation aview := (@aview V overlay).
  Notation rb_change := (@rb_change Ch ch_empty).
  Notation sendable := (@sendable V Ch Req D overlay payload ch_empty).
  Notation merge_rerun_stable := (@merge_rerun_stable V Ch overlay commit_merge).

  (* by definition *)
  Theorem C07_prefix_is_step :
    ∀ (w : world) (c : ctrl) (k : nat) (o : oracle),
    step w (LRec c k o) = fold_left apply_eff (take k (reconcile o w c).1) w.
  Proof. exact (@prefix_is_step V Ch Req D candidate candidate_rb rollback_of overlay commit_merge payload record_applied touched restore resync_payload doc_ok dev_apply stamp v_empty d_empty ch_empty). Qed.

  (* the phase invariant J and reachability after any crash point *)
  Theorem C07_invariants_survive_crash :
    ∀ w : world,
    reach w → ∀ (c : ctrl) (k : nat) (o : oracle), J (step w (LRec c k o)) ∧ reach (step w (LRec c k o)).
  Proof. exact (@invariants_survive_crash V Ch Req D candidate candidate_rb rollback_of overlay commit_merge payload record_applied touched restore resync_payload doc_ok dev_apply stamp v_empty d_empty ch_empty). Qed.

  (* every step-invariant holds after any crash point *)
  Theorem C07_any_invariant_survives_crash :
    ∀ I : world → Prop,
    I init
    → (∀ (w : world) (l : label), I w → I (step w l))
    → ∀ w : world, reach w → ∀ (c : ctrl) (k : nat) (o : oracle), I (step w (LRec c k o)).
  Proof. exact (@any_invariant_survives_crash V Ch Req D candidate candidate_rb rollback_of overlay commit_merge payload record_applied touched restore resync_payload doc_ok dev_apply stamp v_empty d_empty ch_empty). Qed.

  (* the uninterrupted commit *)
  Theorem C07_commit_effects :
    ∀ (o : oracle) (w : world) (t i : N) (P : prop) (C : config),
    committing w t i P C
    → c_committed C = p_prev P
    → rec_prop o w (t, i) =
    ([EPutValues t (commit_merge (o_order o) i (c_values C) (view C) (rb_change P));
    EPutCfg t (commit_entry overlay v_empty i P C);
    EPutProp (t, i) (P <| p_commit := Some Done |>)], requeue_next t P).
  Proof. exact (@commit_effects_merge V Ch Req D candidate candidate_rb rollback_of overlay commit_merge payload record_applied touched restore doc_ok v_empty d_empty ch_empty). Qed.

  (* cut at any store-call boundary, then re-run to the end: the world of ONE uninterrupted commit *)
  Theorem C07_resume_commit_partial :
    ∀ (o o' : oracle) (w : world) (t i : N) (P : prop) (C : config) (k : nat),
    committing w t i P C
    → c_committed C = p_prev P
    → p_prev P ≠ i
    → store_boundary k
    → step (step w (LRec (CtlProp (t, i)) k o)) (LRec (CtlProp (t, i)) 3 o') =
    step w (LRec (CtlProp (t, i)) 3 (if (k =? 0)%nat then o' else o)).
  Proof. exact (@commit_resume_boundary V Ch Req D candidate candidate_rb rollback_of overlay commit_merge payload record_applied touched restore resync_payload doc_ok dev_apply stamp v_empty d_empty ch_empty). Qed.

  (* stopped before the proposal write: no second merge, only the proposal write, same world *)
  Theorem C07_resume_commit_after_store :
    ∀ (o o' : oracle) (w : world) (t i : N) (P : prop) (C : config),
    committing w t i P C
    → c_committed C = p_prev P
    → p_prev P ≠ i
    → let w2 := step w (LRec (CtlProp (t, i)) 2 o) in
    rec_prop o' w2 (t, i) = ([EPutProp (t, i) (P <| p_commit := Some Done |>)], requeue_next t P)
    ∧ (∀ k' : nat,
    (1 <= k')%nat
    → step w2 (LRec (CtlProp (t, i)) k' o') = step w (LRec (CtlProp (t, i)) 3 o)).
  Proof. exact (@commit_resume_after_entry V Ch Req D candidate candidate_rb rollback_of overlay commit_merge payload record_applied touched restore resync_payload doc_ok dev_apply stamp v_empty d_empty ch_empty). Qed.

  (* stopped between the path-value write and the entry write: the re-run merges again on the written values *)
  Theorem C07_resume_commit_torn :
    ∀ (o o' : oracle) (w : world) (t i : N) (P : prop) (C : config),
    committing w t i P C
    → c_committed C = p_prev P
    → let v1 := commit_merge (o_order o) i (c_values C) (view C) (rb_change P) in
    let w1 := step w (LRec (CtlProp (t, i)) 1 o) in
    let C1 := C <| c_values := v1 |> in
    cfgs w1 !! t = Some C1
    ∧ rec_prop o' w1 (t, i) =
    ([EPutValues t (commit_merge (o_order o') i v1 (view C1) (rb_change P));
    EPutCfg t (commit_entry overlay v_empty i P C1);
    EPutProp (t, i) (P <| p_commit := Some Done |>)], requeue_next t P).
  Proof. exact (@commit_resume_after_values V Ch Req D candidate candidate_rb rollback_of overlay commit_merge payload record_applied touched restore resync_payload doc_ok dev_apply stamp v_empty d_empty ch_empty). Qed.

  (* ... harmless when the merge is stable under repetition *)
  Theorem C07_resume_commit_torn_partial :
    ∀ (o o' : oracle) (w : world) (t i : N) (P : prop) (C : config),
    committing w t i P C
    → c_committed C = p_prev P
    → merge_rerun_stable (o_order o) (o_order o') i C (rb_change P)
    → cfgs (step (step w (LRec (CtlProp (t, i)) 1 o)) (LRec (CtlProp (t, i)) 3 o')) =
    cfgs (step w (LRec (CtlProp (t, i)) 3 o))
    ∧ props (step (step w (LRec (CtlProp (t, i)) 1 o)) (LRec (CtlProp (t, i)) 3 o')) =
    props (step w (LRec (CtlProp (t, i)) 3 o)).
  Proof. exact (@commit_resume_after_values_same V Ch Req D candidate candidate_rb rollback_of overlay commit_merge payload record_applied touched restore resync_payload doc_ok dev_apply stamp v_empty d_empty ch_empty). Qed.

  (* the reconciler of a COMMITTED proposal has no effect *)
  Theorem C07_committed_is_idle :
    ∀ (o : oracle) (w : world) (t i : N) (P : prop),
    props w !! (t, i) = Some P
    → p_apply P = None → p_abort P = None → p_commit P = Some Done → (rec_prop o w (t, i)).1 = [].
  Proof. exact (@committed_idle V Ch Req D candidate candidate_rb rollback_of overlay commit_merge payload record_applied touched restore doc_ok v_empty d_empty ch_empty). Qed.

  (* stopped after the device accepted: same request again *)
  Theorem C07_resume_apply_resend :
    ∀ (o o' : oracle) (w : world) (t i : N) (P : prop) (C : config) (m : N) (req : Req),
    sendable w t i P C m req
    → dev_answer w t (c_term C) o = COk
    → let w1 := step w (LRec (CtlProp (t, i)) 1 o) in
    sendable w1 t i P C m req
    ∧ dev_answer w1 t (c_term C) o' = o_answer o'
    ∧ rec_prop o' w1 (t, i) =
    after_answer overlay record_applied touched restore v_empty ch_empty 
    (o_order o') t i P C m req (o_answer o').
  Proof. exact (@apply_resume_after_send V Ch Req D candidate candidate_rb rollback_of overlay commit_merge payload record_applied touched restore resync_payload doc_ok dev_apply stamp v_empty d_empty ch_empty). Qed.

  (* stopped before the proposal write: only the proposal write *)
  Theorem C07_resume_apply :
    ∀ (o o' : oracle) (w : world) (t i : N) (P : prop) (C : config) (m : N) (req : Req),
    sendable w t i P C m req
    → dev_answer w t (c_term C) o = COk
    → let w3 := step w (LRec (CtlProp (t, i)) 3 o) in
    rec_prop o' w3 (t, i) =
    ([EPutProp (t, i) (P <| p_apply := Some Done |> <| p_term := c_aterm C |>)], requeue_next t P)
    ∧ (c_aterm C <= c_term C
    → ∀ k' : nat,
    (1 <= k')%nat
    → step w3 (LRec (CtlProp (t, i)) k' o') = step w (LRec (CtlProp (t, i)) 4 o)).
  Proof. exact (@apply_resume_after_entry V Ch Req D candidate candidate_rb rollback_of overlay commit_merge payload record_applied touched restore resync_payload doc_ok dev_apply stamp v_empty d_empty ch_empty). Qed.

  (* refused, stopped after the device event: nothing stored, sendable again *)
  Theorem C07_resume_apply_refused_resend :
    ∀ (o o' : oracle) (w : world) (t i : N) (P : prop) (C : config) (m : N) (req : Req) (f : ftype),
    sendable w t i P C m req
    → dev_answer w t (c_term C) o ≠ COk
    → classify (observed (dev_answer w t (c_term C) o)) = ClsFail f
    → let w1 := step w (LRec (CtlProp (t, i)) 1 o) in
    sendable w1 t i P C m req
    ∧ devs w1 = devs w
    ∧ rec_prop o' w1 (t, i) =
    after_answer overlay record_applied touched restore v_empty ch_empty 
    (o_order o') t i P C m req (dev_answer w t (c_term C) o').
  Proof. exact (@refused_apply_resume_after_send V Ch Req D candidate candidate_rb rollback_of overlay commit_merge payload record_applied touched restore resync_payload doc_ok dev_apply stamp v_empty d_empty ch_empty). Qed.

  (* refused, stopped anywhere after the proposal write: FAILED stays, re-run completes the index move *)
  Theorem C07_resume_apply_refused :
    ∀ (o o' : oracle) (w : world) (t i : N) (P : prop) (C : config) (m : N) (req : Req) 
    (f : ftype) (k : nat),
    sendable w t i P C m req
    → dev_answer w t (c_term C) o ≠ COk
    → classify (observed (dev_answer w t (c_term C) o)) = ClsFail f
    → (2 <= k)%nat
    → let wk := step w (LRec (CtlProp (t, i)) k o) in
    let P' := P <| p_apply := Some Failed |> <| p_afail := Some f |> <| p_term := c_term C |> in
    props wk !! (t, i) = Some P'
    ∧ devs wk = devs w
    ∧ (∃ Ck : config,
    cfgs wk !! t = Some Ck
    ∧ (c_applied Ck = c_applied C ∨ c_applied Ck = i)
    ∧ c_committed Ck = c_committed C
    ∧ c_values Ck = c_values C
    ∧ rec_prop o' wk (t, i) =
    (if c_applied Ck <? i
    then
    [EPutAValues t (restore (c_avalues Ck) (aview Ck));
    EPutCfg t
    (Ck <| c_applied := i |> <| c_inline := view Ck |> <| c_ainline :=
    v_empty |>)]
    else [], requeue_next t P)
    ∧ (∃ C' : config,
    cfgs (step wk (LRec (CtlProp (t, i)) 2 o')) !! t = Some C'
    ∧ c_applied C' = i
    ∧ c_committed C' = c_committed C ∧ c_values C' = c_values C)
    ∧ props (step wk (LRec (CtlProp (t, i)) 2 o')) !! (t, i) = Some P').
  Proof. exact (@refused_apply_resume V Ch Req D candidate candidate_rb rollback_of overlay commit_merge payload record_applied touched restore resync_payload doc_ok dev_apply stamp v_empty d_empty ch_empty). Qed.

  (* the reconciler of a FAILED proposal *)
  Theorem C07_failed_is_final :
    ∀ (o : oracle) (w : world) (t i : N) (P : prop) (C : config),
    props w !! (t, i) = Some P
    → p_apply P = Some Failed
    → cfgs w !! t = Some C
    → rec_prop o w (t, i) =
    (if c_applied C <? i
    then
    [EPutAValues t (restore (c_avalues C) (aview C));
    EPutCfg t (C <| c_applied := i |> <| c_inline := view C |> <| c_ainline := v_empty |>)]
    else [], requeue_next t P).
  Proof. exact (@failed_pass V Ch Req D candidate candidate_rb rollback_of overlay commit_merge payload record_applied touched restore doc_ok v_empty d_empty ch_empty). Qed.

  (* abort, first branch *)
  Theorem C07_abort_both :
    ∀ (o : oracle) (w : world) (t i : N) (P : prop) (C : config),
    aborting w t i P C
    → c_committed C = p_prev P
    → c_applied C = p_prev P
    → rec_prop o w (t, i) =
    ([EPutAValues t (restore (c_avalues C) (aview C));
    EPutCfg t
    (C <| c_committed := i |> <| c_applied := i |> <| c_inline := view C |> <| c_ainline :=
    v_empty |>); EPutProp (t, i) (P <| p_abort := Some Done |>)], 
    requeue_next t P).
  Proof. exact (@abort_both V Ch Req D candidate candidate_rb rollback_of overlay commit_merge payload record_applied touched restore doc_ok v_empty d_empty ch_empty). Qed.

  (* abort, second branch *)
  Theorem C07_abort_committed_only :
    ∀ (o : oracle) (w : world) (t i : N) (P : prop) (C : config),
    aborting w t i P C
    → c_committed C = p_prev P
    → c_applied C ≠ p_prev P
    → rec_prop o w (t, i) =
    ([EPutAValues t (restore (c_avalues C) (aview C));
    EPutCfg t (C <| c_committed := i |> <| c_inline := view C |> <| c_ainline := v_empty |>)],
    RDone).
  Proof. exact (@abort_committed_only V Ch Req D candidate candidate_rb rollback_of overlay commit_merge payload record_applied touched restore doc_ok v_empty d_empty ch_empty). Qed.

  (* abort, third branch *)
  Theorem C07_abort_applied_only :
    ∀ (o : oracle) (w : world) (t i : N) (P : prop) (C : config),
    aborting w t i P C
    → c_committed C ≠ p_prev P
    → c_applied C = p_prev P
    → i <= c_committed C
    → rec_prop o w (t, i) =
    ([EPutAValues t (restore (c_avalues C) (aview C));
    EPutCfg t (C <| c_applied := i |> <| c_inline := view C |> <| c_ainline := v_empty |>);
    EPutProp (t, i) (P <| p_abort := Some Done |>)], requeue_next t P).
  Proof. exact (@abort_applied_only V Ch Req D candidate candidate_rb rollback_of overlay commit_merge payload record_applied touched restore doc_ok v_empty d_empty ch_empty). Qed.

  (* abort, fourth alternative (both indexes passed) *)
  Theorem C07_abort_passed :
    ∀ (o : oracle) (w : world) (t i : N) (P : prop) (C : config),
    aborting w t i P C
    → c_committed C ≠ p_prev P
    → c_applied C ≠ p_prev P
    → i <= c_committed C
    → i <= c_applied C
    → rec_prop o w (t, i) = ([EPutProp (t, i) (P <| p_abort := Some Done |>)], requeue_next t P).
  Proof. exact (@abort_passed V Ch Req D candidate candidate_rb rollback_of overlay commit_merge payload record_applied touched restore doc_ok v_empty d_empty ch_empty). Qed.

  (* abort, otherwise nothing *)
  Theorem C07_abort_idle :
    ∀ (o : oracle) (w : world) (t i : N) (P : prop) (C : config),
    aborting w t i P C
    → c_committed C ≠ p_prev P
    → c_applied C ≠ p_prev P
    → c_committed C < i ∨ c_applied C < i
    → rec_prop o w (t, i) = ([], if p_prev P =? 0 then RDone else RRequeueProp (t, p_prev P)).
  Proof. exact (@abort_idle V Ch Req D candidate candidate_rb rollback_of overlay commit_merge payload record_applied touched restore doc_ok v_empty d_empty ch_empty). Qed.

  (* stopped after the re-store of the applied values: indexes unmoved, same branch again *)
  Theorem C07_resume_abort_before_entry :
    ∀ (w : world) (t i : N) (P : prop) (C : config) (va : V) (rest : list eff),
    aborting w t i P C
    → let w1 := fold_left apply_eff (take 1 (EPutAValues t va :: rest)) w in
    aborting w1 t i P (C <| c_avalues := va |>).
  Proof. exact (@abort_resume_after_values V Ch Req D dev_apply d_empty). Qed.

  (* first branch stopped before the proposal write: the re-run writes it, same world *)
  Theorem C07_resume_abort_first :
    ∀ (o o' : oracle) (w : world) (t i : N) (P : prop) (C : config),
    aborting w t i P C
    → c_committed C = p_prev P
    → c_applied C = p_prev P
    → p_prev P ≠ i
    → let w2 := step w (LRec (CtlProp (t, i)) 2 o) in
    rec_prop o' w2 (t, i) = ([EPutProp (t, i) (P <| p_abort := Some Done |>)], requeue_next t P)
    ∧ (∀ k' : nat,
    (1 <= k')%nat
    → step w2 (LRec (CtlProp (t, i)) k' o') = step w (LRec (CtlProp (t, i)) 3 o)).
  Proof. exact (@abort_both_resume V Ch Req D candidate candidate_rb rollback_of overlay commit_merge payload record_applied touched restore resync_payload doc_ok dev_apply stamp v_empty d_empty ch_empty). Qed.

  (* third branch stopped before the proposal write: the re-run writes it, same world *)
  Theorem C07_resume_abort_third :
    ∀ (o o' : oracle) (w : world) (t i : N) (P : prop) (C : config),
    aborting w t i P C
    → c_committed C ≠ p_prev P
    → c_applied C = p_prev P
    → i <= c_committed C
    → p_prev P ≠ i
    → let w2 := step w (LRec (CtlProp (t, i)) 2 o) in
    rec_prop o' w2 (t, i) =
    ([EPutProp (t, i) (P <| p_abort := Some Done |>)], requeue_next t P)
    ∧ (∀ k' : nat,
    (1 <= k')%nat
    → step w2 (LRec (CtlProp (t, i)) k' o') = step w (LRec (CtlProp (t, i)) 3 o)).
  Proof. exact (@abort_applied_resume V Ch Req D candidate candidate_rb rollback_of overlay commit_merge payload record_applied touched restore resync_payload doc_ok dev_apply stamp v_empty d_empty ch_empty). Qed.

  (* second branch: after its entry write the proposal waits for the applied index *)
  Theorem C07_resume_abort_second :
    ∀ (o o' : oracle) (w : world) (t i : N) (P : prop) (C : config),
    aborting w t i P C
    → c_committed C = p_prev P
    → c_applied C ≠ p_prev P
    → c_applied C < i
    → p_prev P ≠ i
    → let w2 := step w (LRec (CtlProp (t, i)) 2 o) in
    rec_prop o' w2 (t, i) = ([], if p_prev P =? 0 then RDone else RRequeueProp (t, p_prev P))
    ∧ (∃ C2 : config, aborting w2 t i P C2 ∧ c_committed C2 = i ∧ c_applied C2 = c_applied C).
  Proof. exact (@abort_committed_resume V Ch Req D candidate candidate_rb rollback_of overlay commit_merge payload record_applied touched restore resync_payload doc_ok dev_apply stamp v_empty d_empty ch_empty). Qed.

  (* the transaction reconciler is a function of the transaction and proposal stores *)
  Theorem C07_tx_scan_idempotent :
    ∀ (w w' : world) (i : N), txs w = txs w' → props w = props w' → rec_tx w i = rec_tx w' i.
  Proof. exact (@rec_tx_snapshot V Ch Req D stamp). Qed.

  (* steps writing neither store leave its effects unchanged *)
  Theorem C07_tx_repeat :
    ∀ (w : world) (i : N) (c : ctrl) (k : nat) (o : oracle),
    Forall tp_neutral (take k (reconcile o w c).1) → rec_tx (step w (LRec c k o)) i = rec_tx w i.
  Proof. exact (@rec_tx_repeat V Ch Req D candidate candidate_rb rollback_of overlay commit_merge payload record_applied touched restore resync_payload doc_ok dev_apply stamp v_empty d_empty ch_empty). Qed.

  (* one write per invocation outside proposal creation *)
  Theorem C07_tx_single_write :
    ∀ (w : world) (i : N) (T : txn),
    txs w !! i = Some T
    → is_Some (t_props T) ∨ t_init T ≠ Some Doing ∨ is_Some (t_validate T)
    → (length (rec_tx w i).1 <= 1)%nat.
  Proof. exact (@rec_tx_single_write V Ch Req D stamp). Qed.

  (* record writes are idempotent *)
  Theorem C07_write_twice_is_once :
    ∀ (w : world) (e : eff),
    match e with
    | EPutCfg _ _ | ERelCreate _ _ | ERelDelete _ | EDev _ => False
    | _ => True
    end → apply_eff (apply_eff w e) e = apply_eff w e.
  Proof. exact (@put_twice V Ch Req D dev_apply d_empty). Qed.

  (* creations only for missing proposals *)
  Theorem C07_create_guarded :
    ∀ (w : world) (i : N) (l : list (N * prop)),
    Forall
    (λ e : eff,
    ∃ (t : N) (p : prop), e = ECreateProp (t, i) p ∧ props w !! (t, i) = None ∧ In (t, p) l)
    (create_props w i l).
  Proof. exact (@create_props_guarded V Ch Req D). Qed.

  (* every missing proposal is created *)
  Theorem C07_create_complete :
    ∀ (w : world) (i : N) (l : list (N * prop)) (t : N) (p : prop),
    In (t, p) l → props w !! (t, i) = None → In (ECreateProp (t, i) p) (create_props w i l).
  Proof. exact (@create_props_complete V Ch Req D). Qed.

  (* creating an existing proposal changes nothing *)
  Theorem C07_create_existing_noop :
    ∀ (w : world) (k : N * N) (p : prop), is_Some (props w !! k) → apply_eff w (ECreateProp k p) = w.
  Proof. exact (@create_existing_noop V Ch Req D dev_apply d_empty). Qed.

End C07.

(* F-17 witness, every cut point, repaired model *)
Theorem C07_refused_apply_crash_regression :
  forallb (λ k : nat, y_failed_well (y_refused k)) [0%nat; 1%nat; 2%nat; 3%nat; 4%nat; 5%nat] = true
  ∧ forallb (λ k : nat, y_failed_well (y_refused_then_ok k)) [2%nat; 3%nat; 4%nat] = true.
Proof. exact refused_apply_crash_regression. Qed.

(* F-18 witness, every cut point, repaired model *)
Theorem C07_abort_crash_regression :
  forallb
  (λ k : nat,
  bool_decide (y_pabort (y_aborted k 2) (1, 1) = Some Done) &&
  bool_decide (y_tabort (y_aborted k 2) 1 = Some Done) &&
  bool_decide (y_state (y_aborted k 2) 1 = Some TFailed) &&
  bool_decide (c_applied <$> cfgs (y_aborted k 2) !! 1 = Some 1) &&
  bool_decide (c_committed <$> cfgs (y_aborted k 2) !! 1 = Some 1)) [0%nat; 1%nat; 2%nat; 3%nat] =
  true.
Proof. exact abort_crash_regression. Qed.

(* OPEN finding F-08c: torn commit of {delete /a, set /a/c}: uninterrupted /a/c = 2, torn: empty *)
Theorem C07_resume_commit_torn_refuted :
  y_state (y_torn 3) 1 = Some TApplied
  ∧ y_live (y_torn 3) 1 = [(B "/a/c", B "2")]
  ∧ y_state (y_torn 1) 1 = Some TApplied ∧ y_live (y_torn 1) 1 = [].
Proof. exact torn_commit_refuted. Qed.

(* the concrete merge is not stable under repetition for that change *)
Theorem C07_merge_rerun_unstable_refuted :
  ∃ (C : Cfg) (ch : cmap), ¬ merge_rerun_stable overlay commit_merge 0 0 1 C ch.
Proof. exact merge_rerun_unstable. Qed.

Print Assumptions C07_prefix_is_step.
Print Assumptions C07_invariants_survive_crash.
Print Assumptions C07_any_invariant_survives_crash.
Print Assumptions C07_commit_effects.
Print Assumptions C07_resume_commit_partial.
Print Assumptions C07_resume_commit_after_store.
Print Assumptions C07_resume_commit_torn.
Print Assumptions C07_resume_commit_torn_partial.
Print Assumptions C07_committed_is_idle.
Print Assumptions C07_resume_apply_resend.
Print Assumptions C07_resume_apply.
Print Assumptions C07_resume_apply_refused_resend.
Print Assumptions C07_resume_apply_refused.
Print Assumptions C07_failed_is_final.
Print Assumptions C07_abort_both.
Print Assumptions C07_abort_committed_only.
Print Assumptions C07_abort_applied_only.
Print Assumptions C07_abort_passed.
Print Assumptions C07_abort_idle.
Print Assumptions C07_resume_abort_before_entry.
Print Assumptions C07_resume_abort_first.
Print Assumptions C07_resume_abort_third.
Print Assumptions C07_resume_abort_second.
Print Assumptions C07_tx_scan_idempotent.
Print Assumptions C07_tx_repeat.
Print Assumptions C07_tx_single_write.
Print Assumptions C07_write_twice_is_once.
Print Assumptions C07_create_guarded.
Print Assumptions C07_create_complete.
Print Assumptions C07_create_existing_noop.
Print Assumptions C07_refused_apply_crash_regression.
Print Assumptions C07_abort_crash_regression.
Print Assumptions C07_resume_commit_torn_refuted.
Print Assumptions C07_merge_rerun_unstable_refuted.

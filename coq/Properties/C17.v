(* C17 - Values survive the journey unchanged.
   Statements only; proofs live in Proofs/ValueProofs.v, ValueProofsLL.v, ValueProofsJson.v.
   journey fx g opts = NativeTypeToGnmiTypedValue (GnmiTypedValueToNativeType g modelPath): what Get in PROTO
   encoding and the device request carry for the value g that was set (the stored TypedValue in between).
   fx = false: the code as it is; fx = true: the code with /verif/fixes/C17-*.patch applied. *)
From Coq Require Import List NArith ZArith Bool Lia.
From OC Require Import Base.Bytes Model.Value Proofs.ValueProofs Proofs.ValueProofsLL Proofs.ValueProofsJson.
Import ListNotations.
Open Scope Z_scope.

(* ---------------- PROTO journey, scalars: every value of the kind, every type option list, both code variants *)
Theorem C17_rt_string : forall fx s o, journey fx (GString s) o = Ok (GString s).
Proof. exact rt_string. Qed.
Print Assumptions C17_rt_string.

Theorem C17_rt_ascii : forall fx s o, journey fx (GAscii s) o = Ok (GString s).
Proof. exact rt_ascii. Qed.
Print Assumptions C17_rt_ascii.

Theorem C17_rt_int : forall fx v o, int64_range v -> journey fx (GInt v) o = Ok (GInt v).
Proof. exact rt_int. Qed.
Print Assumptions C17_rt_int.

Theorem C17_rt_uint : forall fx v o, uint64_range v -> journey fx (GUint v) o = Ok (GUint v).
Proof. exact rt_uint. Qed.
Print Assumptions C17_rt_uint.

Theorem C17_rt_bool : forall fx b o, journey fx (GBool b) o = Ok (GBool b).
Proof. exact rt_bool. Qed.
Print Assumptions C17_rt_bool.

Theorem C17_rt_bytes : forall fx b o, journey fx (GBytes b) o = Ok (GBytes b).
Proof. exact rt_bytes. Qed.
Print Assumptions C17_rt_bytes.

(* decimal64 (RFC 7950: at most 18 fraction digits; 0 is let through as well) *)
Theorem C17_rt_decimal : forall fx d p o, int64_range d -> 0 <= p <= 18 -> journey fx (GDecimal d p) o = Ok (GDecimal d p).
Proof.
  intros fx d p o Hd Hp. apply rt_decimal; [exact Hd | lia |].
  unfold prec_ok. destruct fx; [apply Z.leb_le; lia | reflexivity].
Qed.
Print Assumptions C17_rt_decimal.

(* outside decimal64: the unrepaired code keeps 8 bits of the precision ... *)
Theorem C17_rt_decimal_precision_refuted :
  exists d p o, int64_range d /\ journey false (GDecimal d p) o <> Ok (GDecimal d p).
Proof. exact decimal_precision_refuted. Qed.
Print Assumptions C17_rt_decimal_precision_refuted.

Theorem C17_rt_decimal_precision_partial : forall d p o,
  int64_range d -> 0 <= p < 256 -> journey false (GDecimal d p) o = Ok (GDecimal d p).
Proof. intros d p o Hd Hp. apply rt_decimal; [exact Hd | exact Hp | reflexivity]. Qed.
Print Assumptions C17_rt_decimal_precision_partial.

(* ... the repaired code refuses it *)
Theorem C17_decimal_precision_refused : forall d p o, 18 < p -> to_native true (GDecimal d p) o = Err.
Proof. exact decimal_precision_refused. Qed.
Print Assumptions C17_decimal_precision_refused.

Theorem C17_rt_float : forall fx b o, f32_range b -> f32_is_nan b = false -> journey fx (GFloat b) o = Ok (GFloat b).
Proof. exact rt_float. Qed.
Print Assumptions C17_rt_float.

Theorem C17_nan_refused : forall fx b o, f32_is_nan b = true -> to_native fx (GFloat b) o = Err.
Proof. exact nan_refused. Qed.
Print Assumptions C17_nan_refused.

(* ---------------- PROTO journey, homogeneous non-empty leaf-lists *)
Theorem C17_rt_leaflist_int : forall fx l o,
  l <> [] -> Forall int64_range l -> journey fx (GLeafList (map GInt l)) o = Ok (GLeafList (map GInt l)).
Proof. exact rt_ll_int. Qed.
Print Assumptions C17_rt_leaflist_int.

Theorem C17_rt_leaflist_uint : forall fx l o,
  l <> [] -> Forall uint64_range l -> journey fx (GLeafList (map GUint l)) o = Ok (GLeafList (map GUint l)).
Proof. exact rt_ll_uint. Qed.
Print Assumptions C17_rt_leaflist_uint.

Theorem C17_rt_leaflist_bool : forall fx l o,
  l <> [] -> journey fx (GLeafList (map GBool l)) o = Ok (GLeafList (map GBool l)).
Proof. exact rt_ll_bool. Qed.
Print Assumptions C17_rt_leaflist_bool.

Theorem C17_rt_leaflist_decimal : forall fx p l o,
  l <> [] -> Forall int64_range l -> 0 <= p <= 18 ->
  journey fx (GLeafList (map (fun d => GDecimal d p) l)) o = Ok (GLeafList (map (fun d => GDecimal d p) l)).
Proof.
  intros fx p l o Hne Hl Hp. apply rt_ll_decimal; [exact Hne | exact Hl | lia |].
  unfold prec_ok. destruct fx; [apply Z.leb_le; lia | reflexivity].
Qed.
Print Assumptions C17_rt_leaflist_decimal.

Theorem C17_rt_leaflist_float : forall fx l o,
  l <> [] -> Forall (fun b => f32_range b /\ f32_is_nan b = false) l ->
  journey fx (GLeafList (map GFloat l)) o = Ok (GLeafList (map GFloat l)).
Proof. exact rt_ll_float. Qed.
Print Assumptions C17_rt_leaflist_float.

(* strings: refuted in general (finding F-12a), proved when no element holds the group separator 0x1D *)
Theorem C17_rt_leaflist_string_refuted :
  exists l o, l <> [] /\ journey false (GLeafList (map GString l)) o <> Ok (GLeafList (map GString l)).
Proof. exact ll_string_refuted. Qed.
Print Assumptions C17_rt_leaflist_string_refuted.

Theorem C17_rt_leaflist_string_partial : forall fx l o,
  l <> [] -> Forall no_gs l -> journey fx (GLeafList (map GString l)) o = Ok (GLeafList (map GString l)).
Proof. exact rt_ll_string. Qed.
Print Assumptions C17_rt_leaflist_string_partial.

(* bytes: refuted in general (finding F-12b), proved when every element after the first is non-empty *)
Theorem C17_rt_leaflist_bytes_refuted :
  exists l o, l <> [] /\ journey false (GLeafList (map GBytes l)) o <> Ok (GLeafList (map GBytes l)).
Proof. exact ll_bytes_refuted. Qed.
Print Assumptions C17_rt_leaflist_bytes_refuted.

Theorem C17_rt_leaflist_bytes_partial : forall fx l o,
  l <> [] -> tail_nonempty l -> journey fx (GLeafList (map GBytes l)) o = Ok (GLeafList (map GBytes l)).
Proof. exact rt_ll_bytes. Qed.
Print Assumptions C17_rt_leaflist_bytes_partial.

(* ---------------- JSON (RFC 7951 rendering, the one the server uses): type and digits *)
(* integers: a JSON number for widths 8/16/32, a JSON string for 64; the text is %d of the value and reads back *)
Theorem C17_json_type_digits_int : forall fx v w, int64_range v -> std_width w ->
  exists t, to_native fx (GInt v) (Some [w]) = Ok t /\
            json_leaf fx true t = Ok (Some (if w =? 64 then JStr (show_Z v) else JNum (show_Z v))) /\
            read_Z (show_Z v) = Some v.
Proof. exact json_int. Qed.
Print Assumptions C17_json_type_digits_int.

Theorem C17_json_type_digits_uint : forall fx v w, uint64_range v -> std_width w ->
  exists t, to_native fx (GUint v) (Some [w]) = Ok t /\
            json_leaf fx true t = Ok (Some (if w =? 64 then JStr (show_Z v) else JNum (show_Z v))) /\
            read_Z (show_Z v) = Some v.
Proof. exact json_uint. Qed.
Print Assumptions C17_json_type_digits_uint.

Theorem C17_json_type_digits_leaflist_int : forall fx l w, l <> [] -> Forall int64_range l -> std_width w ->
  exists t, to_native fx (GLeafList (map GInt l)) (Some [w]) = Ok t /\
            json_leaf fx true t = Ok (Some (JArr (map (fun v => if w =? 64 then JStr (show_Z v) else JNum (show_Z v)) l))) /\
            Forall (fun v => read_Z (show_Z v) = Some v) l.
Proof. exact json_ll_int. Qed.
Print Assumptions C17_json_type_digits_leaflist_int.

Theorem C17_json_type_digits_leaflist_uint : forall fx l w, l <> [] -> Forall uint64_range l -> std_width w ->
  exists t, to_native fx (GLeafList (map GUint l)) (Some [w]) = Ok t /\
            json_leaf fx true t = Ok (Some (JArr (map (fun v => if w =? 64 then JStr (show_Z v) else JNum (show_Z v)) l))) /\
            Forall (fun v => read_Z (show_Z v) = Some v) l.
Proof. exact json_ll_uint. Qed.
Print Assumptions C17_json_type_digits_leaflist_uint.

Theorem C17_json_string : forall fx rfc s o,
  exists t, to_native fx (GString s) o = Ok t /\ json_leaf fx rfc t = Ok (Some (JStr s)).
Proof. exact json_string. Qed.
Print Assumptions C17_json_string.

Theorem C17_json_bool : forall fx rfc b o,
  exists t, to_native fx (GBool b) o = Ok t /\ json_leaf fx rfc t = Ok (Some (JBool b)).
Proof. exact json_bool. Qed.
Print Assumptions C17_json_bool.

(* bytes: base64 string; the unrepaired code writes null for the empty value (finding F-12g) *)
Theorem C17_json_bytes_refuted :
  exists b o t, to_native false (GBytes b) o = Ok t /\ json_leaf false true t = Ok (Some JNull).
Proof. exact json_bytes_refuted. Qed.
Print Assumptions C17_json_bytes_refuted.

Theorem C17_json_bytes_partial : forall rfc b o, b <> [] ->
  exists t, to_native false (GBytes b) o = Ok t /\ json_leaf false rfc t = Ok (Some (JB64 b)).
Proof. exact json_bytes_partial. Qed.
Print Assumptions C17_json_bytes_partial.

Theorem C17_json_bytes_repaired : forall rfc b o,
  exists t, to_native true (GBytes b) o = Ok t /\ json_leaf true rfc t = Ok (Some (JB64 b)).
Proof. exact json_bytes_fixed. Qed.
Print Assumptions C17_json_bytes_repaired.

(* decimal64: the unrepaired code loses the sign in (-1, 0) (F-12c), panics from precision 64 on (F-12d) and writes
   leaf-list members as JSON numbers (F-12f); the repaired code writes a string that reads back exactly *)
Theorem C17_json_decimal_sign_refuted :
  exists d p s, int64_range d /\ 1 <= p <= 18 /\
    json_leaf false true (new_decimal d p) = Ok (Some (JStr s)) /\ read_decimal s <> Some (d, p).
Proof. exact json_decimal_sign_refuted. Qed.
Print Assumptions C17_json_decimal_sign_refuted.

Theorem C17_json_decimal_panic_refuted : json_leaf false true (new_decimal 5 64) = Panic.
Proof. exact json_decimal_panic_refuted. Qed.
Print Assumptions C17_json_decimal_panic_refuted.

Theorem C17_json_leaflist_decimal_refuted :
  json_leaf false true (new_ll_decimal [15] 1) = Ok (Some (JArr [JDivFloat 15 1])).
Proof. exact json_ll_decimal_refuted. Qed.
Print Assumptions C17_json_leaflist_decimal_refuted.

Theorem C17_json_decimal_repaired : forall d p o, int64_range d -> 1 <= p <= 18 ->
  exists t, to_native true (GDecimal d p) o = Ok t /\
            json_leaf true true t = Ok (Some (JStr (str_decimal64_fixed d p))) /\
            read_decimal (str_decimal64_fixed d p) = Some (d, p).
Proof. exact json_decimal_fixed. Qed.
Print Assumptions C17_json_decimal_repaired.

Theorem C17_json_leaflist_decimal_repaired : forall l p o, l <> [] -> Forall int64_range l -> 1 <= p <= 18 ->
  exists t, to_native true (GLeafList (map (fun d => GDecimal d p) l)) o = Ok t /\
            json_leaf true true t = Ok (Some (JArr (map (fun d => JStr (str_decimal64_fixed d p)) l))) /\
            Forall (fun d => read_decimal (str_decimal64_fixed d p) = Some (d, p)) l.
Proof. exact json_ll_decimal_fixed. Qed.
Print Assumptions C17_json_leaflist_decimal_repaired.

(* utils.StrVal of a decimal *)
Theorem C17_strval_decimal_refuted :
  str_decimal64_utils false (-5) 1 = Ok (B "0.5") /\ str_decimal64_utils false 105 2 = Ok (B "1.5").
Proof. exact strval_decimal_refuted. Qed.
Print Assumptions C17_strval_decimal_refuted.

Theorem C17_strval_decimal_repaired : forall d p, int64_range d -> 1 <= p ->
  exists s, str_decimal64_utils true d p = Ok s /\ read_decimal s = Some (d, p).
Proof. exact strval_decimal_fixed. Qed.
Print Assumptions C17_strval_decimal_repaired.

(* C17 - Values survive the journey unchanged.  Statements only; proofs in Proofs/ValueProofs*.v *)
From Coq Require Import List NArith ZArith Bool.
From OC Require Import Base.Bytes Model.Value.
Import ListNotations.
Open Scope Z_scope.

Theorem C17_placeholder : forall s o fx, journey fx (GString s) o = Ok (GString s).
Proof. reflexivity. Qed.
Print Assumptions C17_placeholder.

(* C17 - Values survive the journey unchanged.
   Statements only; proofs live in Proofs/ValueProofs.v, ValueProofsLL.v, ValueProofsJson.v.

   journey fx g opts = NativeTypeToGnmiTypedValue (GnmiTypedValueToNativeType g modelPath): what Get in PROTO
   encoding and the device request carry for the value g that was set (the stored TypedValue in between).
   fx = true  : the code AS IT IS NOW in /repo (with the repairs 0d53a20, f016b97, 951349c); this is the variant the
                correspondence run compares the implementation with.
   fx = false : the code before those repairs; kept only for the regression witnesses of part 3.

   Part 1  what holds for the current code (theorems without suffix; most hold for both variants, "forall fx").
   Part 2  what is still false for the current code: `_refuted` witness + `_partial` theorem under the negated
           signature.  Exactly the open findings F-12a, F-12b, F-12e, all rooted in the onos-api dependency.
   Part 3  `_before_repair`: what the code did before a repair (findings F-12c, d, f, g, h, now fixed).  They say
           nothing about the current code; they keep the defect on record as a checked witness. *)
From Coq Require Import List NArith ZArith Bool Lia.
From OC Require Import Base.Bytes Model.Value Proofs.ValueProofs Proofs.ValueProofsLL Proofs.ValueProofsJson.
Import ListNotations.
Open Scope Z_scope.

(* ======================================================================================================== *)
(* Part 1 - the current code                                                                                *)
(* ======================================================================================================== *)

(* ---------------- PROTO journey, scalars: every value of the kind, every type option list *)
Theorem C17_rt_string : forall fx s o, journey fx (GString s) o = Ok (GString s).
Proof. exact rt_string. Qed.
Print Assumptions C17_rt_string.

Theorem C17_rt_ascii : forall fx s o, journey fx (GAscii s) o = Ok (GString s).
Proof. exact rt_ascii. Qed.
Print Assumptions C17_rt_ascii.

Theorem C17_rt_int : forall fx v o, int64_range v -> journey fx (GInt v) o = Ok (GInt v).
Proof. exact rt_int. Qed.
Print Assumptions C17_rt_int.

Theorem C17_rt_uint : forall fx v o, uint64_range v -> journey fx (GUint v) o = Ok (GUint v).
Proof. exact rt_uint. Qed.
Print Assumptions C17_rt_uint.

Theorem C17_rt_bool : forall fx b o, journey fx (GBool b) o = Ok (GBool b).
Proof. exact rt_bool. Qed.
Print Assumptions C17_rt_bool.

Theorem C17_rt_bytes : forall fx b o, journey fx (GBytes b) o = Ok (GBytes b).
Proof. exact rt_bytes. Qed.
Print Assumptions C17_rt_bytes.

(* decimal64 (RFC 7950: at most 18 fraction digits; 0 is let through as well) *)
Theorem C17_rt_decimal : forall fx d p o, int64_range d -> 0 <= p <= 18 -> journey fx (GDecimal d p) o = Ok (GDecimal d p).
Proof.
  intros fx d p o Hd Hp. apply rt_decimal; [exact Hd | lia |].
  unfold prec_ok. destruct fx; [apply Z.leb_le; lia | reflexivity].
Qed.
Print Assumptions C17_rt_decimal.

(* a precision outside decimal64 is refused (repair f016b97, finding F-12d) *)
Theorem C17_decimal_precision_refused : forall d p o, 18 < p -> to_native true (GDecimal d p) o = Err.
Proof. exact decimal_precision_refused. Qed.
Print Assumptions C17_decimal_precision_refused.

Theorem C17_rt_float : forall fx b o, f32_range b -> f32_is_nan b = false -> journey fx (GFloat b) o = Ok (GFloat b).
Proof. exact rt_float. Qed.
Print Assumptions C17_rt_float.

(* a NaN is refused, not altered *)
Theorem C17_nan_refused : forall fx b o, f32_is_nan b = true -> to_native fx (GFloat b) o = Err.
Proof. exact nan_refused. Qed.
Print Assumptions C17_nan_refused.

(* ---------------- PROTO journey, homogeneous non-empty leaf-lists (strings and bytes: part 2) *)
Theorem C17_rt_leaflist_int : forall fx l o,
  l <> [] -> Forall int64_range l -> journey fx (GLeafList (map GInt l)) o = Ok (GLeafList (map GInt l)).
Proof. exact rt_ll_int. Qed.
Print Assumptions C17_rt_leaflist_int.

Theorem C17_rt_leaflist_uint : forall fx l o,
  l <> [] -> Forall uint64_range l -> journey fx (GLeafList (map GUint l)) o = Ok (GLeafList (map GUint l)).
Proof. exact rt_ll_uint. Qed.
Print Assumptions C17_rt_leaflist_uint.

Theorem C17_rt_leaflist_bool : forall fx l o,
  l <> [] -> journey fx (GLeafList (map GBool l)) o = Ok (GLeafList (map GBool l)).
Proof. exact rt_ll_bool. Qed.
Print Assumptions C17_rt_leaflist_bool.

Theorem C17_rt_leaflist_decimal : forall fx p l o,
  l <> [] -> Forall int64_range l -> 0 <= p <= 18 ->
  journey fx (GLeafList (map (fun d => GDecimal d p) l)) o = Ok (GLeafList (map (fun d => GDecimal d p) l)).
Proof.
  intros fx p l o Hne Hl Hp. apply rt_ll_decimal; [exact Hne | exact Hl | lia |].
  unfold prec_ok. destruct fx; [apply Z.leb_le; lia | reflexivity].
Qed.
Print Assumptions C17_rt_leaflist_decimal.

Theorem C17_rt_leaflist_float : forall fx l o,
  l <> [] -> Forall (fun b => f32_range b /\ f32_is_nan b = false) l ->
  journey fx (GLeafList (map GFloat l)) o = Ok (GLeafList (map GFloat l)).
Proof. exact rt_ll_float. Qed.
Print Assumptions C17_rt_leaflist_float.

(* ---------------- JSON (RFC 7951 rendering, the one the server uses): type and digits *)
(* integers: a JSON number for widths 8/16/32, a JSON string for 64; the text is %d of the value and reads back *)
Theorem C17_json_type_digits_int : forall fx v w, int64_range v -> std_width w ->
  exists t, to_native fx (GInt v) (Some [w]) = Ok t /\
            json_leaf fx true t = Ok (Some (if w =? 64 then JStr (show_Z v) else JNum (show_Z v))) /\
            read_Z (show_Z v) = Some v.
Proof. exact json_int. Qed.
Print Assumptions C17_json_type_digits_int.

Theorem C17_json_type_digits_uint : forall fx v w, uint64_range v -> std_width w ->
  exists t, to_native fx (GUint v) (Some [w]) = Ok t /\
            json_leaf fx true t = Ok (Some (if w =? 64 then JStr (show_Z v) else JNum (show_Z v))) /\
            read_Z (show_Z v) = Some v.
Proof. exact json_uint. Qed.
Print Assumptions C17_json_type_digits_uint.

Theorem C17_json_type_digits_leaflist_int : forall fx l w, l <> [] -> Forall int64_range l -> std_width w ->
  exists t, to_native fx (GLeafList (map GInt l)) (Some [w]) = Ok t /\
            json_leaf fx true t = Ok (Some (JArr (map (fun v => if w =? 64 then JStr (show_Z v) else JNum (show_Z v)) l))) /\
            Forall (fun v => read_Z (show_Z v) = Some v) l.
Proof. exact json_ll_int. Qed.
Print Assumptions C17_json_type_digits_leaflist_int.

Theorem C17_json_type_digits_leaflist_uint : forall fx l w, l <> [] -> Forall uint64_range l -> std_width w ->
  exists t, to_native fx (GLeafList (map GUint l)) (Some [w]) = Ok t /\
            json_leaf fx true t = Ok (Some (JArr (map (fun v => if w =? 64 then JStr (show_Z v) else JNum (show_Z v)) l))) /\
            Forall (fun v => read_Z (show_Z v) = Some v) l.
Proof. exact json_ll_uint. Qed.
Print Assumptions C17_json_type_digits_leaflist_uint.

Theorem C17_json_string : forall fx rfc s o,
  exists t, to_native fx (GString s) o = Ok t /\ json_leaf fx rfc t = Ok (Some (JStr s)).
Proof. exact json_string. Qed.
Print Assumptions C17_json_string.

Theorem C17_json_bool : forall fx rfc b o,
  exists t, to_native fx (GBool b) o = Ok t /\ json_leaf fx rfc t = Ok (Some (JBool b)).
Proof. exact json_bool. Qed.
Print Assumptions C17_json_bool.

(* bytes: always the base64 string, "" for the empty value (repair 951349c, finding F-12g) *)
Theorem C17_json_bytes : forall rfc b o,
  exists t, to_native true (GBytes b) o = Ok t /\ json_leaf true rfc t = Ok (Some (JB64 b)).
Proof. exact json_bytes_fixed. Qed.
Print Assumptions C17_json_bytes.

(* decimal64, scalar and leaf-list: a JSON string that reads back to the same digits and precision, sign included
   (repair 0d53a20, findings F-12c and F-12f) *)
Theorem C17_json_decimal : forall d p o, int64_range d -> 1 <= p <= 18 ->
  exists t, to_native true (GDecimal d p) o = Ok t /\
            json_leaf true true t = Ok (Some (JStr (str_decimal64_fixed d p))) /\
            read_decimal (str_decimal64_fixed d p) = Some (d, p).
Proof. exact json_decimal_fixed. Qed.
Print Assumptions C17_json_decimal.

Theorem C17_json_leaflist_decimal : forall l p o, l <> [] -> Forall int64_range l -> 1 <= p <= 18 ->
  exists t, to_native true (GLeafList (map (fun d => GDecimal d p) l)) o = Ok t /\
            json_leaf true true t = Ok (Some (JArr (map (fun d => JStr (str_decimal64_fixed d p)) l))) /\
            Forall (fun d => read_decimal (str_decimal64_fixed d p) = Some (d, p)) l.
Proof. exact json_ll_decimal_fixed. Qed.
Print Assumptions C17_json_leaflist_decimal.

(* utils.StrVal of a decimal reads back to the same digits and precision (repair 0d53a20, finding F-12h) *)
Theorem C17_strval_decimal : forall d p, int64_range d -> 1 <= p ->
  exists s, str_decimal64_utils true d p = Ok s /\ read_decimal s = Some (d, p).
Proof. exact strval_decimal_fixed. Qed.
Print Assumptions C17_strval_decimal.

(* ======================================================================================================== *)
(* Part 2 - still false for the current code (open findings, onos-api)                                      *)
(* ======================================================================================================== *)

(* F-12a  string leaf-lists: an element holding the group separator 0x1D comes back split in two;
   proved when no element holds it *)
Theorem C17_rt_leaflist_string_refuted : forall fx,
  exists l o, l <> [] /\ journey fx (GLeafList (map GString l)) o <> Ok (GLeafList (map GString l)).
Proof. exact ll_string_refuted. Qed.
Print Assumptions C17_rt_leaflist_string_refuted.

Theorem C17_rt_leaflist_string_partial : forall fx l o,
  l <> [] -> Forall no_gs l -> journey fx (GLeafList (map GString l)) o = Ok (GLeafList (map GString l)).
Proof. exact rt_ll_string. Qed.
Print Assumptions C17_rt_leaflist_string_partial.

(* F-12b  bytes leaf-lists: an empty element after the first one is lost and the following ones are merged;
   proved when every element after the first is non-empty *)
Theorem C17_rt_leaflist_bytes_refuted : forall fx,
  exists l o, l <> [] /\ journey fx (GLeafList (map GBytes l)) o <> Ok (GLeafList (map GBytes l)).
Proof. exact ll_bytes_refuted. Qed.
Print Assumptions C17_rt_leaflist_bytes_refuted.

Theorem C17_rt_leaflist_bytes_partial : forall fx l o,
  l <> [] -> tail_nonempty l -> journey fx (GLeafList (map GBytes l)) o = Ok (GLeafList (map GBytes l)).
Proof. exact rt_ll_bytes. Qed.
Print Assumptions C17_rt_leaflist_bytes_partial.

(* F-12e  float32 in RFC 7951 JSON: the leaf is the fmt "%f" text of the value (six fraction digits), so digits below
   1e-6 are lost (1e-7 -> "0.000000").  The digits themselves are outside the model (JFloatF is "the %f text of this
   pattern"); what is proved is which rendering the code picks, the loss is exhibited by the monitor
   c17_float_json_fixed6 on the implementation.  The PROTO journey of floats is exact (C17_rt_float). *)
Theorem C17_json_float_fixed6_partial : forall fx b,
  json_leaf fx true (new_float b) = Ok (Some (JFloatF (tv_float (new_float b)))).
Proof. exact json_float. Qed.
Print Assumptions C17_json_float_fixed6_partial.

(* ======================================================================================================== *)
(* Part 3 - regression witnesses: the code BEFORE a repair (fx = false).  Nothing here is about /repo now.   *)
(* ======================================================================================================== *)

(* F-12d, repaired by f016b97: 8 bits of the precision were kept (256 -> 0); below 256 the PROTO journey held;
   from precision 64 on the JSON rendering divided by zero *)
Theorem C17_rt_decimal_precision_before_repair :
  exists d p o, int64_range d /\ journey false (GDecimal d p) o <> Ok (GDecimal d p).
Proof. exact decimal_precision_refuted. Qed.
Print Assumptions C17_rt_decimal_precision_before_repair.

Theorem C17_rt_decimal_below_256_before_repair : forall d p o,
  int64_range d -> 0 <= p < 256 -> journey false (GDecimal d p) o = Ok (GDecimal d p).
Proof. intros d p o Hd Hp. apply rt_decimal; [exact Hd | exact Hp | reflexivity]. Qed.
Print Assumptions C17_rt_decimal_below_256_before_repair.

Theorem C17_json_decimal_panic_before_repair : json_leaf false true (new_decimal 5 64) = Panic.
Proof. exact json_decimal_panic_refuted. Qed.
Print Assumptions C17_json_decimal_panic_before_repair.

(* F-12g, repaired by 951349c: the empty bytes value was written as JSON null; non-empty values were right *)
Theorem C17_json_bytes_null_before_repair :
  exists b o t, to_native false (GBytes b) o = Ok t /\ json_leaf false true t = Ok (Some JNull).
Proof. exact json_bytes_refuted. Qed.
Print Assumptions C17_json_bytes_null_before_repair.

Theorem C17_json_bytes_nonempty_before_repair : forall rfc b o, b <> [] ->
  exists t, to_native false (GBytes b) o = Ok t /\ json_leaf false rfc t = Ok (Some (JB64 b)).
Proof. exact json_bytes_partial. Qed.
Print Assumptions C17_json_bytes_nonempty_before_repair.

(* F-12c, repaired by 0d53a20: a decimal64 in (-1, 0) lost its sign in JSON *)
Theorem C17_json_decimal_sign_before_repair :
  exists d p s, int64_range d /\ 1 <= p <= 18 /\
    json_leaf false true (new_decimal d p) = Ok (Some (JStr s)) /\ read_decimal s <> Some (d, p).
Proof. exact json_decimal_sign_refuted. Qed.
Print Assumptions C17_json_decimal_sign_before_repair.

(* F-12f, repaired by 0d53a20: decimal64 leaf-list members were JSON numbers computed in float64 *)
Theorem C17_json_leaflist_decimal_before_repair :
  json_leaf false true (new_ll_decimal [15] 1) = Ok (Some (JArr [JDivFloat 15 1])).
Proof. exact json_ll_decimal_refuted. Qed.
Print Assumptions C17_json_leaflist_decimal_before_repair.

(* F-12h, repaired by 0d53a20: StrVal lost the sign in (-1, 0) and the zeros after the point (1.05 -> "1.5") *)
Theorem C17_strval_decimal_before_repair :
  str_decimal64_utils false (-5) 1 = Ok (B "0.5") /\ str_decimal64_utils false 105 2 = Ok (B "1.5").
Proof. exact strval_decimal_refuted. Qed.
Print Assumptions C17_strval_decimal_before_repair.

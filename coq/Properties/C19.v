(* C19 - Subscriptions reach exactly the targets they name.
   Statements only; proofs live in Proofs/SubscribeProofs.v, the transcription of
   pkg/northbound/gnmi/v2/subscribe.go in Model/Subscribe.v.

   Reading guide.  `split r` is splitSubscribeRequest (None = Invalid error), `names r t e` says that
   entry e of request r names target t (the prefix target for every entry when there is one, else the
   target of the entry's own path), `entries_for tr t` are the entries of the request built for t,
   `process` is processSubscribeRequest, `run_steps`/`run` the Subscribe loop over ANY sequence of
   northbound messages and southbound device messages, `known` the targets with a southbound
   connection.  Entries are opaque values: the model cannot alter them, the harness checks that the
   implementation does not (byte equality of each forwarded entry). *)
From Coq Require Import List NArith Bool.
From OC Require Import Base.Bytes Model.Subscribe Proofs.SubscribeProofs.
Import ListNotations.

(* ---- the split --------------------------------------------------------------------------- *)

(* An accepted split: one request per named target (no duplicates); the targets are exactly the
   non-empty prefix target, or - without prefix target - the non-empty targets of the entries;
   the request for t carries exactly the entries naming t, in their original order and multiplicity
   (hence every entry naming t is in treqs[t] and in no other request); extensions and list options are
   the subscriber's, the prefix keeps origin and elems and is addressed to t; with a prefix target
   the original request itself is the single result. *)
Theorem C19_split : forall r tr,
  split r = Some tr ->
  NoDup (keys tr) /\
  (forall t, In t (keys tr) <->
             t <> [] /\ (prefix_target (r_list r) = t \/
                         (prefix_target (r_list r) = [] /\
                          exists e, In e (l_subs (r_list r)) /\ e_target e = t))) /\
  (forall t, entries_for tr t = filter (names r t) (l_subs (r_list r))) /\
  (forall t q, In (t, q) tr ->
     r_ext q = r_ext r /\
     l_opts (r_list q) = l_opts (r_list r) /\
     exists p, l_prefix (r_list q) = Some p /\ p_target p = t /\
               p_origin p = prefix_origin (r_list r) /\ p_elems p = prefix_elems (r_list r)) /\
  (prefix_target (r_list r) <> [] -> tr = [(prefix_target (r_list r), r)]).
Proof. exact split_spec. Qed.
Print Assumptions C19_split.

(* "to the target it names and to no other" spelled out per entry *)
Theorem C19_split_entry_exactly_where_named : forall r tr e,
  split r = Some tr -> In e (l_subs (r_list r)) ->
  forall t, In e (entries_for tr t) <-> names r t e = true.
Proof. exact targeted_exactly_one. Qed.
Print Assumptions C19_split_entry_exactly_where_named.

Theorem C19_entry_names_at_most_one_target : forall r t t' e,
  names r t e = true -> names r t' e = true -> t = t'.
Proof. exact names_functional. Qed.
Print Assumptions C19_entry_names_at_most_one_target.

(* what happens to entries without target when the prefix names none either: they are dropped
   (silently, when some other entry names a target - otherwise the request is refused, next theorem) *)
Theorem C19_split_untargeted_dropped : forall r tr e t,
  split r = Some tr -> prefix_target (r_list r) = [] -> e_target e = [] ->
  ~ In e (entries_for tr t).
Proof. exact untargeted_dropped. Qed.
Print Assumptions C19_split_untargeted_dropped.

(* a request is refused by the split exactly when it names no target anywhere *)
Theorem C19_split_refused_iff_no_target : forall r,
  split r = None <->
  prefix_target (r_list r) = [] /\ forall e, In e (l_subs (r_list r)) -> e_target e = [].
Proof. exact split_refused_iff. Qed.
Print Assumptions C19_split_refused_iff_no_target.

(* forwarding the split: the client of t is handed t's own request only (whatever the Go map order) *)
Theorem C19_forward_per_target : forall known tr t,
  NoDup (keys tr) ->
  fwd_to t (flat_map (deliver known) (esubs tr)) =
  match lookup t tr with Some q => deliver known (ESub t q) | None => [] end.
Proof. exact fwd_subs_lookup. Qed.
Print Assumptions C19_forward_per_target.

(* ---- the protocol ------------------------------------------------------------------------- *)

(* second Subscribe / Poll before Subscribe / neither / no target anywhere: Invalid, nothing forwarded;
   the context is unchanged in the first three cases; in the fourth the request is remembered with an
   empty split (and the stream ends, C19_refusal_ends_stream) *)
Theorem C19_protocol : forall c,
  (forall r, c_req c <> None -> process c (MSub r) = (c, [], false)) /\
  (c_req c = None -> process c MPoll = (c, [], false)) /\
  process c MNone = (c, [], false) /\
  (forall r, c_req c = None -> split r = None ->
             process c (MSub r) = ({| c_req := Some r; c_treqs := [] |}, [], false)).
Proof. exact protocol_refusals. Qed.
Print Assumptions C19_protocol.

(* ... and nothing else is refused *)
Theorem C19_protocol_accepts_iff : forall c m,
  snd (process c m) = true <->
  (exists r tr, m = MSub r /\ c_req c = None /\ split r = Some tr) \/ (m = MPoll /\ c_req c <> None).
Proof. exact process_accepts_iff. Qed.
Print Assumptions C19_protocol_accepts_iff.

(* a refusal ends the stream with the Invalid error: nothing after it is looked at, for any continuation *)
Theorem C19_refusal_ends_stream : forall known pre m post st o1 st1 n1,
  run_steps known st pre = (o1, st1, false, n1) ->
  snd (process (rs_ctx st1) m) = false ->
  run_steps known st (pre ++ SMsg m :: post) =
  (o1, {| rs_ctx := fst (fst (process (rs_ctx st1) m)); rs_handlers := rs_handlers st1 |}, true, (n1 + 1)%nat).
Proof. exact refusal_final. Qed.
Print Assumptions C19_refusal_ends_stream.

Theorem C19_invalid_iff_refused : forall known steps e o res,
  run known steps e = (o, res) ->
  (res = RInvalid <-> snd (fst (run_steps known rstate_init steps)) = true).
Proof. exact run_invalid_iff. Qed.
Print Assumptions C19_invalid_iff_refused.

(* every message sequence on one stream: device messages before the subscription go nowhere; the first
   northbound message decides - a Subscribe naming a target is split and forwarded once, afterwards only
   polls and relays happen (sub_step_obs) until the first message that is not a Poll; anything else as
   first message ends the stream with nothing forwarded *)
Theorem C19_stream_shape : forall known devs m rest,
  forallb is_dev devs = true ->
  run_steps known rstate_init (devs ++ SMsg m :: rest) =
  match m with
  | MSub r =>
      match split r with
      | Some tr =>
          let st := subscribed_state known r tr in
          let '(o, _, stp, n) := run_steps known st rest in
          (flat_map (deliver known) (esubs tr) ++ flat_map (sub_step_obs st) (firstn n rest),
           st, stp, (length devs + S n)%nat)
      | None => ([], {| rs_ctx := {| c_req := Some r; c_treqs := [] |}; rs_handlers := [] |}, true, (length devs + 1)%nat)
      end
  | _ => ([], rstate_init, true, (length devs + 1)%nat)
  end.
Proof. exact stream_shape. Qed.
Print Assumptions C19_stream_shape.

Theorem C19_stream_without_messages : forall known devs,
  forallb is_dev devs = true ->
  run_steps known rstate_init devs = ([], rstate_init, false, length devs).
Proof. exact stream_devs_only. Qed.
Print Assumptions C19_stream_without_messages.

(* ---- polls --------------------------------------------------------------------------------- *)

(* in every reachable state the targets holding a subscription of this stream are exactly the connected
   targets of the split *)
Theorem C19_reachable_invariant : forall known steps o st stp n,
  run_steps known rstate_init steps = (o, st, stp, n) -> inv known st.
Proof. exact inv_reachable. Qed.
Print Assumptions C19_reachable_invariant.

(* a poll on a subscribed stream goes to every target subscribed on that stream, once, and to no other *)
Theorem C19_poll_all : forall known st,
  inv known st -> c_req (rs_ctx st) <> None ->
  do_step known st (SMsg MPoll) = (map OPoll (rs_handlers st), st, true).
Proof. exact step_poll. Qed.
Print Assumptions C19_poll_all.

(* all continuations of a subscribed stream *)
Theorem C19_subscribed_stream : forall known steps st o st' stp n,
  inv known st -> c_req (rs_ctx st) <> None ->
  run_steps known st steps = (o, st', stp, n) ->
  st' = st /\ o = flat_map (sub_step_obs st) (firstn n steps).
Proof. intros known steps st o st' stp n. exact (run_subscribed known steps st o st' stp n). Qed.
Print Assumptions C19_subscribed_stream.

(* ---- relay --------------------------------------------------------------------------------- *)

Theorem C19_relay_step : forall known st t d,
  do_step known st (SDev t d) = (if mem_str t (rs_handlers st) then [relay t d] else [], st, true).
Proof. exact step_dev. Qed.
Print Assumptions C19_relay_step.

(* the responses of a subscribed target reach the subscriber as received: all of them, unchanged, in
   order, for as long as the stream lives (the first n steps are the ones processed) *)
Theorem C19_relay_identity : forall known steps st o st' stp n t,
  inv known st -> In t (rs_handlers st) ->
  run_steps known st steps = (o, st', stp, n) ->
  sends_of t o = dev_resps t (firstn n steps).
Proof. exact relay_identity. Qed.
Print Assumptions C19_relay_identity.

Theorem C19_relay_only_subscribed : forall known steps st o st' stp n t,
  inv known st -> c_req (rs_ctx st) <> None -> ~ In t (rs_handlers st) ->
  run_steps known st steps = (o, st', stp, n) ->
  forall x, In x o -> is_relay x = true -> obs_target x <> t.
Proof. exact relay_only_subscribed. Qed.
Print Assumptions C19_relay_only_subscribed.

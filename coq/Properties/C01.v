(* C01 - A multi-target Set is committed on all of its targets or on none.
   Statements only.  Model: Model/Proto2.v (the v2 transaction / proposal / configuration / mastership /
   connection reconcilers, one invocation = an ordered effect list, a step executes any PREFIX of it, so every
   theorem below quantifies over all change sets, all verdicts and device answers (oracle), all interleavings of
   whole and partial reconcile invocations, and every crash point between two persisted effects).
   The theorems hold for EVERY pure layer (how values are merged is a parameter of the model).

   How the theorems decide the property.  The request's share for target t is proposal (t, i) of transaction i.
   - C01_values_only_by_commit: the stored configuration of a target (c_values, what Get returns) is altered by one
     kind of step only: the Commit of a proposal that is in its Commit phase (COMMITTING, no Apply, no Abort) on top
     of its predecessor, and the new values are exactly commit_merge of the snapshot - for all worlds, no hypothesis.
   - C01_phase_order, C01_agreement, C01_no_mixed: a proposal is in Commit only after its own validation is done and
     only if its transaction is in Commit, which needs the transaction's Validate phase done, which means EVERY
     listed proposal exists and is validated; Commit and Abort never coexist in one transaction.
   - C01_reject_never_commits: if the model of any one target rejects its share (p_validate = FAILED) then no
     proposal of that transaction has a Commit phase, in that world and in every later world (any continuation
     [ls], crashes included); hence by C01_values_only_by_commit no named target's configuration is ever altered
     by it (C05_rejected_never_alters states the combination); once the transaction reconciler has looked
     (t_validate = FAILED) the transaction is FAILED with the failure of a failed proposal and is in its Abort phase.
   - C01_all_or_none_at_fixpoint: when no reconciler has anything left to do (idle), every transaction has either
     all listed proposals COMMITTED or no proposal with a Commit phase at all.
   - C01_forward (monotonicity of every step): the proposal list of a transaction, once set, never changes; the
     details of a proposal and the targets of a transaction never change; phases only move forward
     (absent -> in progress -> done / failed, never back); records and configurations are never deleted.
   What remains partial: "contains all of that request's changes" as a statement about the merged VALUES
   (values = fold of commit_merge along the per-target chain) is the values_fold invariant of C02/C03, not proved
   here; a committing proposal whose configuration's Committed.Index is not its PrevIndex is marked COMMITTED
   without a merge by the code (reconcileCommit) - that this never happens for a validated proposal needs the
   cursor invariant (cursor_wf), which is not part of this file.  The answer to the caller (SetResponse) is C08. *)
From stdpp Require Import gmap.
From RecordUpdate Require Import RecordUpdate.
From Coq Require Import NArith.
From OC Require Import Model.Proto2 Proofs.P2Base Proofs.P2Phases Proofs.P2_Order Proofs.P2_OrderStep.
Open Scope N_scope.

Section C01.
  Context {V Ch Req D : Type}.
  Context (candidate : V -> Ch -> V) (candidate_rb : V -> Ch -> V) (rollback_of : V -> Ch -> Ch)
          (overlay : V -> V -> V) (commit_merge : N -> N -> V -> V -> Ch -> V)
          (payload : N -> V -> Ch -> option Req) (record_applied : N -> N -> V -> V -> V -> Ch -> V)
          (touched : N -> V -> Ch -> V) (restore : V -> V -> V)
          (resync_payload : V -> list (option Req)) (doc_ok : V -> bool)
          (dev_apply : D -> Req -> D) (stamp : N -> Ch -> Ch) (v_empty : V) (d_empty : D) (ch_empty : Ch).
  Notation reach := (@reach V Ch Req D candidate candidate_rb rollback_of overlay commit_merge payload record_applied
                            touched restore resync_payload doc_ok dev_apply stamp v_empty d_empty ch_empty).
  Notation step := (@step V Ch Req D candidate candidate_rb rollback_of overlay commit_merge payload record_applied
                          touched restore resync_payload doc_ok dev_apply stamp v_empty d_empty ch_empty).
  Notation reconcile := (@reconcile V Ch Req D candidate candidate_rb rollback_of overlay commit_merge payload record_applied
                                    touched restore resync_payload doc_ok stamp v_empty d_empty ch_empty).

  (* in every reachable world no transaction has one proposal in its Commit phase and another in its Abort phase *)
  Theorem C01_no_mixed : forall (w : @world V Ch Req D) i t t' (P Q : @prop Ch),
    reach w -> props w !! (t, i) = Some P -> props w !! (t', i) = Some Q ->
    ~ (is_Some (p_commit P) /\ is_Some (p_abort Q)).
  Proof. exact (no_mixed_commit_abort candidate candidate_rb rollback_of overlay commit_merge payload record_applied touched restore
                  resync_payload doc_ok dev_apply stamp v_empty d_empty ch_empty). Qed.

  (* the phases of a proposal are ordered *)
  Theorem C01_phase_order : forall (w : @world V Ch Req D) k (P : @prop Ch),
    reach w -> props w !! k = Some P ->
    (is_Some (p_validate P) -> p_init P = Some Done) /\
    (is_Some (p_commit P) -> p_validate P = Some Done) /\
    (is_Some (p_apply P) -> p_commit P = Some Done) /\
    (is_Some (p_abort P) -> p_commit P = None /\ p_apply P = None) /\
    p_commit P <> Some Failed /\ p_abort P <> Some Failed /\
    (p_validate P = Some Failed -> is_Some (p_vfail P)).
  Proof. exact (proposal_phase_order candidate candidate_rb rollback_of overlay commit_merge payload record_applied touched restore
                  resync_payload doc_ok dev_apply stamp v_empty d_empty ch_empty). Qed.

  (* a phase that is done on a transaction is done on every proposal it lists, and every listed proposal exists *)
  Theorem C01_agreement : forall (w : @world V Ch Req D) i (T : @txn Ch) tg t,
    reach w -> txs w !! i = Some T -> t_props T = Some tg -> In t tg ->
    exists P, props w !! (t, i) = Some P /\
      (t_init T = Some Done -> p_init P = Some Done) /\
      (t_validate T = Some Done -> p_validate P = Some Done) /\
      (t_commit T = Some Done -> p_commit P = Some Done) /\
      (t_apply T = Some Done -> p_apply P = Some Done) /\
      (t_abort T = Some Done -> p_abort P = Some Done).
  Proof. exact (tx_prop_agreement candidate candidate_rb rollback_of overlay commit_merge payload record_applied touched restore
                  resync_payload doc_ok dev_apply stamp v_empty d_empty ch_empty). Qed.

  (* every step moves every record forward ([mono], Proofs/P2_Order.v: proposal list, details and targets kept,
     every phase forward in the order absent < in progress < done / failed, nothing deleted) *)
  Theorem C01_forward : forall (w : @world V Ch Req D) l, reach w -> mono w (step w l).
  Proof. exact (step_mono candidate candidate_rb rollback_of overlay commit_merge payload record_applied touched restore
                  resync_payload doc_ok dev_apply stamp v_empty d_empty ch_empty). Qed.

  (* a rejected share: no proposal of the transaction ever has a Commit phase, whatever happens afterwards *)
  Theorem C01_reject_never_commits : forall (w : @world V Ch Req D) t i (P : @prop Ch) (ls : list (@label Ch)),
    reach w -> props w !! (t, i) = Some P -> p_validate P = Some Failed ->
    let w' := fold_left step ls w in
    (forall t' Q, props w' !! (t', i) = Some Q -> p_commit Q = None) /\
    (forall T, txs w' !! i = Some T ->
       t_commit T = None /\
       (t_validate T = Some Failed ->
          t_state T = TFailed /\ is_Some (t_abort T) /\
          exists t0 P0, props w' !! (t0, i) = Some P0 /\ p_validate P0 = Some Failed /\
                        t_failure T = p_vfail P0 /\ is_Some (p_vfail P0))).
  Proof. exact (reject_never_commits candidate candidate_rb rollback_of overlay commit_merge payload record_applied touched restore
                  resync_payload doc_ok dev_apply stamp v_empty d_empty ch_empty). Qed.

  (* single step, no hypothesis on the world: committed values change only by the commit of a committing proposal *)
  Theorem C01_values_only_by_commit : forall (w : @world V Ch Req D) l t (C C' : @config V),
    cfgs w !! t = Some C -> cfgs (step w l) !! t = Some C' -> c_values C' <> c_values C ->
    exists i n o (P : @prop Ch), l = LRec (CtlProp (t, i)) n o /\ props w !! (t, i) = Some P /\
      p_commit P = Some Doing /\ p_apply P = None /\ p_abort P = None /\ c_committed C = p_prev P /\ (0 < n)%nat /\
      c_values C' = commit_merge (o_order o) i (c_values C) (view overlay C) (rb_change ch_empty P).
  Proof. exact (values_only_by_commit candidate candidate_rb rollback_of overlay commit_merge payload record_applied touched restore
                  resync_payload doc_ok dev_apply stamp v_empty d_empty ch_empty). Qed.

  (* idle system: all listed proposals committed, or none in Commit *)
  Theorem C01_all_or_none_at_fixpoint : forall (w : @world V Ch Req D),
    reach w -> (forall c o, fst (reconcile o w c) = []) ->
    forall i (T : @txn Ch), txs w !! i = Some T ->
      (forall t, In t (default [] (t_props T)) -> exists P, props w !! (t, i) = Some P /\ p_commit P = Some Done) \/
      (forall t P, props w !! (t, i) = Some P -> p_commit P = None).
  Proof. exact (all_or_none_at_fixpoint candidate candidate_rb rollback_of overlay commit_merge payload record_applied touched restore
                  resync_payload doc_ok dev_apply stamp v_empty d_empty ch_empty). Qed.
End C01.
Print Assumptions C01_no_mixed.
Print Assumptions C01_phase_order.
Print Assumptions C01_agreement.
Print Assumptions C01_forward.
Print Assumptions C01_reject_never_commits.
Print Assumptions C01_values_only_by_commit.
Print Assumptions C01_all_or_none_at_fixpoint.

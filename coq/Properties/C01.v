(* C01 - A multi-target Set is committed on all of its targets or on none.
   Statements only.  Model: Model/Proto2.v (the v2 transaction / proposal / configuration / mastership /
   connection reconcilers, one invocation = an ordered effect list, a step executes any PREFIX of it, so every
   theorem below quantifies over all change sets, all verdicts and device answers (oracle), all interleavings of
   whole and partial reconcile invocations, and every crash point between two persisted effects).
   The theorems hold for EVERY pure layer (how values are merged is a parameter of the model).

   How the theorems decide the property.  The request's share for target t is proposal (t, i) of transaction i.
   - C01_values_only_by_commit: the stored configuration of a target (c_values, what Get returns) is altered by one
     kind of step only: the Commit of a proposal that is in its Commit phase (COMMITTING, no Apply, no Abort) on top
     of its predecessor, and the new values are exactly commit_merge of the snapshot - for all worlds, no hypothesis.
   - C01_phase_order, C01_agreement, C01_no_mixed: a proposal is in Commit only after its own validation is done and
     only if its transaction is in Commit, which needs the transaction's Validate phase done, which means EVERY
     listed proposal exists and is validated; Commit and Abort never coexist in one transaction.
   - C01_reject_never_commits: if the model of any one target rejects its share (p_validate = FAILED) then no
     proposal of that transaction has a Commit phase, in that world and in every later world (any continuation
     [ls], crashes included); hence by C01_values_only_by_commit no named target's configuration is ever altered
     by it (C05_rejected_never_alters states the combination); once the transaction reconciler has looked
     (t_validate = FAILED) the transaction is FAILED with the failure of a failed proposal and is in its Abort phase.
   - C01_all_or_none_at_fixpoint: when no reconciler has anything left to do (idle), every transaction has either
     all listed proposals COMMITTED or no proposal with a Commit phase at all.
   - C01_forward (monotonicity of every step): the proposal list of a transaction, once set, never changes; the
     details of a proposal and the targets of a transaction never change; phases only move forward
     (absent -> in progress -> done / failed, never back); records and configurations are never deleted.
   VALUE LEVEL, on the executable instance (Model/P2Inst.v over the concrete pure layer Model/P2Pure.v; second part of
   this file).  Worlds are x_run ls for label lists with labels_wfb ls = true (every request a wf_change: unique proper
   keys = paths, no update beneath a delete of the same request - the excluded overlap is the open finding F-14 - and
   values live at leaves) and completes (every reconcile invocation runs to its end; the well-formedness of the stored
   maps, Proofs/P2PureReach*.v reach_inv, is an invariant of exactly those worlds).  [live (view overlay C)] is what
   Get returns for the target (live leaves not beneath a tombstone, sorted by path).
   - C01_commit_contains_change: the commit step of proposal (t, i) of a Change (COMMITTING, on top of its predecessor)
     moves Committed.Index to i, and afterwards the live view of t shows p = v for every update (p, v) of the change
     and nothing at or beneath any deleted path of the change - for every Go-map iteration order (o_order).  No
     hypothesis on the indexes already stored: a stored value that store() skips because it carries the same index
     says the same (idx_compat, part of the invariant).
   - C01_untouched_targets_keep_values: a complete step changes the live view of a target only if it is the commit of
     a proposal of THAT target; C01_other_target_keeps: a step of proposal (t', i) leaves the live view of every other
     target unchanged.
   - C01_committed_value_persists: a live stored value of a target survives every complete step unless the step is
     the commit of a proposal of that target whose values touch its path (hold the path or delete a path above it).
   - C01_all_or_none_values_partial: at a fixed point (no reconciler has anything left to do) of such a run, for every
     transaction EITHER every listed proposal is COMMITTED and the live view of each named target shows every update
     of its share, unless a LATER commit of that target touched the path - that commit step is exhibited as a position
     of the run after the proposal's own commit step ([touched_in]) - OR no proposal of the transaction has a Commit
     phase and no step of any of its proposals, anywhere in the run, altered the live view of any target.
     Named premise: committed_means_merged ls - every proposal that is COMMITTED at the end was
     merged by a commit step of the run that found Committed.Index = PrevIndex (reconcileCommit marks a proposal
     COMMITTED without merging when the index is elsewhere; that this cannot happen is a statement about the cursors).
   - C01_all_or_none_values: the same statement WITHOUT that premise - it is proved for every run of complete
     invocations (Proofs/P2PureAtomicMerged.v: committed_means_merged_holds, through the invariants B_inv - no proposal
     lies strictly between a proposal and its PrevIndex - and J_inv - a proposal that is neither COMMITTED nor aborting
     nor applying has its index above Committed.Index).
     For the deleted paths of a change this theorem states only what holds right after the commit
     (C01_commit_contains_change); their persistence is C01_deleted_path_stays_deleted (end of this file): after the
     commit of a change that deletes d, at the end of any continuation of the run nothing is live at or beneath d unless
     a later commit step of that target - exhibited as a position of the run - carries a live value at or beneath d
     (Proofs/P2PureAtomicDeleted.v: a commit adds to the live view only paths of non-deleted values of its own change).
   What remains partial: "contains all of that request's changes" as a statement about the merged VALUES
   (values = fold of commit_merge along the per-target chain) is the values_fold invariant of C02/C03, not proved
   here; a committing proposal whose configuration's Committed.Index is not its PrevIndex is marked COMMITTED
   without a merge by the code (reconcileCommit) - that this never happens for a validated proposal needs the
   cursor invariant (cursor_wf), which is not part of this file.  The answer to the caller (SetResponse) is C08. *)
From stdpp Require Import gmap.
From RecordUpdate Require Import RecordUpdate.
From Coq Require Import NArith.
From OC Require Import Model.Proto2 Proofs.P2Base Proofs.P2Phases Proofs.P2_Order Proofs.P2_OrderStep.
Open Scope N_scope.

Section C01.
  Context {V Ch Req D : Type}.
  Context (candidate : V -> Ch -> V) (candidate_rb : V -> Ch -> V) (rollback_of : V -> Ch -> Ch)
          (overlay : V -> V -> V) (commit_merge : N -> N -> V -> V -> Ch -> V)
          (payload : N -> V -> Ch -> option Req) (record_applied : N -> N -> V -> V -> V -> Ch -> V)
          (touched : N -> V -> Ch -> V) (restore : V -> V -> V)
          (resync_payload : V -> list (option Req)) (doc_ok : V -> bool)
          (dev_apply : D -> Req -> D) (stamp : N -> Ch -> Ch) (v_empty : V) (d_empty : D) (ch_empty : Ch).
  Notation reach := (@reach V Ch Req D candidate candidate_rb rollback_of overlay commit_merge payload record_applied
                            touched restore resync_payload doc_ok dev_apply stamp v_empty d_empty ch_empty).
  Notation step := (@step V Ch Req D candidate candidate_rb rollback_of overlay commit_merge payload record_applied
                          touched restore resync_payload doc_ok dev_apply stamp v_empty d_empty ch_empty).
  Notation reconcile := (@reconcile V Ch Req D candidate candidate_rb rollback_of overlay commit_merge payload record_applied
                                    touched restore resync_payload doc_ok stamp v_empty d_empty ch_empty).

  (* in every reachable world no transaction has one proposal in its Commit phase and another in its Abort phase *)
  Theorem C01_no_mixed : forall (w : @world V Ch Req D) i t t' (P Q : @prop Ch),
    reach w -> props w !! (t, i) = Some P -> props w !! (t', i) = Some Q ->
    ~ (is_Some (p_commit P) /\ is_Some (p_abort Q)).
  Proof. exact (no_mixed_commit_abort candidate candidate_rb rollback_of overlay commit_merge payload record_applied touched restore
                  resync_payload doc_ok dev_apply stamp v_empty d_empty ch_empty). Qed.

  (* the phases of a proposal are ordered *)
  Theorem C01_phase_order : forall (w : @world V Ch Req D) k (P : @prop Ch),
    reach w -> props w !! k = Some P ->
    (is_Some (p_validate P) -> p_init P = Some Done) /\
    (is_Some (p_commit P) -> p_validate P = Some Done) /\
    (is_Some (p_apply P) -> p_commit P = Some Done) /\
    (is_Some (p_abort P) -> p_commit P = None /\ p_apply P = None) /\
    p_commit P <> Some Failed /\ p_abort P <> Some Failed /\
    (p_validate P = Some Failed -> is_Some (p_vfail P)).
  Proof. exact (proposal_phase_order candidate candidate_rb rollback_of overlay commit_merge payload record_applied touched restore
                  resync_payload doc_ok dev_apply stamp v_empty d_empty ch_empty). Qed.

  (* a phase that is done on a transaction is done on every proposal it lists, and every listed proposal exists *)
  Theorem C01_agreement : forall (w : @world V Ch Req D) i (T : @txn Ch) tg t,
    reach w -> txs w !! i = Some T -> t_props T = Some tg -> In t tg ->
    exists P, props w !! (t, i) = Some P /\
      (t_init T = Some Done -> p_init P = Some Done) /\
      (t_validate T = Some Done -> p_validate P = Some Done) /\
      (t_commit T = Some Done -> p_commit P = Some Done) /\
      (t_apply T = Some Done -> p_apply P = Some Done) /\
      (t_abort T = Some Done -> p_abort P = Some Done).
  Proof. exact (tx_prop_agreement candidate candidate_rb rollback_of overlay commit_merge payload record_applied touched restore
                  resync_payload doc_ok dev_apply stamp v_empty d_empty ch_empty). Qed.

  (* every step moves every record forward ([mono], Proofs/P2_Order.v: proposal list, details and targets kept,
     every phase forward in the order absent < in progress < done / failed, nothing deleted) *)
  Theorem C01_forward : forall (w : @world V Ch Req D) l, reach w -> mono w (step w l).
  Proof. exact (step_mono candidate candidate_rb rollback_of overlay commit_merge payload record_applied touched restore
                  resync_payload doc_ok dev_apply stamp v_empty d_empty ch_empty). Qed.

  (* a rejected share: no proposal of the transaction ever has a Commit phase, whatever happens afterwards *)
  Theorem C01_reject_never_commits : forall (w : @world V Ch Req D) t i (P : @prop Ch) (ls : list (@label Ch)),
    reach w -> props w !! (t, i) = Some P -> p_validate P = Some Failed ->
    let w' := fold_left step ls w in
    (forall t' Q, props w' !! (t', i) = Some Q -> p_commit Q = None) /\
    (forall T, txs w' !! i = Some T ->
       t_commit T = None /\
       (t_validate T = Some Failed ->
          t_state T = TFailed /\ is_Some (t_abort T) /\
          exists t0 P0, props w' !! (t0, i) = Some P0 /\ p_validate P0 = Some Failed /\
                        t_failure T = p_vfail P0 /\ is_Some (p_vfail P0))).
  Proof. exact (reject_never_commits candidate candidate_rb rollback_of overlay commit_merge payload record_applied touched restore
                  resync_payload doc_ok dev_apply stamp v_empty d_empty ch_empty). Qed.

  (* single step, no hypothesis on the world: committed values change only by the commit of a committing proposal *)
  Theorem C01_values_only_by_commit : forall (w : @world V Ch Req D) l t (C C' : @config V),
    cfgs w !! t = Some C -> cfgs (step w l) !! t = Some C' -> c_values C' <> c_values C ->
    exists i n o (P : @prop Ch), l = LRec (CtlProp (t, i)) n o /\ props w !! (t, i) = Some P /\
      p_commit P = Some Doing /\ p_apply P = None /\ p_abort P = None /\ c_committed C = p_prev P /\ (0 < n)%nat /\
      c_values C' = commit_merge (o_order o) i (c_values C) (view overlay C) (rb_change ch_empty P).
  Proof. exact (values_only_by_commit candidate candidate_rb rollback_of overlay commit_merge payload record_applied touched restore
                  resync_payload doc_ok dev_apply stamp v_empty d_empty ch_empty). Qed.

  (* idle system: all listed proposals committed, or none in Commit *)
  Theorem C01_all_or_none_at_fixpoint : forall (w : @world V Ch Req D),
    reach w -> (forall c o, fst (reconcile o w c) = []) ->
    forall i (T : @txn Ch), txs w !! i = Some T ->
      (forall t, In t (default [] (t_props T)) -> exists P, props w !! (t, i) = Some P /\ p_commit P = Some Done) \/
      (forall t P, props w !! (t, i) = Some P -> p_commit P = None).
  Proof. exact (all_or_none_at_fixpoint candidate candidate_rb rollback_of overlay commit_merge payload record_applied touched restore
                  resync_payload doc_ok dev_apply stamp v_empty d_empty ch_empty). Qed.
End C01.
Print Assumptions C01_no_mixed.
Print Assumptions C01_phase_order.
Print Assumptions C01_agreement.
Print Assumptions C01_forward.
Print Assumptions C01_reject_never_commits.
Print Assumptions C01_values_only_by_commit.
Print Assumptions C01_all_or_none_at_fixpoint.

(** * Value level: the executable instance (Model/P2Inst.v) *)
From OC Require Import Base.Bytes Model.P2Pure Model.P2Inst Proofs.P2_ConvergeEx Proofs.P2PureApplyDefs Proofs.P2PureApplyBase
     Proofs.P2PureApplyInst Proofs.P2PureReachLabels Proofs.P2PureAtomicCommit Proofs.P2PureAtomicFrame Proofs.P2PureAtomicAll.

Theorem C01_commit_contains_change :
  forall (ls : list Label) t i n (o : oracle) (P : Prop2) (C C' : Cfg) c,
  labels_wfb (ls ++ [LRec (CtlProp (t, i)) n o]) = true -> completes p2_init (ls ++ [LRec (CtlProp (t, i)) n o]) ->
  props (x_run ls) !! (t, i) = Some P -> p_details P = PChange c -> cfgs (x_run ls) !! t = Some C ->
  p_commit P = Some Doing -> p_apply P = None -> p_abort P = None -> c_committed C = p_prev P ->
  cfgs (p2_step (x_run ls) (LRec (CtlProp (t, i)) n o)) !! t = Some C' ->
  c_committed C' = i /\
  (forall p u, In (p, u) c -> pv_deleted u = false -> In (p, pv_val u) (live (view overlay C'))) /\
  (forall d u, In (d, u) c -> pv_deleted u = true ->
     forall k x, In (k, x) (live (view overlay C')) -> k <> d /\ ~ Below k d).
Proof. exact commit_contains_change_run. Qed.

Theorem C01_untouched_targets_keep_values :
  forall (ls : list Label) (l : Label) t (C C' : Cfg),
  labels_wfb (ls ++ [l]) = true -> completes p2_init (ls ++ [l]) ->
  cfgs (x_run ls) !! t = Some C -> cfgs (p2_step (x_run ls) l) !! t = Some C' ->
  live (view overlay C') = live (view overlay C) \/
  exists i n o (P : Prop2), l = LRec (CtlProp (t, i)) n o /\ props (x_run ls) !! (t, i) = Some P /\
    p_commit P = Some Doing /\ p_apply P = None /\ p_abort P = None /\ c_committed C = p_prev P /\ (0 < n)%nat.
Proof. exact live_view_frame_run. Qed.

Theorem C01_other_target_keeps :
  forall (ls : list Label) t' i n o t (C C' : Cfg),
  labels_wfb (ls ++ [LRec (CtlProp (t', i)) n o]) = true -> completes p2_init (ls ++ [LRec (CtlProp (t', i)) n o]) -> t' <> t ->
  cfgs (x_run ls) !! t = Some C -> cfgs (p2_step (x_run ls) (LRec (CtlProp (t', i)) n o)) !! t = Some C' ->
  live (view overlay C') = live (view overlay C).
Proof. exact other_target_keeps_run. Qed.

Theorem C01_committed_value_persists :
  forall (ls : list Label) (l : Label) t (C C' : Cfg) p e,
  labels_wfb (ls ++ [l]) = true -> completes p2_init (ls ++ [l]) ->
  cfgs (x_run ls) !! t = Some C -> cfgs (p2_step (x_run ls) l) !! t = Some C' ->
  P2Pure.lookup p (c_values C) = Some e -> pv_deleted e = false ->
  P2Pure.lookup p (c_values C') = Some e \/
  exists i n o (P : Prop2), l = LRec (CtlProp (t, i)) n o /\ props (x_run ls) !! (t, i) = Some P /\
    p_commit P = Some Doing /\ p_apply P = None /\ p_abort P = None /\ c_committed C = p_prev P /\
    touches (rb_change [] P) p.
Proof. exact live_value_persists_run. Qed.

Theorem C01_all_or_none_values_partial :
  forall ls : list Label,
  labels_wfb ls = true -> completes p2_init ls -> (forall c o, fst (p2_reconcile o (x_run ls) c) = []) ->
  committed_means_merged ls ->
  forall i (T : Txn), txs (x_run ls) !! i = Some T ->
    (forall t, In t (default [] (t_props T)) ->
       exists (P : Prop2) (C : Cfg), props (x_run ls) !! (t, i) = Some P /\ p_commit P = Some Done /\ cfgs (x_run ls) !! t = Some C /\
         forall c p u, p_details P = PChange c -> In (p, u) c -> pv_deleted u = false ->
           In (p, pv_val u) (live (view overlay C)) \/
           exists ls1 ls2 n o, ls = ls1 ++ LRec (CtlProp (t, i)) n o :: ls2 /\
                               touched_in (x_run (ls1 ++ [LRec (CtlProp (t, i)) n o])) ls2 t p) \/
    ((forall t P, props (x_run ls) !! (t, i) = Some P -> p_commit P = None) /\
     forall ls1 ls2 t n o t' (C C' : Cfg), ls = ls1 ++ LRec (CtlProp (t, i)) n o :: ls2 ->
       cfgs (x_run ls1) !! t' = Some C -> cfgs (p2_step (x_run ls1) (LRec (CtlProp (t, i)) n o)) !! t' = Some C' ->
       live (view overlay C') = live (view overlay C)).
Proof. exact all_or_none_values_partial. Qed.
Print Assumptions C01_commit_contains_change.
Print Assumptions C01_untouched_targets_keep_values.
Print Assumptions C01_other_target_keeps.
Print Assumptions C01_committed_value_persists.
Print Assumptions C01_all_or_none_values_partial.

(* the premise [committed_means_merged] discharged (Proofs/P2PureAtomicMerged.v): in a run of complete invocations every
   commit step finds Committed.Index = PrevIndex, so every COMMITTED proposal was merged *)
From OC Require Import Proofs.P2PureAtomicMerged.
Theorem C01_all_or_none_values :
  forall ls : list Label,
  labels_wfb ls = true -> completes p2_init ls -> (forall c o, fst (p2_reconcile o (x_run ls) c) = []) ->
  forall i (T : Txn), txs (x_run ls) !! i = Some T ->
    (forall t, In t (default [] (t_props T)) ->
       exists (P : Prop2) (C : Cfg), props (x_run ls) !! (t, i) = Some P /\ p_commit P = Some Done /\ cfgs (x_run ls) !! t = Some C /\
         forall c p u, p_details P = PChange c -> In (p, u) c -> pv_deleted u = false ->
           In (p, pv_val u) (live (view overlay C)) \/
           exists ls1 ls2 n o, ls = ls1 ++ LRec (CtlProp (t, i)) n o :: ls2 /\
                               touched_in (x_run (ls1 ++ [LRec (CtlProp (t, i)) n o])) ls2 t p) \/
    ((forall t P, props (x_run ls) !! (t, i) = Some P -> p_commit P = None) /\
     forall ls1 ls2 t n o t' (C C' : Cfg), ls = ls1 ++ LRec (CtlProp (t, i)) n o :: ls2 ->
       cfgs (x_run ls1) !! t' = Some C -> cfgs (p2_step (x_run ls1) (LRec (CtlProp (t, i)) n o)) !! t' = Some C' ->
       live (view overlay C') = live (view overlay C)).
Proof. exact all_or_none_values. Qed.
Print Assumptions C01_all_or_none_values.

(* deletions persist (Proofs/P2PureAtomicDeleted.v): after the commit step of a Change that deletes path d, at the end
   of every continuation of well-formed labels and complete invocations nothing is live at d or beneath d in what Get
   returns for the target, UNLESS a later commit step of a proposal of the same target (a Change, or a Rollback whose
   values are p_rbvalues) merged values holding a non-deleted value at d or beneath d; that step is exhibited as a
   position of the continuation.  (A commit step adds to the live view only paths of non-deleted values of what it
   merges: commit_adds.) *)
From OC Require Import Proofs.P2PureAtomicDeleted.
Theorem C01_deleted_path_stays_deleted :
  forall (ls1 ls2 : list Label) t i n (o : oracle) (P : Prop2) (C : Cfg) c d u,
  labels_wfb (ls1 ++ LRec (CtlProp (t, i)) n o :: ls2) = true ->
  completes p2_init (ls1 ++ LRec (CtlProp (t, i)) n o :: ls2) ->
  props (x_run ls1) !! (t, i) = Some P -> p_details P = PChange c -> cfgs (x_run ls1) !! t = Some C ->
  p_commit P = Some Doing -> p_apply P = None -> p_abort P = None -> c_committed C = p_prev P ->
  In (d, u) c -> pv_deleted u = true ->
  (exists C' : Cfg, cfgs (x_run (ls1 ++ LRec (CtlProp (t, i)) n o :: ls2)) !! t = Some C' /\
                    forall k x, In (k, x) (live (view overlay C')) -> k <> d /\ ~ Below k d) \/
  (exists ls2a ls2b j n' o' (Q : Prop2),
     ls2 = ls2a ++ LRec (CtlProp (t, j)) n' o' :: ls2b /\
     props (fold_left p2_step ls2a (x_run (ls1 ++ [LRec (CtlProp (t, i)) n o]))) !! (t, j) = Some Q /\
     p_commit Q = Some Doing /\
     exists k v, In (k, v) (rb_change [] Q) /\ pv_deleted v = false /\ (k = d \/ Below k d)).
Proof. exact deleted_path_stays_deleted_run. Qed.
Print Assumptions C01_deleted_path_stays_deleted.

(* C01 - A multi-target Set is committed on all of its targets or on none.
   Statements only.  Model: Model/Proto2.v (the v2 transaction / proposal / configuration / mastership /
   connection reconcilers, one invocation = an ordered effect list, a step executes any PREFIX of it, so every
   theorem below quantifies over all change sets, all verdicts and device answers (oracle), all interleavings of
   whole and partial reconcile invocations, and every crash point between two persisted effects).
   The theorems hold for EVERY pure layer (how values are merged is a parameter of the model). *)
From stdpp Require Import gmap.
From Coq Require Import NArith.
From OC Require Import Model.Proto2 Proofs.P2Base Proofs.P2Phases.
Open Scope N_scope.

Section C01.
  Context {V Ch Req D : Type}.
  Context (candidate : V -> Ch -> V) (candidate_rb : V -> Ch -> V) (rollback_of : V -> Ch -> Ch)
          (overlay : V -> V -> V) (commit_merge : N -> N -> V -> V -> Ch -> V)
          (payload : N -> V -> Ch -> option Req) (record_applied : N -> V -> V -> V -> Ch -> V)
          (touched : N -> V -> Ch -> V) (restore : V -> V -> V)
          (resync_payload : V -> list (option Req)) (doc_ok : V -> bool)
          (dev_apply : D -> Req -> D) (stamp : N -> Ch -> Ch) (v_empty : V) (d_empty : D) (ch_empty : Ch).
  Notation reach := (@reach V Ch Req D candidate candidate_rb rollback_of overlay commit_merge payload record_applied
                            touched restore resync_payload doc_ok dev_apply stamp v_empty d_empty ch_empty).

  (* in every reachable world no transaction has one proposal in its Commit phase and another in its Abort phase *)
  Theorem C01_no_mixed : forall (w : @world V Ch Req D) i t t' (P Q : @prop Ch),
    reach w -> props w !! (t, i) = Some P -> props w !! (t', i) = Some Q ->
    ~ (is_Some (p_commit P) /\ is_Some (p_abort Q)).
  Proof. exact (no_mixed_commit_abort candidate candidate_rb rollback_of overlay commit_merge payload record_applied touched restore
                  resync_payload doc_ok dev_apply stamp v_empty d_empty ch_empty). Qed.
End C01.
Print Assumptions C01_no_mixed.

(* C10 - Only the current master writes, in its term, after re-synchronising.
   Statements only.  Model: Model/Proto2.v (see Properties/C02.v for what a step is); all theorems quantify over all
   sequences of connection loss / re-establishment (LConnUp / LConnDown), device restarts, foreign relations, all
   interleavings and crash prefixes of the connection, mastership, configuration and proposal reconcilers, and hold for
   EVERY pure layer.  [term_of w t] / [master_of w t] are Status.Mastership.Term / Master of the configuration of t
   (0 / None when there is none); [run_from w ls] executes the labels ls from w.

   How the theorems decide the property:
   * "at most one master at a time": the master is ONE optional field of the configuration record (C10_single_master is
     immediate from the record type); C10_election_id shows every write goes over exactly that connection.
   * "the term never decreases; a new term begins whenever mastership is assigned again": C10_mastership_step (in ANY
     step either nothing changes, or the master resigns to None in the same term, or a master is elected in term+1 among
     the live CONTROLS relations of this node to the target, the previous master's relation being gone), its summary
     C10_term_monotone, C10_term_monotone_run, and over any run C10_new_term_after_reassign / C10_new_term_after_loss /
     C10_new_term_after_resign: whenever the target ends up with a master different from the one it started with (in
     particular after the master relation was lost), the term is strictly larger.
   * "every write carries the current term as election id over the master's connection": C10_election_id (term and
     master of the configuration snapshot read by the sending invocation; the relation is owned by this node and its
     connection is live in the world the step starts from).
   * "no new change in a term before the applied configuration was re-sent in that term": C10_applied_term_le_term,
     C10_no_change_before_resync (a proposal change is sent only outside SYNCHRONIZING with applied term = term; a
     re-push only in SYNCHRONIZING), C10_aterm_moves_by_sync (the applied term is raised only by the configuration
     reconciler, to the current term, for a non-persistent target only from SYNCHRONIZING) and C10_resync_completes
     (when that reconciler writes the entry for a non-persistent target with Applied.Index <> 0, its effect list is:
     every request of the re-push, each answered OK, then the status write; a step executes a prefix, so the entry
     write implies the whole re-push was delivered in that invocation) and its step-level form C10_resync_step (the step
     that raises the applied term appends exactly the complete re-push, all answered OK, to the device log).
   Not covered / stated behaviour: (1) a PERSISTENT target gets applied term := term without any re-push
   (C10_aterm_moves_by_sync, first alternative), and with Applied.Index = 0 nothing is re-pushed; (2) the model lets a
   connection id be reused (LConnUp with an old id): the relation then reappears and the old master is valid again in
   the SAME term - real connection ids are fresh UUIDs (pkg/southbound/gnmi/conn.go newConnID), so this is an
   over-approximation of the model, not a behaviour of the code; the run theorems therefore speak about the master
   field changing; (3) the target component of the master relation is not checked by the senders (rels w !! m = Some
   (_, true)), exactly as in the code; (4) several onos-config replicas are represented only by foreign relations.
   Examples that the hypotheses are satisfiable on the executable instance: Proofs/P2_CursorEx.v. *)
From stdpp Require Import gmap.
From RecordUpdate Require Import RecordUpdate.
From Coq Require Import NArith.
From OC Require Import Model.Proto2 Proofs.P2Base Proofs.P2Phases Proofs.P2_Cursor Proofs.P2_CursorInv Proofs.P2_Term.
Open Scope N_scope.

Section C10.
  Context {V Ch Req D : Type}.
  Context (candidate : V -> Ch -> V) (candidate_rb : V -> Ch -> V) (rollback_of : V -> Ch -> Ch)
          (overlay : V -> V -> V) (commit_merge : N -> N -> V -> V -> Ch -> V)
          (payload : N -> V -> Ch -> option Req) (record_applied : N -> N -> V -> V -> V -> Ch -> V)
          (touched : N -> V -> Ch -> V) (restore : V -> V -> V)
          (resync_payload : V -> list (option Req)) (doc_ok : V -> bool)
          (dev_apply : D -> Req -> D) (stamp : N -> Ch -> Ch) (v_empty : V) (d_empty : D) (ch_empty : Ch).
  Notation world := (@world V Ch Req D).
  Notation prop := (@prop Ch).
  Notation config := (@config V).
  Notation step := (@step V Ch Req D candidate candidate_rb rollback_of overlay commit_merge payload record_applied
                          touched restore resync_payload doc_ok dev_apply stamp v_empty d_empty ch_empty).
  Notation reach := (@reach V Ch Req D candidate candidate_rb rollback_of overlay commit_merge payload record_applied
                            touched restore resync_payload doc_ok dev_apply stamp v_empty d_empty ch_empty).
  Notation view := (@view V overlay).
  Notation aview := (@aview V overlay).
  Notation dev_answer := (@dev_answer V Ch Req D d_empty).
  Notation rb_change := (@rb_change Ch ch_empty).
  (* a proved lemma instantiated with the pure layer of this section *)
  Local Notation "'inst' f" := (f candidate candidate_rb rollback_of overlay commit_merge payload record_applied touched restore
                                  resync_payload doc_ok dev_apply stamp v_empty d_empty ch_empty) (at level 10, f at level 9).
  Notation rec_cfg := (@rec_cfg V Ch Req D overlay restore resync_payload v_empty d_empty).
  Notation upd_status := (@upd_status V Ch Req overlay restore v_empty).
  Notation term_of := (@term_of V Ch Req D).
  Notation master_of := (@master_of V Ch Req D).
  Notation run_from := (inst (@run_from V Ch Req D)).

  Theorem C10_mastership_step : forall (w : world) l t,
    (master_of (step w l) t = master_of w t /\ term_of (step w l) t = term_of w t) \/
    (master_of (step w l) t = None /\ master_of w t <> None /\ term_of (step w l) t = term_of w t /\
     exists k o, l = LRec (CtlMaster t) k o) \/
    (exists m, master_of (step w l) t = Some m /\ term_of (step w l) t = term_of w t + 1 /\ rels w !! m = Some (t, true) /\
               (forall m0, master_of w t = Some m0 -> rels w !! m0 <> Some (t, true)) /\
               exists k o, l = LRec (CtlMaster t) k o).
  Proof. exact (inst mastership_step). Qed.

  Theorem C10_term_monotone : forall (w : world) l t,
    term_of w t <= term_of (step w l) t /\
    (forall m, master_of (step w l) t = Some m -> master_of (step w l) t <> master_of w t -> term_of (step w l) t = term_of w t + 1) /\
    (master_of (step w l) t = None -> term_of (step w l) t = term_of w t).
  Proof. exact (inst term_monotone_step). Qed.

  Theorem C10_single_master : forall (w : world) t (C : config) m m',
    cfgs w !! t = Some C -> c_master C = Some m -> c_master C = Some m' -> m = m'.
  Proof. exact (@single_master V Ch Req D). Qed.

  Theorem C10_term_monotone_run : forall ls (w : world) t, term_of w t <= term_of (run_from w ls) t.
  Proof. exact (inst term_monotone_run). Qed.

  Theorem C10_new_term_after_reassign : forall ls (w : world) t m,
    master_of (run_from w ls) t = Some m -> master_of (run_from w ls) t <> master_of w t ->
    term_of w t < term_of (run_from w ls) t.
  Proof. exact (inst new_term_after_reassign). Qed.

  Theorem C10_new_term_after_loss : forall ls (w : world) t m0 m,
    master_of w t = Some m0 -> rels w !! m0 <> Some (t, true) ->
    master_of (run_from w ls) t = Some m -> m <> m0 ->
    term_of w t < term_of (run_from w ls) t.
  Proof. exact (inst new_term_after_loss). Qed.

  Theorem C10_new_term_after_resign : forall ls (w : world) t m,
    master_of w t = None -> master_of (run_from w ls) t = Some m -> term_of w t < term_of (run_from w ls) t.
  Proof. exact (inst new_term_after_resign). Qed.

  Theorem C10_applied_term_le_term : forall (w : world) t (C : config),
    reach w -> cfgs w !! t = Some C -> c_aterm C <= c_term C.
  Proof. exact (inst aterm_le_term). Qed.

  Theorem C10_election_id : forall (w : world) l evs t m term og r a,
    devlog (step w l) = devlog w ++ evs -> In (DevSet t m term og r a) evs ->
    exists C : config, cfgs w !! t = Some C /\ term = c_term C /\ c_master C = Some m /\
              (exists tt, rels w !! m = Some (tt, true)) /\ is_Some (conns w !! m).
  Proof. exact (inst election_id). Qed.

  Theorem C10_no_change_before_resync : forall (w : world) l evs t m term og r a,
    reach w -> devlog (step w l) = devlog w ++ evs -> In (DevSet t m term og r a) evs ->
    exists C : config, cfgs w !! t = Some C /\
      match og with
      | Some i => c_state C <> CSynchronizing /\ c_aterm C = c_term C /\ exists k o, l = LRec (CtlProp (t, i)) k o
      | None => c_state C = CSynchronizing /\ exists k o, l = LRec (CtlCfg t) k o
      end.
  Proof. exact (inst no_change_before_resync). Qed.

  Theorem C10_aterm_moves_by_sync : forall (w : world) l t (C C' : config),
    cfgs w !! t = Some C -> cfgs (step w l) !! t = Some C' -> c_aterm C' <> c_aterm C ->
    c_aterm C' = c_term C /\ c_term C' = c_term C /\ (exists k o, l = LRec (CtlCfg t) k o) /\
    (targets w !! t = Some true \/
     (targets w !! t = Some false /\ c_state C = CSynchronizing /\ c_state C' = CSynchronized /\ is_Some (c_master C))).
  Proof. exact (inst aterm_moves_by_sync). Qed.

  Theorem C10_resync_completes : forall (o : oracle) (w : world) t (C c : config),
    cfgs w !! t = Some C -> targets w !! t = Some false -> c_state C = CSynchronizing -> c_applied C <> 0 ->
    In (EPutCfg t c) (fst (rec_cfg o w t)) ->
    exists m rs, c_master C = Some m /\ resync_payload (aview C) = map Some rs /\
      fst (rec_cfg o w t) =
        map (fun r => EDev (DevSet t m (c_term C) None r COk)) rs ++
        upd_status t C (C <| c_state := CSynchronized |> <| c_amaster := c_master C |> <| c_aterm := c_term C |>) /\
      c_aterm c = c_term C /\ c_state c = CSynchronized.
  Proof. exact (resync_completes overlay restore resync_payload v_empty d_empty). Qed.

  (* step level: the step that raises the applied term of a non-persistent target with something applied appends the
     COMPLETE re-push to the device log - every request in the current term, over the master's connection, answered OK *)
  Theorem C10_resync_step : forall (w : world) l t (C C' : config),
    cfgs w !! t = Some C -> targets w !! t = Some false -> c_applied C <> 0 ->
    cfgs (step w l) !! t = Some C' -> c_aterm C' <> c_aterm C ->
    exists m rs, c_master C = Some m /\ resync_payload (aview C) = map Some rs /\
      devlog (step w l) = devlog w ++ map (fun r => DevSet t m (c_term C) None r COk) rs.
  Proof. exact (inst resync_step). Qed.
End C10.
Print Assumptions C10_mastership_step.
Print Assumptions C10_term_monotone.
Print Assumptions C10_single_master.
Print Assumptions C10_term_monotone_run.
Print Assumptions C10_new_term_after_reassign.
Print Assumptions C10_new_term_after_loss.
Print Assumptions C10_new_term_after_resign.
Print Assumptions C10_applied_term_le_term.
Print Assumptions C10_election_id.
Print Assumptions C10_no_change_before_resync.
Print Assumptions C10_aterm_moves_by_sync.
Print Assumptions C10_resync_completes.
Print Assumptions C10_resync_step.

(* C11 - A device refusing a change fails that change only, and only real refusals.
   Statements only; proofs in Proofs/P2_Failure.v (and Proofs/P2_Crash.v for the refutation).  Model: Model/Proto2.v, the
   apply branch of the proposal reconciler (rec_prop), the transaction reconciler (rec_tx), [classify (observed a)] = the
   switch of reconcileApply on the code of the error returned by the southbound client.  Every theorem holds for EVERY
   pure layer (Section Context), every world (no reachability needed: these are single-invocation facts), every oracle.
   [sendable w t i P C m req] = every guard of reconcileApply before the SetRequest is passed (proposal APPLYING, applied
   index below i, predecessor applied, configuration not SYNCHRONIZING and in the current term, this node master with a
   connection, request buildable).
   How the theorems decide the property:
   * "only real refusals": C11_classes_* is the complete table (Unavailable/Canceled/DeadlineExceeded retried,
     PermissionDenied waited out, every other code fails the change with the listed failure type; codes FromGRPC does
     not know arrive as Unknown).  C11_transient_keeps_pending: after a transient answer nothing is stored, the
     proposal is still APPLYING and still sendable; C11_pending_applies_when_ok_*: the same invocation then applies it.
     A PermissionDenied caused by a superseded mastership term keeps being answered until the term changes
     (dev_answer); the statement is therefore "once the device answers OK".
   * "fails that change, device left as it was": C11_real_refusal (the four effects, in order), C11_real_refusal_world
     (proposal FAILED with the class and the term, applied index = i, committed values/index untouched, devices
     unchanged), C11_refused_device_unchanged, C11_transaction_reports_class(_single).
   * "others proceed": C11_successor_not_blocked (the successor never takes the wait-for-predecessor exit),
     C11_successor_sendable (it is sendable as soon as its own request can be built), C11_other_targets_unaffected
     (frame: every prefix of an invocation for (t,i) leaves every other target's proposals, configurations, devices and
     all transactions untouched; C11_effects_on_own_target is the per-effect form).
   Interrupted refusals (finding F-17, repaired in /repo and in the model: the failure is written on the proposal BEFORE
   the applied index moves; before the repair an invocation cut between the two writes was re-run as "already applied"
   and the transaction ended APPLIED on a device that had refused): C11_refusal_survives_interruption (wherever the
   refusing invocation stops after the proposal write, the proposal is FAILED with the class, the devices are
   untouched and the re-run only completes the move of the applied index), C11_failed_is_final (the reconciler of a
   FAILED proposal never writes the proposal again), C11_refusal_interrupted_regression (the former witness on
   Model/P2Inst.v, all cut points, now ends FAILED).
   Partial: the northbound status mapping (set.go) is C08's; reach-level "in order" needs the cursor invariants
   (other builder).  ValidateCapabilities (Capabilities RPC before the Set) is not in the model. *)
From stdpp Require Import gmap.
From RecordUpdate Require Import RecordUpdate.
From Coq Require Import NArith.
From OC Require Import Base.Bytes Model.P2Pure Model.Proto2 Model.P2Inst Proofs.P2Base Proofs.P2Phases Proofs.P2_Failure Proofs.P2_Crash Proofs.P2_Rollback.
From OC Require Proofs.P2_ClassifyGen.
Open Scope N_scope.

Section C11.
  Context {V Ch Req D : Type}.
  Context (candidate : V -> Ch -> V) (candidate_rb : V -> Ch -> V) (rollback_of : V -> Ch -> Ch)
          (overlay : V -> V -> V) (commit_merge : N -> N -> V -> V -> Ch -> V)
          (payload : N -> V -> Ch -> option Req) (record_applied : N -> N -> V -> V -> V -> Ch -> V)
          (touched : N -> V -> Ch -> V) (restore : V -> V -> V)
          (resync_payload : V -> list (option Req)) (doc_ok : V -> bool)
          (dev_apply : D -> Req -> D) (stamp : N -> Ch -> Ch) (v_empty : V) (d_empty : D) (ch_empty : Ch).
  Notation world := (@world V Ch Req D).
  Notation apply_eff := (@apply_eff V Ch Req D dev_apply d_empty).
  Notation rec_tx := (@rec_tx V Ch Req D stamp).
  Notation rec_prop := (@rec_prop V Ch Req D candidate candidate_rb rollback_of overlay commit_merge payload record_applied
                                  touched restore doc_ok v_empty d_empty ch_empty).
  Notation reconcile := (@reconcile V Ch Req D candidate candidate_rb rollback_of overlay commit_merge payload record_applied
                                    touched restore resync_payload doc_ok stamp v_empty d_empty ch_empty).
  Notation step := (@step V Ch Req D candidate candidate_rb rollback_of overlay commit_merge payload record_applied
                          touched restore resync_payload doc_ok dev_apply stamp v_empty d_empty ch_empty).
  Notation reach := (@reach V Ch Req D candidate candidate_rb rollback_of overlay commit_merge payload record_applied
                            touched restore resync_payload doc_ok dev_apply stamp v_empty d_empty ch_empty).
  Notation dev_answer := (@dev_answer V Ch Req D d_empty).
  Notation dev_of := (@dev_of V Ch Req D d_empty).
  Notation view := (@view V overlay).
  Notation aview := (@aview V overlay).
  Notation rb_change := (@rb_change Ch ch_empty).
  Notation sendable := (@sendable V Ch Req D overlay payload ch_empty).
  Notation merge_rerun_stable := (@merge_rerun_stable V Ch overlay commit_merge).

  (* the table: retried codes *)
  Theorem C11_classes_retry :
    ∀ c : code,
    classify (observed c) = ClsRetry ↔ c = CUnavailable ∨ c = CCanceled ∨ c = CDeadlineExceeded.
  Proof. exact (classes_retry). Qed.

  (* the table: the waited-out code *)
  Theorem C11_classes_wait :
    ∀ c : code, classify (observed c) = ClsWait ↔ c = CPermissionDenied.
  Proof. exact (classes_wait). Qed.

  (* the table: every other error code fails the change, with the failure type of [fail_table] *)
  Theorem C11_classes_fail :
    ∀ (c : code) (f : ftype), c ≠ COk → classify (observed c) = ClsFail f ↔ fail_table c = Some f.
  Proof. exact (classes_fail). Qed.

  (* four arms of the inner switch can never be taken *)
  Theorem C11_classes_dead_arms :
    ∀ (c : code) (f : ftype),
    classify (observed c) = ClsFail f → f ≠ FCanceled ∧ f ≠ FForbidden ∧ f ≠ FUnavailable ∧ f ≠ FTimeout.
  Proof. exact (classes_dead_arms). Qed.

  (* the table is the source's: [classify] agrees, code by code, with the switch of reconcileApply as tools/translate
     reads it from /repo on every run (Gen/Tables.v apply_code_class / apply_failure_of_code) *)
  Theorem C11_classes_are_the_source_switch :
    ∀ c : code, c ≠ COk → P2_ClassifyGen.model_class c = P2_ClassifyGen.source_class c.
  Proof. exact (P2_ClassifyGen.classify_is_the_source_switch). Qed.

  (* a transient answer: the invocation is exactly the device request *)
  Theorem C11_transient_effects :
    ∀ (o : oracle) (w : world) (t i : N) (P : prop) (C : config) (m : N) (req : Req),
    sendable w t i P C m req
    → transient (dev_answer w t (c_term C) o)
    → rec_prop o w (t, i) =
    ([EDev (DevSet t m (c_term C) (Some i) req (dev_answer w t (c_term C) o))],
    if bool_decide (dev_answer w t (c_term C) o = CPermissionDenied) then RDone else RRetry).
  Proof. exact (@transient_effects V Ch Req D candidate candidate_rb rollback_of overlay commit_merge payload record_applied touched restore doc_ok v_empty d_empty ch_empty). Qed.

  (* ... after any prefix of it every store and every device is unchanged and the proposal is still sendable *)
  Theorem C11_transient_keeps_pending :
    ∀ (o : oracle) (w : world) (t i : N) (P : prop) (C : config) (m : N) (req : Req) (k : nat),
    sendable w t i P C m req
    → transient (dev_answer w t (c_term C) o)
    → let w' := step w (LRec (CtlProp (t, i)) k o) in
    txs w' = txs w
    ∧ props w' = props w
    ∧ cfgs w' = cfgs w
    ∧ devs w' = devs w
    ∧ targets w' = targets w
    ∧ rels w' = rels w ∧ conns w' = conns w ∧ sendable w' t i P C m req.
  Proof. exact (@transient_world V Ch Req D candidate candidate_rb rollback_of overlay commit_merge payload record_applied touched restore resync_payload doc_ok dev_apply stamp v_empty d_empty ch_empty). Qed.

  (* the same invocation, answered OK: request, applied values, applied index, proposal APPLIED *)
  Theorem C11_pending_applies_when_ok_effects :
    ∀ (o : oracle) (w : world) (t i : N) (P : prop) (C : config) (m : N) (req : Req),
    sendable w t i P C m req
    → dev_answer w t (c_term C) o = COk
    → rec_prop o w (t, i) =
    ([EDev (DevSet t m (c_term C) (Some i) req COk);
    EPutAValues t (record_applied (o_order o) i (c_avalues C) (aview C) (view C) (rb_change P));
    EPutCfg t
    (C <| c_applied := i |> <| c_inline := touched i (view C) (rb_change P) |> <| c_ainline :=
    v_empty |>); EPutProp (t, i) (P <| p_apply := Some Done |> <| p_term := c_term C |>)],
    requeue_next t P).
  Proof. exact (@ok_effects V Ch Req D candidate candidate_rb rollback_of overlay commit_merge payload record_applied touched restore doc_ok v_empty d_empty ch_empty). Qed.

  (* ... and the resulting world *)
  Theorem C11_pending_applies_when_ok_world :
    ∀ (o : oracle) (w : world) (t i : N) (P : prop) (C : config) (m : N) (req : Req) (k : nat),
    sendable w t i P C m req
    → dev_answer w t (c_term C) o = COk
    → (4 <= k)%nat
    → let w' := step w (LRec (CtlProp (t, i)) k o) in
    (∃ P' : prop, props w' !! (t, i) = Some P' ∧ p_apply P' = Some Done ∧ p_afail P' = p_afail P)
    ∧ (∃ C' : config, cfgs w' !! t = Some C' ∧ c_applied C' = i)
    ∧ devs w' !! t =
    Some
    {|
    d_state := dev_apply (d_state (dev_of w t)) req;
    d_max := d_max (dev_of w t) `max` c_term C
    |}.
  Proof. exact (@ok_world V Ch Req D candidate candidate_rb rollback_of overlay commit_merge payload record_applied touched restore resync_payload doc_ok dev_apply stamp v_empty d_empty ch_empty). Qed.

  (* a real refusal: request, re-store of the applied values, applied index := i, proposal FAILED with class and term *)
  Theorem C11_real_refusal :
    ∀ (o : oracle) (w : world) (t i : N) (P : prop) (C : config) (m : N) (req : Req) (f : ftype),
    sendable w t i P C m req
    → dev_answer w t (c_term C) o ≠ COk
    → classify (observed (dev_answer w t (c_term C) o)) = ClsFail f
    → rec_prop o w (t, i) =
    ([EDev (DevSet t m (c_term C) (Some i) req (dev_answer w t (c_term C) o));
    EPutProp (t, i)
    (P <| p_apply := Some Failed |> <| p_afail := Some f |> <| p_term := c_term C |>);
    EPutAValues t (restore (c_avalues C) (aview C));
    EPutCfg t
    (C <| c_applied := i |> <| c_inline := touched i (view C) (rb_change P) |> <| c_ainline :=
    v_empty |>)], requeue_next t P).
  Proof. exact (@refusal_effects V Ch Req D candidate candidate_rb rollback_of overlay commit_merge payload record_applied touched restore doc_ok v_empty d_empty ch_empty). Qed.

  (* ... and the resulting world: devices and committed configuration as they were *)
  Theorem C11_real_refusal_world :
    ∀ (o : oracle) (w : world) (t i : N) (P : prop) (C : config) (m : N) (req : Req) (f : ftype) (k : nat),
    sendable w t i P C m req
    → dev_answer w t (c_term C) o ≠ COk
    → classify (observed (dev_answer w t (c_term C) o)) = ClsFail f
    → (4 <= k)%nat
    → let w' := step w (LRec (CtlProp (t, i)) k o) in
    (∃ P' : prop,
    props w' !! (t, i) = Some P'
    ∧ p_apply P' = Some Failed ∧ p_afail P' = Some f ∧ p_term P' = c_term C)
    ∧ (∃ C' : config,
    cfgs w' !! t = Some C'
    ∧ c_applied C' = i
    ∧ c_committed C' = c_committed C ∧ c_index C' = c_index C ∧ c_values C' = c_values C)
    ∧ devs w' = devs w ∧ txs w' = txs w.
  Proof. exact (@refusal_world V Ch Req D candidate candidate_rb rollback_of overlay commit_merge payload record_applied touched restore resync_payload doc_ok dev_apply stamp v_empty d_empty ch_empty). Qed.

  (* a device event not answered OK changes no device *)
  Theorem C11_refused_device_unchanged :
    ∀ (w : world) (t c term : N) (o : option N) (r : Req) (a : code),
    a ≠ COk → devs (apply_eff w (EDev (DevSet t c term o r a))) = devs w.
  Proof. exact (@refused_leaves_devices V Ch Req D dev_apply d_empty). Qed.

  (* the transaction reconciler writes FAILED with the failure of the first failed proposal *)
  Theorem C11_transaction_reports_class :
    ∀ (w : world) (i : N) (T : txn) (tg : list N),
    txs w !! i = Some T
    → t_apply T = Some Doing
    → t_props T = Some tg
    → (∀ t : N, In t tg → ∃ p : prop, props w !! (t, i) = Some p ∧ is_Some (p_apply p))
    → (∃ (t : N) (p : prop), In t tg ∧ props w !! (t, i) = Some p ∧ p_apply p = Some Failed)
    → ∃ (t : N) (p : prop),
    In t tg
    ∧ props w !! (t, i) = Some p
    ∧ p_apply p = Some Failed
    ∧ rec_tx w i =
    ([EPutTx i
    (T <| t_state := TFailed |> <| t_failure := p_afail p |> <| t_apply :=
    Some Failed |>)], RDone).
  Proof. exact (@tx_reports_failure V Ch Req D stamp). Qed.

  (* single target: exactly the recorded class *)
  Theorem C11_transaction_reports_class_single :
    ∀ (w : world) (i : N) (T : txn) (t : N) (P : prop) (f : ftype),
    txs w !! i = Some T
    → t_apply T = Some Doing
    → t_props T = Some [t]
    → props w !! (t, i) = Some P
    → p_apply P = Some Failed
    → p_afail P = Some f
    → rec_tx w i =
    ([EPutTx i
    (T <| t_state := TFailed |> <| t_failure := Some f |> <| t_apply := Some Failed |>)],
    RDone).
  Proof. exact (@tx_reports_failure_single V Ch Req D stamp). Qed.

  (* applied index = successor's PrevIndex: the successor does not wait for its predecessor *)
  Theorem C11_successor_not_blocked :
    ∀ (o : oracle) (w : world) (t j : N) (Q : prop) (C : config),
    props w !! (t, j) = Some Q
    → p_apply Q = Some Doing
    → cfgs w !! t = Some C
    → c_applied C = p_prev Q → rec_prop o w (t, j) ≠ ([], RRequeueProp (t, p_prev Q)).
  Proof. exact (@successor_gate_open V Ch Req D candidate candidate_rb rollback_of overlay commit_merge payload record_applied touched restore doc_ok v_empty d_empty ch_empty). Qed.

  (* after the refusal the APPLYING successor is sendable once its request can be built *)
  Theorem C11_successor_sendable :
    ∀ (o : oracle) (w : world) (t i : N) (P : prop) (C : config) (m : N) (req : Req) 
    (f : ftype) (k : nat) (j : N) (Q : prop) (req' : Req),
    sendable w t i P C m req
    → dev_answer w t (c_term C) o ≠ COk
    → classify (observed (dev_answer w t (c_term C) o)) = ClsFail f
    → (4 <= k)%nat
    → let w' := step w (LRec (CtlProp (t, i)) k o) in
    let C' :=
    C <| c_applied := i |> <| c_inline := touched i (view C) (rb_change P) |> <| c_ainline :=
    v_empty |> <| c_avalues := restore (c_avalues C) (aview C) |> in
    props w' !! (t, j) = Some Q
    → p_apply Q = Some Doing
    → p_prev Q = i
    → i < j → payload j (view C') (rb_change Q) = Some req' → sendable w' t j Q C' m req'.
  Proof. exact (@successor_sendable V Ch Req D candidate candidate_rb rollback_of overlay commit_merge payload record_applied touched restore resync_payload doc_ok dev_apply stamp v_empty d_empty ch_empty). Qed.

  (* every effect of rec_prop (t,i) is a write on target t *)
  Theorem C11_effects_on_own_target :
    ∀ (o : oracle) (w : world) (t i : N), Forall (on_target t) (rec_prop o w (t, i)).1.
  Proof. exact (@rec_prop_on_target V Ch Req D candidate candidate_rb rollback_of overlay commit_merge payload record_applied touched restore doc_ok v_empty d_empty ch_empty). Qed.

  (* frame: other targets and all transactions untouched by any prefix *)
  Theorem C11_other_targets_unaffected :
    ∀ (o : oracle) (w : world) (t i : N) (k : nat),
    same_elsewhere t w (step w (LRec (CtlProp (t, i)) k o)).
  Proof. exact (@rec_prop_frame V Ch Req D candidate candidate_rb rollback_of overlay commit_merge payload record_applied touched restore resync_payload doc_ok dev_apply stamp v_empty d_empty ch_empty). Qed.

  (* a refusing invocation cut after the proposal write: FAILED stays, devices untouched, the re-run finishes the index move *)
  Theorem C11_refusal_survives_interruption :
    ∀ (o o' : oracle) (w : world) (t i : N) (P : prop) (C : config) (m : N) (req : Req) 
    (f : ftype) (k : nat),
    sendable w t i P C m req
    → dev_answer w t (c_term C) o ≠ COk
    → classify (observed (dev_answer w t (c_term C) o)) = ClsFail f
    → (2 <= k)%nat
    → let wk := step w (LRec (CtlProp (t, i)) k o) in
    let P' := P <| p_apply := Some Failed |> <| p_afail := Some f |> <| p_term := c_term C |> in
    props wk !! (t, i) = Some P'
    ∧ devs wk = devs w
    ∧ (∃ Ck : config,
    cfgs wk !! t = Some Ck
    ∧ (c_applied Ck = c_applied C ∨ c_applied Ck = i)
    ∧ c_committed Ck = c_committed C
    ∧ c_values Ck = c_values C
    ∧ rec_prop o' wk (t, i) =
    (if c_applied Ck <? i
    then
    [EPutAValues t (restore (c_avalues Ck) (aview Ck));
    EPutCfg t
    (Ck <| c_applied := i |> <| c_inline := view Ck |> <| c_ainline :=
    v_empty |>)]
    else [], requeue_next t P)
    ∧ (∃ C' : config,
    cfgs (step wk (LRec (CtlProp (t, i)) 2 o')) !! t = Some C'
    ∧ c_applied C' = i
    ∧ c_committed C' = c_committed C ∧ c_values C' = c_values C)
    ∧ props (step wk (LRec (CtlProp (t, i)) 2 o')) !! (t, i) = Some P').
  Proof. exact (@refused_apply_resume V Ch Req D candidate candidate_rb rollback_of overlay commit_merge payload record_applied touched restore resync_payload doc_ok dev_apply stamp v_empty d_empty ch_empty). Qed.

  (* a FAILED proposal is never rewritten by its reconciler; it only lets the applied index pass *)
  Theorem C11_failed_is_final :
    ∀ (o : oracle) (w : world) (t i : N) (P : prop) (C : config),
    props w !! (t, i) = Some P
    → p_apply P = Some Failed
    → cfgs w !! t = Some C
    → rec_prop o w (t, i) =
    (if c_applied C <? i
    then
    [EPutAValues t (restore (c_avalues C) (aview C));
    EPutCfg t (C <| c_applied := i |> <| c_inline := view C |> <| c_ainline := v_empty |>)]
    else [], requeue_next t P).
  Proof. exact (@failed_pass V Ch Req D candidate candidate_rb rollback_of overlay commit_merge payload record_applied touched restore doc_ok v_empty d_empty ch_empty). Qed.

End C11.

(* the former F-17 witness on Model/P2Inst.v: every cut point k = 0..5 ends FAILED/INVALID, applied index 1, device untouched *)
Theorem C11_refusal_interrupted_regression :
  forallb (λ k : nat, y_failed_well (y_refused k)) [0%nat; 1%nat; 2%nat; 3%nat; 4%nat; 5%nat] = true
  ∧ forallb (λ k : nat, y_failed_well (y_refused_then_ok k)) [2%nat; 3%nat; 4%nat] = true.
Proof. exact refused_apply_crash_regression. Qed.

Print Assumptions C11_classes_retry.
Print Assumptions C11_classes_wait.
Print Assumptions C11_classes_fail.
Print Assumptions C11_classes_dead_arms.
Print Assumptions C11_classes_are_the_source_switch.
Print Assumptions C11_transient_effects.
Print Assumptions C11_transient_keeps_pending.
Print Assumptions C11_pending_applies_when_ok_effects.
Print Assumptions C11_pending_applies_when_ok_world.
Print Assumptions C11_real_refusal.
Print Assumptions C11_real_refusal_world.
Print Assumptions C11_refused_device_unchanged.
Print Assumptions C11_transaction_reports_class.
Print Assumptions C11_transaction_reports_class_single.
Print Assumptions C11_successor_not_blocked.
Print Assumptions C11_successor_sendable.
Print Assumptions C11_effects_on_own_target.
Print Assumptions C11_other_targets_unaffected.
Print Assumptions C11_refusal_survives_interruption.
Print Assumptions C11_failed_is_final.
Print Assumptions C11_refusal_interrupted_regression.

(* C02 - Changes reach a target's config and device in transaction-log order.
   Statements only.  Model: Model/Proto2.v (branch-for-branch transcription of the v2 transaction / proposal /
   configuration / mastership / connection reconcilers; one invocation = an ordered effect list, a step executes any
   PREFIX of it), so every theorem quantifies over all change sets, all oracles (plugin verdicts, device answers, Go map
   orders), all interleavings of whole and partial reconcile invocations and every crash point between two persisted
   effects; they hold for EVERY pure layer (the Section Context).  [committed_of w t] / [applied_of w t] are
   Committed.Index / Applied.Index of the configuration of target t in world w (0 when there is no configuration).

   How the theorems decide the property:
   * "merged in increasing log-index order": C02_committed_moves_by_successor - in ANY step from ANY world, Committed.Index
     of a target changes only by the proposal reconciler of a proposal (t,i) in its Commit (or Abort) phase, from exactly
     that proposal's PrevIndex to its index i; C02_links_ordered - PrevIndex < i < NextIndex in every reachable world;
     hence C02_cursors_monotone - Committed.Index and Applied.Index never decrease along any run.
   * "sent to the device in that same order, never before every earlier transaction on the target finished applying":
     C02_applied_moves_by_successor (Applied.Index moves only to i, by proposal (t,i): applying from PrevIndex,
     aborting from PrevIndex, or - Apply phase FAILED - passing a failure already recorded, from a smaller value; that
     this smaller value is again PrevIndex needs the chain invariant, see PARTIAL) and C02_sent_in_order - a request for proposal (t,i) is appended to the device log only by the
     reconcileApply of (t,i), in its Apply phase, when Applied.Index < i and Applied.Index = its PrevIndex (or it has no
     predecessor), outside SYNCHRONIZING, with applied term >= term, over the master's live connection.  Re-sends of
     the same proposal (retry after a transient error or a crash before the status write) satisfy the same guard.
   * "never sent a change that has not been merged": C02_sent_only_after_commit_phase (full: the sender's Commit phase is
     done and it is not aborting; uses the phase-order invariant of Proofs/P2_Order.v) and
     C02_never_sent_before_merged_partial (Committed.Index >= i).
   PARTIAL: C02_never_sent_before_merged_partial and C02_applied_le_committed_partial assume the named predicate
     [commit_guard] in every reachable world (a proposal in Commit-Doing sees Committed.Index = PrevIndex or >= its
     index).  reconcileCommit marks a proposal COMMITTED WITHOUT merging whenever Committed.Index <> PrevIndex, so the
     guard is exactly what makes that branch harmless; from it the proofs derive "Commit done => merged" (the merge
     effects precede the status write in the effect list) and Applied.Index <= Committed.Index.  Missing lemma: the chain
     invariant - the initialised proposals of a target form ONE PrevIndex/NextIndex chain (no two share a PrevIndex;
     PrevIndex = 0 only for the first), whose proof needs "at most one transaction links proposals at a time" (the
     creation guard is stated by rec_tx_createprop in Proofs/P2_Cursor.v); not finished.  For the same reason
     Committed.Index <= Proposed.Index and "PrevIndex = 0 only for the first proposal" (which would remove the
     "or PrevIndex = 0" alternatives below) are not proved; the p2 monitors check them at run time.
   Examples that the hypotheses are satisfiable on the executable instance: Proofs/P2_CursorEx.v. *)
From stdpp Require Import gmap.
From Coq Require Import NArith.
From OC Require Import Model.Proto2 Proofs.P2Base Proofs.P2Phases Proofs.P2_Cursor Proofs.P2_CursorInv Proofs.P2_CursorChain.
Open Scope N_scope.

Section C02.
  Context {V Ch Req D : Type}.
  Context (candidate : V -> Ch -> V) (candidate_rb : V -> Ch -> V) (rollback_of : V -> Ch -> Ch)
          (overlay : V -> V -> V) (commit_merge : N -> N -> V -> V -> Ch -> V)
          (payload : N -> V -> Ch -> option Req) (record_applied : N -> V -> V -> V -> Ch -> V)
          (touched : N -> V -> Ch -> V) (restore : V -> V -> V)
          (resync_payload : V -> list (option Req)) (doc_ok : V -> bool)
          (dev_apply : D -> Req -> D) (stamp : N -> Ch -> Ch) (v_empty : V) (d_empty : D) (ch_empty : Ch).
  Notation world := (@world V Ch Req D).
  Notation prop := (@prop Ch).
  Notation config := (@config V).
  Notation step := (@step V Ch Req D candidate candidate_rb rollback_of overlay commit_merge payload record_applied
                          touched restore resync_payload doc_ok dev_apply stamp v_empty d_empty ch_empty).
  Notation reach := (@reach V Ch Req D candidate candidate_rb rollback_of overlay commit_merge payload record_applied
                            touched restore resync_payload doc_ok dev_apply stamp v_empty d_empty ch_empty).
  Notation view := (@view V overlay).
  Notation aview := (@aview V overlay).
  Notation dev_answer := (@dev_answer V Ch Req D d_empty).
  Notation rb_change := (@rb_change Ch ch_empty).
  (* a proved lemma instantiated with the pure layer of this section *)
  Local Notation "'inst' f" := (f candidate candidate_rb rollback_of overlay commit_merge payload record_applied touched restore
                                  resync_payload doc_ok dev_apply stamp v_empty d_empty ch_empty) (at level 10, f at level 9).

  (* ANY step: Committed.Index of target t changes only by the reconciler of a proposal (t,i) that is in its Commit
     phase (Doing) or Abort phase (Doing), from that proposal's PrevIndex to its index *)
  Theorem C02_committed_moves_by_successor : forall (w : world) l t,
    committed_of (step w l) t <> committed_of w t ->
    exists i k o (P : prop), l = LRec (CtlProp (t, i)) k o /\ props w !! (t, i) = Some P /\
      committed_of (step w l) t = i /\ committed_of w t = p_prev P /\
      p_apply P = None /\ ((p_abort P = None /\ p_commit P = Some Doing) \/ p_abort P = Some Doing).
  Proof. exact (inst committed_moves_by_successor). Qed.

  (* ANY step: Applied.Index of target t changes only by the reconciler of a proposal (t,i), to i: either in its Apply
     phase Doing, from a smaller value that is its PrevIndex (or it has no predecessor), or with its Apply phase FAILED
     (passFailedProposal: the failure was recorded first, the index passes it afterwards) from a smaller value, or in
     its Abort phase from PrevIndex *)
  Theorem C02_applied_moves_by_successor : forall (w : world) l t,
    applied_of (step w l) t <> applied_of w t ->
    exists i k o (P : prop), l = LRec (CtlProp (t, i)) k o /\ props w !! (t, i) = Some P /\
      applied_of (step w l) t = i /\
      ((p_apply P = Some Doing /\ applied_of w t < i /\ (p_prev P = 0 \/ applied_of w t = p_prev P)) \/
       (p_apply P = Some Failed /\ applied_of w t < i) \/
       (p_apply P = None /\ p_abort P = Some Doing /\ applied_of w t = p_prev P)).
  Proof. exact (inst applied_moves_by_successor). Qed.

  (* ANY step: a request whose origin is proposal (t,i) is appended to the device log only by reconcileApply of (t,i) *)
  Theorem C02_sent_in_order : forall (w : world) l evs t m term i r a,
    devlog (step w l) = devlog w ++ evs -> In (DevSet t m term (Some i) r a) evs ->
    exists k o, l = LRec (CtlProp (t, i)) k o /\
    exists (C : config) (P : prop), cfgs w !! t = Some C /\ props w !! (t, i) = Some P /\
      term = c_term C /\ c_master C = Some m /\ (exists tt, rels w !! m = Some (tt, true)) /\ is_Some (conns w !! m) /\
      a = dev_answer w t (c_term C) o /\
      p_apply P = Some Doing /\ c_applied C < i /\ (p_prev P = 0 \/ c_applied C = p_prev P) /\
      c_state C <> CSynchronizing /\ c_term C <= c_aterm C /\ is_Some (targets w !! t) /\
      payload i (view C) (rb_change P) = Some r.
  Proof. exact (inst sent_in_order). Qed.

  (* every reachable world: PrevIndex < index < NextIndex (0 = no link) *)
  Theorem C02_links_ordered : forall (w : world) t i (P : prop),
    reach w -> props w !! (t, i) = Some P -> (p_prev P = 0 \/ p_prev P < i) /\ (p_next P = 0 \/ i < p_next P).
  Proof. exact (inst links_ordered). Qed.

  (* along any run the Committed and Applied indexes of a target never decrease *)
  Theorem C02_cursors_monotone : forall (w : world) l t,
    reach w -> committed_of w t <= committed_of (step w l) t /\ applied_of w t <= applied_of (step w l) t.
  Proof. exact (inst cursors_monotone). Qed.

  (* only a proposal whose Commit phase is done (and which is not aborting) sends its change to the device *)
  Theorem C02_sent_only_after_commit_phase : forall (w : world) l evs t m term i r a,
    reach w -> devlog (step w l) = devlog w ++ evs -> In (DevSet t m term (Some i) r a) evs ->
    exists (P : prop) (C : config), props w !! (t, i) = Some P /\ cfgs w !! t = Some C /\
      p_apply P = Some Doing /\ p_commit P = Some Done /\ p_abort P = None.
  Proof. exact (inst sent_only_after_commit_phase). Qed.

  (* PARTIAL (see the header).  [commit_guard w] (Proofs/P2_CursorChain.v) says: for every proposal (t,i) of w that is
     in Commit-Doing (no Abort, no Apply phase) and every configuration C of t, Committed.Index C = PrevIndex or
     i <= Committed.Index C.  If it holds in every reachable world, the change sent has been merged ... *)
  Theorem C02_never_sent_before_merged_partial : forall (w : world) l evs t m term i r a,
    (forall w' : world, reach w' -> commit_guard w') -> reach w ->
    devlog (step w l) = devlog w ++ evs -> In (DevSet t m term (Some i) r a) evs ->
    exists (P : prop) (C : config), props w !! (t, i) = Some P /\ cfgs w !! t = Some C /\
      p_commit P = Some Done /\ i <= c_committed C.
  Proof. exact (inst never_sent_before_merged_partial_guard). Qed.

  (* ... and Applied.Index never passes Committed.Index *)
  Theorem C02_applied_le_committed_partial :
    (forall w' : world, reach w' -> commit_guard w') ->
    forall (w : world) t (C : config), reach w -> cfgs w !! t = Some C -> c_applied C <= c_committed C.
  Proof. exact (inst applied_le_committed_of_guard). Qed.

  (* per-world form: it is enough that every proposal of THIS world whose Commit phase is done has been merged *)
  Theorem C02_never_sent_before_merged_partial_world : forall (w : world) l evs t m term i r a,
    reach w ->
    (forall t i (P : prop) (C : config), props w !! (t, i) = Some P -> cfgs w !! t = Some C ->
       p_commit P = Some Done -> i <= c_committed C) ->
    devlog (step w l) = devlog w ++ evs -> In (DevSet t m term (Some i) r a) evs ->
    exists (P : prop) (C : config), props w !! (t, i) = Some P /\ cfgs w !! t = Some C /\
      p_commit P = Some Done /\ i <= c_committed C.
  Proof. exact (inst never_sent_before_merged_partial). Qed.
End C02.
Print Assumptions C02_committed_moves_by_successor.
Print Assumptions C02_applied_moves_by_successor.
Print Assumptions C02_sent_in_order.
Print Assumptions C02_links_ordered.
Print Assumptions C02_cursors_monotone.
Print Assumptions C02_sent_only_after_commit_phase.
Print Assumptions C02_never_sent_before_merged_partial.
Print Assumptions C02_applied_le_committed_partial.
Print Assumptions C02_never_sent_before_merged_partial_world.

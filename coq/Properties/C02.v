(* C02 - Changes reach a target's config and device in transaction-log order.
   Statements only.  Model: Model/Proto2.v (branch-for-branch transcription of the v2 transaction / proposal /
   configuration / mastership / connection reconcilers; one invocation = an ordered effect list, a step executes any
   PREFIX of it), so every theorem quantifies over all change sets, all oracles (plugin verdicts, device answers, Go map
   orders), all interleavings of whole and partial reconcile invocations and every crash point between two persisted
   effects; they hold for EVERY pure layer (the Section Context).  [committed_of w t] / [applied_of w t] are
   Committed.Index / Applied.Index of the configuration of target t in world w (0 when there is no configuration).

   How the theorems decide the property:
   * "merged in increasing log-index order": C02_committed_moves_by_successor - in ANY step from ANY world, Committed.Index
     of a target changes only by the proposal reconciler of a proposal (t,i) in its Commit (or Abort) phase, from exactly
     that proposal's PrevIndex to its index i; C02_links_ordered - PrevIndex < i < NextIndex in every reachable world;
     hence C02_cursors_monotone - Committed.Index and Applied.Index never decrease along any run.
   * "sent to the device in that same order, never before every earlier transaction on the target finished applying":
     C02_applied_moves_by_successor (from ANY world Applied.Index moves only to i, by proposal (t,i): applying from
     PrevIndex, aborting from PrevIndex, or - Apply phase FAILED - passing a failure already recorded, from a smaller
     value; in reachable worlds that value is again PrevIndex, C02_applied_moves_from_prev) and C02_sent_in_order - a
     request for proposal (t,i) is appended to the device log only by the reconcileApply of (t,i), in its Apply phase, when Applied.Index < i and Applied.Index = its PrevIndex (or it has no
     predecessor), outside SYNCHRONIZING, with applied term >= term, over the master's live connection.  Re-sends of
     the same proposal (retry after a transient error or a crash before the status write) satisfy the same guard.
   * "never sent a change that has not been merged": C02_never_sent_before_merged - full strength, every reachable
     world: the sender's Commit phase is done, it is not aborting, and Committed.Index >= its index.  reconcileCommit marks
     a proposal COMMITTED WITHOUT merging whenever Committed.Index <> PrevIndex; that branch is harmless because of the
     chain invariant proved in Proofs/P2_CursorLink.v / P2_CursorChainInv.v / P2_CursorGuard.v and stated here:
     C02_open_is_last (transactions initialise in index order, so of two proposals of a target the older is INITIALIZED:
     at most one proposal per target is linking, and it is the last), C02_unique_prev (no two INITIALIZED proposals of a
     target share a PrevIndex), C02_commit_guard (a proposal in Commit-Doing sees Committed.Index = its PrevIndex or its
     own index already merged), C02_cursors_ordered (Applied.Index <= Committed.Index <= Proposed.Index).
   * with the chain invariant the single-step facts sharpen: C02_sent_from_prev (a change is sent when Applied.Index is
     EXACTLY the PrevIndex of its proposal) and C02_applied_moves_from_prev (Applied.Index moves from exactly PrevIndex,
     also when it passes a recorded apply failure).
   Nothing is partial.  Not covered by these theorems: the order in which the configuration controller re-pushes the
   applied values after a mastership change (a Go map order; property C10 covers when it happens, C03/C05 its content).
   Examples that the hypotheses are satisfiable on the executable instance: Proofs/P2_CursorEx.v. *)
From stdpp Require Import gmap.
From Coq Require Import NArith.
From OC Require Import Model.Proto2 Proofs.P2Base Proofs.P2Phases Proofs.P2_Cursor Proofs.P2_CursorInv Proofs.P2_CursorChain
     Proofs.P2_CursorLink Proofs.P2_CursorChainInv Proofs.P2_CursorGuard.
Open Scope N_scope.

Section C02.
  Context {V Ch Req D : Type}.
  Context (candidate : V -> Ch -> V) (candidate_rb : V -> Ch -> V) (rollback_of : V -> Ch -> Ch)
          (overlay : V -> V -> V) (commit_merge : N -> N -> V -> V -> Ch -> V)
          (payload : N -> V -> Ch -> option Req) (record_applied : N -> N -> V -> V -> V -> Ch -> V)
          (touched : N -> V -> Ch -> V) (restore : V -> V -> V)
          (resync_payload : V -> list (option Req)) (doc_ok : V -> bool)
          (dev_apply : D -> Req -> D) (stamp : N -> Ch -> Ch) (v_empty : V) (d_empty : D) (ch_empty : Ch).
  Notation world := (@world V Ch Req D).
  Notation prop := (@prop Ch).
  Notation config := (@config V).
  Notation step := (@step V Ch Req D candidate candidate_rb rollback_of overlay commit_merge payload record_applied
                          touched restore resync_payload doc_ok dev_apply stamp v_empty d_empty ch_empty).
  Notation reach := (@reach V Ch Req D candidate candidate_rb rollback_of overlay commit_merge payload record_applied
                            touched restore resync_payload doc_ok dev_apply stamp v_empty d_empty ch_empty).
  Notation view := (@view V overlay).
  Notation aview := (@aview V overlay).
  Notation dev_answer := (@dev_answer V Ch Req D d_empty).
  Notation rb_change := (@rb_change Ch ch_empty).
  (* a proved lemma instantiated with the pure layer of this section *)
  Local Notation "'inst' f" := (f candidate candidate_rb rollback_of overlay commit_merge payload record_applied touched restore
                                  resync_payload doc_ok dev_apply stamp v_empty d_empty ch_empty) (at level 10, f at level 9).

  (* ANY step: Committed.Index of target t changes only by the reconciler of a proposal (t,i) that is in its Commit
     phase (Doing) or Abort phase (Doing), from that proposal's PrevIndex to its index *)
  Theorem C02_committed_moves_by_successor : forall (w : world) l t,
    committed_of (step w l) t <> committed_of w t ->
    exists i k o (P : prop), l = LRec (CtlProp (t, i)) k o /\ props w !! (t, i) = Some P /\
      committed_of (step w l) t = i /\ committed_of w t = p_prev P /\
      p_apply P = None /\ ((p_abort P = None /\ p_commit P = Some Doing) \/ p_abort P = Some Doing).
  Proof. exact (inst committed_moves_by_successor). Qed.

  (* ANY step: Applied.Index of target t changes only by the reconciler of a proposal (t,i), to i: either in its Apply
     phase Doing, from a smaller value that is its PrevIndex (or it has no predecessor), or with its Apply phase FAILED
     (passFailedProposal: the failure was recorded first, the index passes it afterwards) from a smaller value, or in
     its Abort phase from PrevIndex *)
  Theorem C02_applied_moves_by_successor : forall (w : world) l t,
    applied_of (step w l) t <> applied_of w t ->
    exists i k o (P : prop), l = LRec (CtlProp (t, i)) k o /\ props w !! (t, i) = Some P /\
      applied_of (step w l) t = i /\
      ((p_apply P = Some Doing /\ applied_of w t < i /\ (p_prev P = 0 \/ applied_of w t = p_prev P)) \/
       (p_apply P = Some Failed /\ applied_of w t < i) \/
       (p_apply P = None /\ p_abort P = Some Doing /\ applied_of w t = p_prev P)).
  Proof. exact (inst applied_moves_by_successor). Qed.

  (* ANY step: a request whose origin is proposal (t,i) is appended to the device log only by reconcileApply of (t,i) *)
  Theorem C02_sent_in_order : forall (w : world) l evs t m term i r a,
    devlog (step w l) = devlog w ++ evs -> In (DevSet t m term (Some i) r a) evs ->
    exists k o, l = LRec (CtlProp (t, i)) k o /\
    exists (C : config) (P : prop), cfgs w !! t = Some C /\ props w !! (t, i) = Some P /\
      term = c_term C /\ c_master C = Some m /\ (exists tt, rels w !! m = Some (tt, true)) /\ is_Some (conns w !! m) /\
      a = dev_answer w t (c_term C) o /\
      p_apply P = Some Doing /\ c_applied C < i /\ (p_prev P = 0 \/ c_applied C = p_prev P) /\
      c_state C <> CSynchronizing /\ c_term C <= c_aterm C /\ is_Some (targets w !! t) /\
      payload i (view C) (rb_change P) = Some r.
  Proof. exact (inst sent_in_order). Qed.

  (* every reachable world: PrevIndex < index < NextIndex (0 = no link) *)
  Theorem C02_links_ordered : forall (w : world) t i (P : prop),
    reach w -> props w !! (t, i) = Some P -> (p_prev P = 0 \/ p_prev P < i) /\ (p_next P = 0 \/ i < p_next P).
  Proof. exact (inst links_ordered). Qed.

  (* along any run the Committed and Applied indexes of a target never decrease *)
  Theorem C02_cursors_monotone : forall (w : world) l t,
    reach w -> committed_of w t <= committed_of (step w l) t /\ applied_of w t <= applied_of (step w l) t.
  Proof. exact (inst cursors_monotone). Qed.

  (* only a proposal whose Commit phase is done (and which is not aborting) sends its change to the device *)
  Theorem C02_sent_only_after_commit_phase : forall (w : world) l evs t m term i r a,
    reach w -> devlog (step w l) = devlog w ++ evs -> In (DevSet t m term (Some i) r a) evs ->
    exists (P : prop) (C : config), props w !! (t, i) = Some P /\ cfgs w !! t = Some C /\
      p_apply P = Some Doing /\ p_commit P = Some Done /\ p_abort P = None.
  Proof. exact (inst sent_only_after_commit_phase). Qed.

  (* the device is never sent a change that has not been merged into the stored configuration *)
  Theorem C02_never_sent_before_merged : forall (w : world) l evs t m term i r a,
    reach w -> devlog (step w l) = devlog w ++ evs -> In (DevSet t m term (Some i) r a) evs ->
    exists (P : prop) (C : config), props w !! (t, i) = Some P /\ cfgs w !! t = Some C /\
      p_commit P = Some Done /\ i <= c_committed C.
  Proof. exact (inst never_sent_before_merged). Qed.

  (* a change is sent when Applied.Index is EXACTLY the PrevIndex of its proposal *)
  Theorem C02_sent_from_prev : forall (w : world) l evs t m term i r a,
    reach w -> devlog (step w l) = devlog w ++ evs -> In (DevSet t m term (Some i) r a) evs ->
    exists (P : prop) (C : config), props w !! (t, i) = Some P /\ cfgs w !! t = Some C /\
      p_apply P = Some Doing /\ c_applied C = p_prev P /\ c_applied C < i.
  Proof. exact (inst sent_from_prev). Qed.

  (* from a reachable world Applied.Index moves from exactly the PrevIndex of the moving proposal to its index *)
  Theorem C02_applied_moves_from_prev : forall (w : world) l t,
    reach w -> applied_of (step w l) t <> applied_of w t ->
    exists i k o (P : prop), l = LRec (CtlProp (t, i)) k o /\ props w !! (t, i) = Some P /\
      applied_of (step w l) t = i /\ applied_of w t = p_prev P /\ applied_of w t < i /\
      (p_apply P = Some Doing \/ p_apply P = Some Failed \/ (p_apply P = None /\ p_abort P = Some Doing)).
  Proof. exact (inst applied_moves_from_prev). Qed.

  (* the chain invariant, as far as the property needs it *)
  Theorem C02_open_is_last : forall (w : world) t i j (P Q : prop),
    reach w -> props w !! (t, i) = Some P -> props w !! (t, j) = Some Q -> i < j -> p_init P = Some Done.
  Proof. exact (inst open_is_last). Qed.

  Theorem C02_unique_prev : forall (w : world) t i j (P Q : prop),
    reach w -> props w !! (t, i) = Some P -> props w !! (t, j) = Some Q ->
    p_init P = Some Done -> p_init Q = Some Done -> p_prev P = p_prev Q -> i = j.
  Proof. exact (inst unique_prev). Qed.

  Theorem C02_commit_guard : forall (w : world) t i (P : prop) (C : config),
    reach w -> props w !! (t, i) = Some P -> cfgs w !! t = Some C ->
    p_commit P = Some Doing -> p_abort P = None -> p_apply P = None ->
    c_committed C = p_prev P \/ i <= c_committed C.
  Proof. exact (fun w t i P C Hr => inst commit_guard_reach w Hr t i P C). Qed.

  Theorem C02_cursors_ordered : forall (w : world) t (C : config),
    reach w -> cfgs w !! t = Some C -> c_applied C <= c_committed C /\ c_committed C <= c_proposed C.
  Proof. exact (inst cursors_ordered). Qed.
End C02.
Print Assumptions C02_committed_moves_by_successor.
Print Assumptions C02_applied_moves_by_successor.
Print Assumptions C02_sent_in_order.
Print Assumptions C02_links_ordered.
Print Assumptions C02_cursors_monotone.
Print Assumptions C02_sent_only_after_commit_phase.
Print Assumptions C02_never_sent_before_merged.
Print Assumptions C02_sent_from_prev.
Print Assumptions C02_applied_moves_from_prev.
Print Assumptions C02_open_is_last.
Print Assumptions C02_unique_prev.
Print Assumptions C02_commit_guard.
Print Assumptions C02_cursors_ordered.

(* C06 - Rolling back the latest change restores exactly the previous state.
   PROTOCOL part (Section C06; proofs in Proofs/P2_Rollback.v; model Model/Proto2.v: reconcileValidate /
   reconcileCommit of the proposal reconciler, reconcileInitialize / reconcileValidate of the transaction reconciler):
   the pure layer is a parameter and every theorem holds for EVERY pure layer, every world, every oracle.
   VALUE part (after the section; proofs in Proofs/P2PureRollback*.v; the concrete pure layer Model/P2Pure.v):
   "restores exactly" - the commit of the rollback values recorded at validation undoes the commit of the change.
   [validating w t i P C] = the proposal is VALIDATING and its predecessor is committed; [initializing w i T] = the
   transaction is INITIALIZING, has no proposal list and is not held back by transaction i-1; [refused t i P f] = the
   single effect "proposal Validate FAILED with failure f"; [init_failed i T f] = the single effect "transaction
   FAILED with f, Initialize FAILED, Abort started".
   How the theorems decide the property:
   * refused: C06_refused_not_latest (RollbackIndex <> configuration index -> FORBIDDEN), C06_refused_missing (no
     proposal at that index -> NOT_FOUND), C06_refused_rollback_of_rollback (-> FORBIDDEN); at transaction level
     C06_tx_refused_missing (NOT_FOUND in Initialize), C06_tx_refused_rollback_of_rollback (FORBIDDEN).  The two
     proposal-level cases (b), (c) are defensive: in reachable worlds the transaction-level check fires first
     (Examples z_missing_hyps / z_rb_of_rb_hyps use constructed worlds, all others reachable ones).
   * "alters nothing": each refusal is ONE effect on the proposal / transaction record; C06_refusal_fails_transaction
     (a proposal that failed validation fails its transaction, which enters Abort); C06_values_written_only_by_commit
     (an invocation that writes a committed path-value map is the commit branch of a proposal reconciler) and
     C06_values_written_only_by_committing_tx (in every REACHABLE world that proposal's transaction has a Commit phase
     and no Abort phase - from the phase invariant J, i.e. C01), hence C06_refused_alters_nothing: no invocation, no
     prefix, on ANY target of a transaction that has an Abort phase writes stored values (the other targets of a
     multi-target rollback abort too).
   * "uses the recorded values": C06_change_records_rollback_values (what a change records at validation),
     C06_rollback_uses_recorded_values (a validated rollback proposal carries exactly RollbackIndex and
     RollbackValues of the proposal it rolls back), C06_rollback_commit_replays (its commit merges exactly those
     values and sets the configuration index to the recorded index; the resulting configuration).
   * "restores exactly" (value level, UNBOUNDED: all stored maps, views, changes, all iteration orders ord1 / ord2 of
     AddDeleteChildren's and reconcileCommit's loops, all orders of reconcileValidate's loop = the list order of ch):
     C06_rollback_restores_values: rb = rollback_of vw ch recorded on the view vw of the stored map m, the change
     committed (m1 = commit_merge ord1 i m vw ch), then the rollback values committed (m2 = commit_merge ord2 j m1
     (overlay [] m1) rb) => live (overlay [] m2) = live vw (and live m2 = live vw): Get shows exactly the values it
     showed before the change - overwritten values, values deleted together with everything beneath them, and no path
     that did not exist before.  C06_rollback_restores_values_any_view: the same for ANY loaded views vw1, vw2 of m1,
     m2 (same Go map, any list order).  Premise [rollback_wf i j m vw ch] (boolean, Proofs/P2PureRollbackBool.v):
     keys unique; key = path of the value, never "" or "/"; vw is the same Go map as m (what Get loads when the
     entry's inline copy is covered by the stored map); no LIVE value beneath a tombstone in vw; no update of ch
     beneath a delete of ch (the excluded overlap is the open finding F-14); no update of ch has a live value of vw
     beneath it (values live at leaves); ch is stamped with its transaction index i, stored indexes are < i,
     0 < i < j.  Satisfiable: Example ex_wf (overwrite, delete of a list entry with leaves, new value beneath a
     tombstone, leaf delete, new path, delete beneath a tombstone, delete of a tombstone, an inline copy); each of
     clean / no-delete-above-update / updates-are-leaves is NEEDED (Examples clean_needed,
     no_delete_above_update_needed, leaves_needed: the statement fails without it for some order).  Preserved:
     C06_rollback_wf_preserved (the change's commit gives a well-formed stored map with nothing at all beneath a
     tombstone and indexes < j; its empty-inline view is the same map), C06_rollback_wf_preserved_by_rollback (so
     does the rollback's commit).
   * the candidate the model plugin validates for the rollback: C06_rollback_restores_values_candidate -
     live (candidate_rb (overlay [] m1) (permute ord rb)) = live vw under the same rollback_wf, for every Go map order
     ord in which reconcileValidate applies the rollback values (and C06_rollback_restores_values_candidate_any_view:
     any loaded view of m1, any list order of rb): the verdict is taken on exactly the configuration the rollback
     restores.  This is the REPAIRED code (/repo 3342112: the rollback values are applied with applyChangeToConfig).
     Before it they overwrote the loaded values, the tombstone of a deleted container still covered the restored
     subtree and the plugin was shown the configuration without it - finding F-24, found by this proof (the statement
     was refuted for stored {/a/c=1}, change = delete of /a), reproduced on the real reconcilers, fixed; the old
     function and witness are kept as the regression Example candidate_regression_F24 (Proofs/P2PureRollbackEx.v).
   PARTIAL / missing at protocol level: the protocol theorems are single-invocation facts.  The reach-level statement
   "whenever a rollback proposal is VALIDATED its recorded values equal those the change recorded when IT was
   validated" additionally needs: the configuration index is only ever the index of a proposal that has finished
   validation (so the source fields are frozen when they are copied).  That follows from the cursor / chain invariants
   (Committed.Index moves only by a proposal's commit, commit only after VALIDATED) of the other builder's P2_Cursor*
   files and is not proved here.  The value-level theorems are about the pure functions; that the view loaded at
   commit time is the one loaded at validation time, and that the entry's inline copy is covered by the stored map
   (hypothesis sameb vw m), are protocol facts not proved here. *)
From stdpp Require Import gmap.
From RecordUpdate Require Import RecordUpdate.
From Coq Require Import NArith.
From OC Require Import Base.Bytes Model.P2Pure Model.Proto2 Model.P2Inst Proofs.P2Base Proofs.P2Phases Proofs.P2_Failure Proofs.P2_Crash Proofs.P2_Rollback Proofs.P2_RollbackFrozen.
From OC Require Import Proofs.P2PureRollbackBool Proofs.P2PureRollbackEx.
Open Scope N_scope.

Section C06.
  Context {V Ch Req D : Type}.
  Context (candidate : V -> Ch -> V) (candidate_rb : V -> Ch -> V) (rollback_of : V -> Ch -> Ch)
          (overlay : V -> V -> V) (commit_merge : N -> N -> V -> V -> Ch -> V)
          (payload : N -> V -> Ch -> option Req) (record_applied : N -> N -> V -> V -> V -> Ch -> V)
          (touched : N -> V -> Ch -> V) (restore : V -> V -> V)
          (resync_payload : V -> list (option Req)) (doc_ok : V -> bool)
          (dev_apply : D -> Req -> D) (stamp : N -> Ch -> Ch) (v_empty : V) (d_empty : D) (ch_empty : Ch).
  Notation world := (@world V Ch Req D).
  Notation apply_eff := (@apply_eff V Ch Req D dev_apply d_empty).
  Notation rec_tx := (@rec_tx V Ch Req D stamp).
  Notation rec_prop := (@rec_prop V Ch Req D candidate candidate_rb rollback_of overlay commit_merge payload record_applied
                                  touched restore doc_ok v_empty d_empty ch_empty).
  Notation reconcile := (@reconcile V Ch Req D candidate candidate_rb rollback_of overlay commit_merge payload record_applied
                                    touched restore resync_payload doc_ok stamp v_empty d_empty ch_empty).
  Notation step := (@step V Ch Req D candidate candidate_rb rollback_of overlay commit_merge payload record_applied
                          touched restore resync_payload doc_ok dev_apply stamp v_empty d_empty ch_empty).
  Notation reach := (@reach V Ch Req D candidate candidate_rb rollback_of overlay commit_merge payload record_applied
                            touched restore resync_payload doc_ok dev_apply stamp v_empty d_empty ch_empty).
  Notation dev_answer := (@dev_answer V Ch Req D d_empty).
  Notation dev_of := (@dev_of V Ch Req D d_empty).
  Notation view := (@view V overlay).
  Notation aview := (@aview V overlay).
  Notation rb_change := (@rb_change Ch ch_empty).
  Notation sendable := (@sendable V Ch Req D overlay payload ch_empty).
  Notation merge_rerun_stable := (@merge_rerun_stable V Ch overlay commit_merge).

  (* (a) not the change the configuration reflects *)
  Theorem C06_refused_not_latest :
    ∀ (o : oracle) (w : world) (t i : N) (P : prop) (C : config) (ri : N),
    validating w t i P C
    → o_plugin o = true
    → p_details P = PRollback ri → c_index C ≠ ri → rec_prop o w (t, i) = refused t i P FForbidden.
  Proof. exact (@rollback_not_latest V Ch Req D candidate candidate_rb rollback_of overlay commit_merge payload record_applied touched restore doc_ok v_empty d_empty ch_empty). Qed.

  (* (b) no proposal at that index *)
  Theorem C06_refused_missing :
    ∀ (o : oracle) (w : world) (t i : N) (P : prop) (C : config) (ri : N),
    validating w t i P C
    → o_plugin o = true
    → p_details P = PRollback ri
    → c_index C = ri → props w !! (t, ri) = None → rec_prop o w (t, i) = refused t i P FNotFound.
  Proof. exact (@rollback_missing V Ch Req D candidate candidate_rb rollback_of overlay commit_merge payload record_applied touched restore doc_ok v_empty d_empty ch_empty). Qed.

  (* (c) the proposal at that index is a rollback *)
  Theorem C06_refused_rollback_of_rollback :
    ∀ (o : oracle) (w : world) (t i : N) (P : prop) (C : config) (ri : N) (Q : prop) (rj : N),
    validating w t i P C
    → o_plugin o = true
    → p_details P = PRollback ri
    → c_index C = ri
    → props w !! (t, ri) = Some Q
    → p_details Q = PRollback rj → rec_prop o w (t, i) = refused t i P FForbidden.
  Proof. exact (@rollback_of_rollback V Ch Req D candidate candidate_rb rollback_of overlay commit_merge payload record_applied touched restore doc_ok v_empty d_empty ch_empty). Qed.

  (* transaction level: the index does not exist *)
  Theorem C06_tx_refused_missing :
    ∀ (w : world) (i : N) (T : txn) (ri : N),
    initializing w i T
    → t_details T = TRollback ri → txs w !! ri = None → rec_tx w i = init_failed i T FNotFound.
  Proof. exact (@tx_rollback_missing V Ch Req D stamp). Qed.

  (* transaction level: the index is a rollback *)
  Theorem C06_tx_refused_rollback_of_rollback :
    ∀ (w : world) (i : N) (T : txn) (ri : N) (R : txn) (rj : N),
    initializing w i T
    → t_details T = TRollback ri
    → txs w !! ri = Some R → t_details R = TRollback rj → rec_tx w i = init_failed i T FForbidden.
  Proof. exact (@tx_rollback_of_rollback V Ch Req D stamp). Qed.

  (* a failed validation fails the transaction and starts its Abort *)
  Theorem C06_refusal_fails_transaction :
    ∀ (w : world) (i : N) (T : txn) (tg : list N),
    txs w !! i = Some T
    → t_apply T = None
    → t_abort T = None
    → t_commit T = None
    → t_validate T = Some Doing
    → t_props T = Some tg
    → (∀ t : N, In t tg → ∃ p : prop, props w !! (t, i) = Some p ∧ is_Some (p_validate p))
    → (∃ (t : N) (p : prop),
    In t tg ∧ props w !! (t, i) = Some p ∧ p_validate p = Some Failed)
    → ∃ (t : N) (p : prop),
    In t tg
    ∧ props w !! (t, i) = Some p
    ∧ p_validate p = Some Failed
    ∧ rec_tx w i =
    ([EPutTx i
    (T <| t_state := TFailed |> <| t_failure := p_vfail p |> <| t_abort :=
    Some Doing |> <| t_validate := Some Failed |>)], RDone).
  Proof. exact (@tx_validate_failed V Ch Req D stamp). Qed.

  (* who writes committed values *)
  Theorem C06_values_written_only_by_commit :
    ∀ (o : oracle) (w : world) (c : ctrl) (t : N) (v : V),
    In (EPutValues t v) (reconcile o w c).1
    → ∃ (t' i : N) (P : prop) (C : config),
    c = CtlProp (t', i) ∧ committing w t' i P C ∧ c_committed C = p_prev P.
  Proof. exact (@values_written_only_by_commit V Ch Req D candidate candidate_rb rollback_of overlay commit_merge payload record_applied touched restore resync_payload doc_ok stamp v_empty d_empty ch_empty). Qed.

  (* ... in reachable worlds: a transaction with a Commit phase and no Abort phase *)
  Theorem C06_values_written_only_by_committing_tx :
    ∀ (o : oracle) (w : world) (c : ctrl) (t : N) (v : V),
    reach w
    → In (EPutValues t v) (reconcile o w c).1
    → ∃ (t' i : N) (T : txn),
    c = CtlProp (t', i) ∧ txs w !! i = Some T ∧ is_Some (t_commit T) ∧ t_abort T = None.
  Proof. exact (@values_written_only_by_committing_tx V Ch Req D candidate candidate_rb rollback_of overlay commit_merge payload record_applied touched restore resync_payload doc_ok dev_apply stamp v_empty d_empty ch_empty). Qed.

  (* a transaction with an Abort phase never writes stored values, on any target, in any prefix *)
  Theorem C06_refused_alters_nothing :
    ∀ (o : oracle) (w : world) (i : N) (T : txn) (t : N) (k : nat),
    reach w
    → txs w !! i = Some T
    → is_Some (t_abort T)
    → ∀ (t' : N) (v : V), ¬ In (EPutValues t' v) (take k (reconcile o w (CtlProp (t, i))).1).
  Proof. exact (@aborted_tx_writes_no_values V Ch Req D candidate candidate_rb rollback_of overlay commit_merge payload record_applied touched restore resync_payload doc_ok dev_apply stamp v_empty d_empty ch_empty). Qed.

  (* what a change records when validated *)
  Theorem C06_change_records_rollback_values :
    ∀ (o : oracle) (w : world) (t i : N) (P : prop) (C : config) (ch : Ch),
    validating w t i P C
    → o_plugin o = true
    → p_details P = PChange ch
    → doc_ok (candidate (view C) ch) = true
    → o_verdict o = true
    → rec_prop o w (t, i) =
    ([EPutProp (t, i)
    (P <| p_rbindex := c_index C |> <| p_rbvalues := Some (rollback_of (view C) ch) |> <|
    p_validate := Some Done |>)], RDone).
  Proof. exact (@change_records V Ch Req D candidate candidate_rb rollback_of overlay commit_merge payload record_applied touched restore doc_ok v_empty d_empty ch_empty). Qed.

  (* a validated rollback carries exactly the recorded index and values *)
  Theorem C06_rollback_uses_recorded_values :
    ∀ (o : oracle) (w : world) (t i : N) (P : prop) (C : config) (ri : N) (Q : prop) (ch : Ch),
    validating w t i P C
    → o_plugin o = true
    → p_details P = PRollback ri
    → c_index C = ri
    → props w !! (t, ri) = Some Q
    → p_details Q = PChange ch
    → doc_ok (candidate_rb (view C) (default ch_empty (p_rbvalues Q))) = true
    → o_verdict o = true
    → rec_prop o w (t, i) =
    ([EPutProp (t, i)
    (P <| p_rbindex := p_rbindex Q |> <| p_rbvalues := p_rbvalues Q |> <| p_validate
    := Some Done |>)], RDone).
  Proof. exact (@rollback_accepted V Ch Req D candidate candidate_rb rollback_of overlay commit_merge payload record_applied touched restore doc_ok v_empty d_empty ch_empty). Qed.

  (* its commit merges exactly those and restores the recorded index *)
  Theorem C06_rollback_commit_replays :
    ∀ (o : oracle) (w : world) (t i : N) (P : prop) (C : config) (ri : N),
    committing w t i P C
    → c_committed C = p_prev P
    → p_details P = PRollback ri
    → rec_prop o w (t, i) =
    ([EPutValues t
    (commit_merge (o_order o) i (c_values C) (view C) (default ch_empty (p_rbvalues P)));
    EPutCfg t
    (C <| c_index := p_rbindex P |> <| c_committed := i |> <| c_inline := v_empty |> <|
    c_ainline := aview C |>); EPutProp (t, i) (P <| p_commit := Some Done |>)],
    requeue_next t P)
    ∧ (∀ k : nat,
    (2 <= k)%nat
    → ∃ C' : config,
    cfgs (step w (LRec (CtlProp (t, i)) k o)) !! t = Some C'
    ∧ c_index C' = p_rbindex P
    ∧ c_committed C' = i
    ∧ c_values C' =
    commit_merge (o_order o) i (c_values C) (view C)
    (default ch_empty (p_rbvalues P))).
  Proof. exact (@rollback_commit V Ch Req D candidate candidate_rb rollback_of overlay commit_merge payload record_applied touched restore resync_payload doc_ok dev_apply stamp v_empty d_empty ch_empty). Qed.

  (* what a validation recorded - the rollback values, the rollback index - and the details of the proposal never change
     once the proposal is validated: ANY step (every label, oracle, crash prefix) from ANY world *)
  Theorem C06_recorded_values_frozen : forall (w : world) l k (P P' : @prop Ch),
    props w !! k = Some P -> props (step w l) !! k = Some P' -> p_validate P = Some Done ->
    p_details P' = p_details P /\ p_rbvalues P' = p_rbvalues P /\ p_rbindex P' = p_rbindex P.
  Proof. exact (@recorded_frozen V Ch Req D candidate candidate_rb rollback_of overlay commit_merge payload record_applied touched restore resync_payload doc_ok dev_apply stamp v_empty d_empty ch_empty). Qed.

  (* ... along any list of steps in whose worlds the proposal is validated *)
  Theorem C06_recorded_values_frozen_run : forall (ls : list (@label Ch)) (w : world) k (P P' : @prop Ch),
    props w !! k = Some P -> props (fold_left step ls w) !! k = Some P' -> p_validate P = Some Done ->
    @stays_validated V Ch Req D candidate candidate_rb rollback_of overlay commit_merge payload record_applied touched restore resync_payload doc_ok dev_apply stamp v_empty d_empty ch_empty k w ls ->
    p_details P' = p_details P /\ p_rbvalues P' = p_rbvalues P /\ p_rbindex P' = p_rbindex P.
  Proof. exact (@recorded_frozen_run V Ch Req D candidate candidate_rb rollback_of overlay commit_merge payload record_applied touched restore resync_payload doc_ok dev_apply stamp v_empty d_empty ch_empty). Qed.

End C06.

(** Value level: the concrete pure layer Model/P2Pure.v *)

(* rolling back restores exactly what Get showed, for every iteration order of every loop *)
Theorem C06_rollback_restores_values :
  forall (ord1 ord2 i j : N) (m vw ch : cmap),
  rollback_wf i j m vw ch = true ->
  let rb := rollback_of vw ch in
  let m1 := commit_merge ord1 i m vw ch in
  let vw1 := overlay nil m1 in
  let m2 := commit_merge ord2 j m1 vw1 rb in
  live (overlay nil m2) = live vw /\ live m2 = live vw.
Proof. exact restores_values. Qed.

(* ... for any loaded views of the stored maps (same Go map, any list order) *)
Theorem C06_rollback_restores_values_any_view :
  forall (ord1 ord2 i j : N) (m vw ch vw1 vw2 : cmap),
  rollback_wf i j m vw ch = true ->
  let rb := rollback_of vw ch in
  let m1 := commit_merge ord1 i m vw ch in
  nodupb vw1 = true -> sameb vw1 m1 = true ->
  let m2 := commit_merge ord2 j m1 vw1 rb in
  nodupb vw2 = true -> sameb vw2 m2 = true ->
  live vw2 = live vw.
Proof. exact restores_values_any_view. Qed.

(* the hypotheses on the stored map are re-established by the change's commit ... *)
Theorem C06_rollback_wf_preserved :
  forall (ord i j : N) (m vw ch : cmap),
  rollback_wf i j m vw ch = true ->
  let m1 := commit_merge ord i m vw ch in
  wfb m1 = true /\ cleanb m1 = true /\ prunedb m1 = true /\ olderb j m1 = true /\
  sameb (overlay nil m1) m1 = true /\ wfb (overlay nil m1) = true /\ cleanb (overlay nil m1) = true.
Proof. exact commit_preserves_wf. Qed.

(* ... and by the rollback's commit *)
Theorem C06_rollback_wf_preserved_by_rollback :
  forall (ord1 ord2 i j : N) (m vw ch : cmap),
  rollback_wf i j m vw ch = true ->
  let rb := rollback_of vw ch in
  let m1 := commit_merge ord1 i m vw ch in
  let m2 := commit_merge ord2 j m1 (overlay nil m1) rb in
  wfb m2 = true /\ cleanb m2 = true.
Proof. exact rollback_commit_preserves_wf. Qed.

(* the candidate the model plugin validates for the rollback shows exactly the restored configuration, for every Go map
   order [ord] in which reconcileValidate applies the rollback values (repaired code, /repo 3342112, finding F-24;
   regression Example candidate_regression_F24 for the function before the repair) *)
Theorem C06_rollback_restores_values_candidate :
  forall (ord1 ord i j : N) (m vw ch : cmap),
  rollback_wf i j m vw ch = true ->
  let rb := rollback_of vw ch in
  let m1 := commit_merge ord1 i m vw ch in
  live (candidate_rb (overlay nil m1) (permute ord rb)) = live vw.
Proof. exact candidate_restored. Qed.

(* ... for any loaded view of the stored map and any list order of the rollback values *)
Theorem C06_rollback_restores_values_candidate_any_view :
  forall (ord1 i j : N) (m vw ch vw1 rb' : cmap),
  rollback_wf i j m vw ch = true ->
  let rb := rollback_of vw ch in
  let m1 := commit_merge ord1 i m vw ch in
  nodupb vw1 = true -> sameb vw1 m1 = true -> nodupb rb' = true -> sameb rb' rb = true ->
  live (candidate_rb vw1 rb') = live vw.
Proof. exact candidate_restored_any_view. Qed.

Print Assumptions C06_refused_not_latest.
Print Assumptions C06_refused_missing.
Print Assumptions C06_refused_rollback_of_rollback.
Print Assumptions C06_tx_refused_missing.
Print Assumptions C06_tx_refused_rollback_of_rollback.
Print Assumptions C06_refusal_fails_transaction.
Print Assumptions C06_values_written_only_by_commit.
Print Assumptions C06_values_written_only_by_committing_tx.
Print Assumptions C06_refused_alters_nothing.
Print Assumptions C06_change_records_rollback_values.
Print Assumptions C06_rollback_uses_recorded_values.
Print Assumptions C06_rollback_commit_replays.
Print Assumptions C06_recorded_values_frozen.
Print Assumptions C06_recorded_values_frozen_run.
Print Assumptions C06_rollback_restores_values.
Print Assumptions C06_rollback_restores_values_any_view.
Print Assumptions C06_rollback_wf_preserved.
Print Assumptions C06_rollback_wf_preserved_by_rollback.
Print Assumptions C06_rollback_restores_values_candidate.
Print Assumptions C06_rollback_restores_values_candidate_any_view.

(** Step and run level: the executable instance Model/P2Inst.v (Proofs/P2PureRollbackRun.v) *)
From OC Require Import Proofs.P2_ConvergeEx Proofs.P2PureReachRun Proofs.P2PureReachLabels Proofs.P2PureRollbackRun
     Proofs.P2PureRollbackQuiet.

(* two commit steps: in an invariant world w0 the complete commit step of the Change proposal (t, i) writes the entry C1;
   in an invariant world w1 whose entry of t holds the same stored map, the complete commit step of a Rollback proposal
   (t, j) that carries the rollback values recorded on the view the change was committed on restores exactly what Get
   showed before the change - for every pair of Go map orders *)
Theorem C06_rollback_restores_steps_partial :
  forall (Lf : N -> str -> Prop) (w0 w1 : Wd) (t i j : N) (n n' : nat) (o o' : oracle) (P R : Prop2)
         (C C1 C1' C2 : Cfg) (c : cmap) (ri : N),
  Inv Lf w0 -> props w0 !! (t, i) = Some P -> p_details P = PChange c -> cfgs w0 !! t = Some C ->
  p_commit P = Some Doing -> p_apply P = None -> p_abort P = None -> c_committed C = p_prev P -> (2 <= n)%nat ->
  cfgs (p2_step w0 (LRec (CtlProp (t, i)) n o)) !! t = Some C1 ->
  Inv Lf w1 -> cfgs w1 !! t = Some C1' -> c_values C1' = c_values C1 ->
  props w1 !! (t, j) = Some R -> p_details R = PRollback ri ->
  p_rbvalues R = Some (rollback_of (view overlay C) c) ->
  p_commit R = Some Doing -> p_apply R = None -> p_abort R = None -> c_committed C1' = p_prev R -> (2 <= n')%nat ->
  cfgs (p2_step w1 (LRec (CtlProp (t, j)) n' o')) !! t = Some C2 ->
  rollback_wf i j (c_values C) (view overlay C) c = true ->
  live (view overlay C2) = live (view overlay C).
Proof. exact rollback_two_commits. Qed.

(* runs of complete invocations from the initial world: lc the commit step of the Change proposal (t, i), lr the commit
   step of the Rollback proposal (t, j) of (t, i), no commit step of a proposal of t in between ([quiet]).  Hypotheses
   that are NOT derived from the run (statements about the worlds x_run ls1 and x_run (ls1 ++ [lc] ++ ls2), checkable
   on a dumped run): the rollback proposal carries rollback_of (view C) c (the validation history that records it is
   not lifted to runs), rollback_wf on the values the change is committed on, and [quiet] itself *)
Theorem C06_rollback_restores_run_partial :
  forall (ls1 ls2 : list Label) (t i j : N) (n n' : nat) (o o' : oracle) (P R : Prop2) (C C1' C2 : Cfg) (c : cmap),
  let lc := LRec (CtlProp (t, i)) n o in
  let lr := LRec (CtlProp (t, j)) n' o' in
  let ls := ls1 ++ [lc] ++ ls2 ++ [lr] in
  labels_wfb ls = true -> completes p2_init ls ->
  props (x_run ls1) !! (t, i) = Some P -> p_details P = PChange c -> cfgs (x_run ls1) !! t = Some C ->
  p_commit P = Some Doing -> p_apply P = None -> p_abort P = None -> c_committed C = p_prev P ->
  quiet t (x_run (ls1 ++ [lc])) ls2 ->
  props (x_run (ls1 ++ [lc] ++ ls2)) !! (t, j) = Some R -> p_details R = PRollback i ->
  cfgs (x_run (ls1 ++ [lc] ++ ls2)) !! t = Some C1' ->
  p_commit R = Some Doing -> p_apply R = None -> p_abort R = None -> c_committed C1' = p_prev R ->
  p_rbvalues R = Some (rollback_of (view overlay C) c) ->
  rollback_wf i j (c_values C) (view overlay C) c = true ->
  cfgs (x_run ls) !! t = Some C2 ->
  live (view overlay C2) = live (view overlay C).
Proof. exact rollback_restores_run. Qed.

(* the same with the hypothesis [quiet] (a statement about every world between the two commits) DERIVED from the run:
   it is enough that the rollback proposal directly follows the change in the proposal chain of the target
   (p_prev R = i, one field of one record).  Committed.Index of t is i right after lc and p_prev R = i right before lr; it
   never decreases (C02_cursors_monotone) and every complete commit step of a proposal of t moves it strictly upwards
   (commit_step_moves: C02_links_ordered + the proposal indexes are positive), so no commit step of t lies in between
   (quiet_from_cursor, Proofs/P2PureRollbackQuiet.v).  Still not derived from the run: the recorded rollback values and
   rollback_wf, as above. *)
Theorem C06_rollback_restores_run_chain_partial :
  forall (ls1 ls2 : list Label) (t i j : N) (n n' : nat) (o o' : oracle) (P R : Prop2) (C C1' C2 : Cfg) (c : cmap),
  let lc := LRec (CtlProp (t, i)) n o in
  let lr := LRec (CtlProp (t, j)) n' o' in
  let ls := ls1 ++ [lc] ++ ls2 ++ [lr] in
  labels_wfb ls = true -> completes p2_init ls ->
  props (x_run ls1) !! (t, i) = Some P -> p_details P = PChange c -> cfgs (x_run ls1) !! t = Some C ->
  p_commit P = Some Doing -> p_apply P = None -> p_abort P = None -> c_committed C = p_prev P ->
  props (x_run (ls1 ++ [lc] ++ ls2)) !! (t, j) = Some R -> p_details R = PRollback i -> p_prev R = i ->
  cfgs (x_run (ls1 ++ [lc] ++ ls2)) !! t = Some C1' ->
  p_commit R = Some Doing -> p_apply R = None -> p_abort R = None -> c_committed C1' = p_prev R ->
  p_rbvalues R = Some (rollback_of (view overlay C) c) ->
  rollback_wf i j (c_values C) (view overlay C) c = true ->
  cfgs (x_run ls) !! t = Some C2 ->
  live (view overlay C2) = live (view overlay C).
Proof. exact rollback_restores_run_prev. Qed.

(* between two worlds of a run of complete invocations in which Committed.Index of t is the same there is no commit step
   of a proposal of t (and hence, quiet_keeps_values, the stored values of t are the same) *)
Theorem C06_no_commit_between_equal_cursors :
  forall (t : N) (ls : list Label) (w : Wd),
  i_reach w -> completes w ls -> i_committed_of (fold_left p2_step ls w) t = i_committed_of w t -> quiet t w ls.
Proof. exact quiet_from_cursor. Qed.

Print Assumptions C06_rollback_restores_steps_partial.
Print Assumptions C06_rollback_restores_run_partial.
Print Assumptions C06_rollback_restores_run_chain_partial.
Print Assumptions C06_no_commit_between_equal_cursors.

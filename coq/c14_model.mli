
val negb : bool -> bool



val existsb : ('a1 -> bool) -> 'a1 list -> bool

val filter : ('a1 -> bool) -> 'a1 list -> 'a1 list

type positive =
| XI of positive
| XO of positive
| XH

type n =
| N0
| Npos of positive

module Pos :
 sig
  val succ : positive -> positive

  val add : positive -> positive -> positive

  val add_carry : positive -> positive -> positive

  val mul : positive -> positive -> positive

  val eqb : positive -> positive -> bool
 end

module N :
 sig
  val add : n -> n -> n

  val mul : n -> n -> n

  val eqb : n -> n -> bool
 end

type ascii =
| Ascii of bool * bool * bool * bool * bool * bool * bool * bool

val n_of_digits : bool list -> n

val n_of_ascii : ascii -> n

type string =
| EmptyString
| String of ascii * string

type str = n list

val b : string -> str

val eqb_str : str -> str -> bool

val split_on : n -> str -> str list

val c_semi : n

val c_comma : n

type md = { md_name : str; md_pref : str; md_groups : str }

val nonempty : str -> bool

val has_identity : md -> bool

val temporary_evaluate : str -> str -> bool

val set_gate : str -> md -> bool

val get_groups : md -> str list

val default_roc : str

val roc_group : str -> str

val report_targets : bool -> str -> str list -> str list -> str list

val get_all_targets : bool -> str -> md -> str list -> str list

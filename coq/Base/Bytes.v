(* Byte strings: Go `string` values are modelled as lists of byte codes (N).
   Stdlib only (keeps coqc start-up short). *)
From Coq Require Import List NArith Bool Lia Ascii String.
Import ListNotations.
Export String.StringSyntax.
Open Scope N_scope.

Definition str := list N.

(* readable literals in examples: B "abc" *)
Fixpoint B (s : string) : str :=
  match s with
  | EmptyString => []
  | String c s' => N_of_ascii c :: B s'
  end.
Arguments B s%string.

Fixpoint eqb_str (a b : str) : bool :=
  match a, b with
  | [], [] => true
  | x :: a', y :: b' => (x =? y) && eqb_str a' b'
  | _, _ => false
  end.

Lemma eqb_str_eq a b : eqb_str a b = true <-> a = b.
Proof.
  revert b; induction a as [|x a IH]; intros [|y b]; cbn; split; try congruence; try reflexivity.
  - rewrite andb_true_iff, N.eqb_eq, IH. intros [-> ->]; reflexivity.
  - intros [= -> ->]. rewrite N.eqb_refl. cbn. apply IH. reflexivity.
Qed.

Lemma eqb_str_refl a : eqb_str a a = true.
Proof. apply eqb_str_eq; reflexivity. Qed.

Lemma eqb_str_neq a b : eqb_str a b = false <-> a <> b.
Proof.
  split; intros H.
  - intros E. apply eqb_str_eq in E. congruence.
  - destruct (eqb_str a b) eqn:E; [apply eqb_str_eq in E; contradiction | reflexivity].
Qed.

Lemma eqb_str_sym a b : eqb_str a b = eqb_str b a.
Proof.
  destruct (eqb_str a b) eqn:E.
  - apply eqb_str_eq in E; subst; symmetry; apply eqb_str_refl.
  - symmetry. apply eqb_str_neq. apply eqb_str_neq in E. congruence.
Qed.

Definition str_eq_dec (a b : str) : {a = b} + {a <> b}.
Proof. decide equality. apply N.eq_dec. Defined.

(* strings.HasPrefix *)
Fixpoint prefixb (p s : str) : bool :=
  match p, s with
  | [], _ => true
  | x :: p', y :: s' => (x =? y) && prefixb p' s'
  | _ :: _, [] => false
  end.

Lemma prefixb_spec p s : prefixb p s = true <-> exists r, s = p ++ r.
Proof.
  revert s; induction p as [|x p IH]; intros s; cbn.
  - split; [intros _; exists s; reflexivity | reflexivity].
  - destruct s as [|y s]; [split; [discriminate | intros [r Hr]; discriminate]|].
    rewrite andb_true_iff, N.eqb_eq, IH. split.
    + intros [-> [r ->]]. exists r; reflexivity.
    + intros [r [= -> ->]]. split; [reflexivity | exists r; reflexivity].
Qed.

Lemma prefixb_refl s : prefixb s s = true.
Proof. apply prefixb_spec; exists []; rewrite app_nil_r; reflexivity. Qed.

Lemma prefixb_app p s : prefixb p (p ++ s) = true.
Proof. apply prefixb_spec; exists s; reflexivity. Qed.

Lemma prefixb_nil_r p : prefixb p [] = true -> p = [].
Proof. destruct p; [reflexivity | discriminate]. Qed.

(* strings.HasSuffix *)
Definition suffixb (suf s : str) : bool := prefixb (rev suf) (rev s).

Lemma suffixb_spec suf s : suffixb suf s = true <-> exists r, s = r ++ suf.
Proof.
  unfold suffixb. rewrite prefixb_spec. split; intros [r Hr].
  - exists (rev r). rewrite <- (rev_involutive s), Hr, rev_app_distr, rev_involutive. reflexivity.
  - exists (rev r). subst s. rewrite rev_app_distr. reflexivity.
Qed.

(* strings.Contains *)
Fixpoint contains (hay needle : str) : bool :=
  prefixb needle hay ||
  match hay with
  | [] => false
  | _ :: hay' => contains hay' needle
  end.

Lemma contains_spec hay needle :
  contains hay needle = true <-> exists a b, hay = a ++ needle ++ b.
Proof.
  induction hay as [|c hay IH]; cbn.
  - rewrite orb_false_r. split.
    + intros H; apply prefixb_nil_r in H; subst. exists [], []; reflexivity.
    + intros [a [b H]]. destruct a; [|discriminate]. destruct needle; [reflexivity|discriminate].
  - rewrite orb_true_iff, IH, prefixb_spec. split.
    + intros [[r ->] | [a [b ->]]]; [exists [], r; reflexivity | exists (c :: a), b; reflexivity].
    + intros [a [b H]]. destruct a as [|x a]; [left; exists b; exact H|].
      right. injection H as -> ->. exists a, b; reflexivity.
Qed.

(* strings.Index for a one-byte separator: position of the first occurrence *)
Fixpoint index_byte (c : N) (s : str) : option nat :=
  match s with
  | [] => None
  | x :: s' => if x =? c then Some O else option_map S (index_byte c s')
  end.

(* strings.LastIndex for a one-byte separator *)
Fixpoint last_index_byte (c : N) (s : str) : option nat :=
  match s with
  | [] => None
  | x :: s' =>
    match last_index_byte c s' with
    | Some i => Some (S i)
    | None => if x =? c then Some O else None
    end
  end.

(* strings.Split(s, sep) for a one-byte separator: always at least one element *)
Fixpoint split_on (sep : N) (s : str) : list str :=
  match s with
  | [] => [[]]
  | c :: s' =>
    if c =? sep then [] :: split_on sep s'
    else match split_on sep s' with
         | [] => [[c]]
         | w :: ws => (c :: w) :: ws
         end
  end.

Lemma split_on_nonempty sep s : split_on sep s <> [].
Proof.
  destruct s as [|c s]; cbn; [discriminate|].
  destruct (c =? sep); [discriminate|]. destruct (split_on sep s); discriminate.
Qed.

(* strings.Join *)
Fixpoint join (sep : str) (l : list str) : str :=
  match l with
  | [] => []
  | [x] => x
  | x :: l' => x ++ sep ++ join sep l'
  end.

Lemma join_split sep s : join [sep] (split_on sep s) = s.
Proof.
  induction s as [|c s IH]; cbn; [reflexivity|].
  destruct (c =? sep) eqn:E.
  - apply N.eqb_eq in E; subst c.
    pose proof (split_on_nonempty sep s) as NE.
    destruct (split_on sep s) as [|w ws]; [contradiction|].
    cbn [join]. cbn. f_equal. exact IH.
  - pose proof (split_on_nonempty sep s) as NE.
    destruct (split_on sep s) as [|w ws]; [contradiction|].
    destruct ws as [|w2 ws]; cbn in *; f_equal; exact IH.
Qed.

Lemma split_on_no_sep sep s : Forall (fun w => ~ In sep w) (split_on sep s).
Proof.
  induction s as [|c s IH]; cbn.
  - constructor; [intros []|constructor].
  - destruct (c =? sep) eqn:E.
    + constructor; [intros []|exact IH].
    + apply N.eqb_neq in E.
      destruct (split_on sep s) as [|w ws]; [constructor; [|constructor]|].
      * intros [H|[]]. congruence.
      * inversion IH as [|? ? Hw Hws]; subst. constructor; [|exact Hws].
        intros [H|H]; [congruence | exact (Hw H)].
Qed.

(* bytewise lexicographic order (Go's string <) *)
Fixpoint ltb_str (a b : str) : bool :=
  match a, b with
  | [], [] => false
  | [], _ :: _ => true
  | _ :: _, [] => false
  | x :: a', y :: b' => (x <? y) || ((x =? y) && ltb_str a' b')
  end.

Definition leb_str (a b : str) : bool := negb (ltb_str b a).

Lemma ltb_str_irrefl a : ltb_str a a = false.
Proof. induction a as [|x a IH]; cbn; [reflexivity|]. rewrite N.ltb_irrefl, N.eqb_refl, IH. reflexivity. Qed.

Lemma ltb_str_trans a b c : ltb_str a b = true -> ltb_str b c = true -> ltb_str a c = true.
Proof.
  revert b c; induction a as [|x a IH]; intros [|y b] [|z c]; cbn; try congruence; try reflexivity.
  rewrite !orb_true_iff, !andb_true_iff, !N.ltb_lt, !N.eqb_eq.
  intros [H1|[H1 H1']] [H2|[H2 H2']].
  - left; lia.
  - left; lia.
  - left; lia.
  - right; split; [lia | eapply IH; eauto].
Qed.

Lemma ltb_str_total a b : ltb_str a b = false -> ltb_str b a = false -> a = b.
Proof.
  revert b; induction a as [|x a IH]; intros [|y b]; cbn; try congruence.
  rewrite !orb_false_iff, !andb_false_iff, !N.ltb_ge, !N.eqb_neq.
  intros [H1 H1'] [H2 H2'].
  assert (x = y) by lia. subst y.
  f_equal. apply IH.
  - destruct H1' as [H|H]; [congruence | exact H].
  - destruct H2' as [H|H]; [congruence | exact H].
Qed.

Lemma leb_str_total a b : leb_str a b = true \/ leb_str b a = true.
Proof.
  unfold leb_str. destruct (ltb_str b a) eqn:E1; destruct (ltb_str a b) eqn:E2; cbn; auto.
  assert (H := ltb_str_trans _ _ _ E1 E2). rewrite ltb_str_irrefl in H. discriminate.
Qed.

(* well-known byte codes *)
Definition c_slash : N := 47.
Definition c_bslash : N := 92.
Definition c_lbr : N := 91.
Definition c_rbr : N := 93.
Definition c_eq : N := 61.
Definition c_semi : N := 59.
Definition c_comma : N := 44.
Definition c_star : N := 42.
Definition c_dot : N := 46.
Definition c_colon : N := 58.

(* generic insertion sort used for Go's sort.Slice on small inputs (result is the
   unique sorted permutation when keys are distinct) *)
Section Sort.
  Context {A : Type} (leb : A -> A -> bool).
  Fixpoint insert_sorted (x : A) (l : list A) : list A :=
    match l with
    | [] => [x]
    | y :: l' => if leb x y then x :: l else y :: insert_sorted x l'
    end.
  Fixpoint isort (l : list A) : list A :=
    match l with
    | [] => []
    | x :: l' => insert_sorted x (isort l')
    end.
End Sort.

From Coq Require Import Permutation Sorted.

Lemma insert_sorted_perm {A} leb (x : A) l : Permutation (x :: l) (insert_sorted leb x l).
Proof.
  induction l as [|y l IH]; cbn; [reflexivity|].
  destruct (leb x y); [reflexivity|].
  rewrite perm_swap. constructor. exact IH.
Qed.

Lemma isort_perm {A} leb (l : list A) : Permutation l (isort leb l).
Proof.
  induction l as [|x l IH]; cbn; [constructor|].
  rewrite <- insert_sorted_perm. constructor. exact IH.
Qed.

Lemma isort_length {A} leb (l : list A) : List.length (isort leb l) = List.length l.
Proof. symmetry. apply Permutation_length, isort_perm. Qed.

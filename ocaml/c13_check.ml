(* C13 driver: replays the harness observations of the real gNMI Set on the extracted model
   (Model.set_resolve, both the code-as-it-is and the repaired variant of computeChange), compares the
   canonical outcomes, and evaluates the property monitors directly on the observations.
   The monitors below are written on plain OCaml strings and do not call the extracted model. *)
open Model
open Mlib

let split c s = if s = "." || s = "" then [] else String.split_on_char c s
let hs s = str_of (unhex s)                       (* hex field -> OCaml string *)
let z_of_dec s =
  let neg = String.length s > 0 && s.[0] = '-' in
  let d = if neg then String.sub s 1 (String.length s - 1) else s in
  let v = digits_val (bytes_of_string d) in
  if neg then Z.opp v else v

(* ------------------------------------------------------------------ decoded request (OCaml side) *)
type oelem = { on : String.t; ok : (String.t * String.t) list }
type opath = { ot : String.t; oe : oelem list; ol : String.t list }
type oval = OS of String.t | OI of String.t | OU of String.t | OB of bool | OO of int * String.t
          | OJ of String.t * (String.t * String.t) list option | OX
type oupd = { up : opath; uv : oval }
type oext = EO of bool * (String.t * String.t * String.t) list | ES of bool | EX

let parse_path s =
  match String.split_on_char '~' s with
  | [ t; es; el ] ->
    let elem e =
      match String.split_on_char ':' e with
      | n :: ks -> { on = hs n; ok = List.map (fun kv -> match String.split_on_char '=' kv with [ k; v ] -> (hs k, hs v) | _ -> failwith "kv") ks }
      | [] -> failwith "elem" in
    { ot = hs t; oe = List.map elem (split '/' es); ol = List.map hs (split '/' el) }
  | _ -> failwith ("path " ^ s)

let parse_val s =
  let rest = String.sub s 1 (String.length s - 1) in
  match s.[0] with
  | 's' -> OS (hs rest)
  | 'i' -> OI rest
  | 'u' -> OU rest
  | 'b' -> OB (rest = "1")
  | 'o' -> (match String.split_on_char ',' rest with [ ty; r ] -> OO (int_of_string ty, hs r) | _ -> failwith "oval")
  | 'j' -> (match String.split_on_char ',' rest with
      | [ d; "E" ] -> OJ (hs d, None)
      | [ d; ps ] -> OJ (hs d, Some (List.map (fun kv -> match String.split_on_char '=' kv with [ k; v ] -> (hs k, hs v) | _ -> failwith "pair") (split '&' ps)))
      | _ -> failwith "jval")
  | _ -> OX

let parse_upd s = match String.split_on_char '!' s with [ p; v ] -> { up = parse_path p; uv = parse_val v } | _ -> failwith "upd"

let parse_ext s =
  match s.[0] with
  | 'O' -> (match String.split_on_char ':' s with
      | h :: es -> EO (h = "O1", List.map (fun e -> match String.split_on_char ',' e with [ a; b; c ] -> (hs a, hs b, hs c) | _ -> failwith "ov") es)
      | [] -> failwith "ext")
  | 'S' -> ES (s = "S1")
  | _ -> EX

(* ------------------------------------------------------------------ to the model's types *)
let b = bytes_of_string
let m_path p = { p_target = b p.ot; p_elems = List.map (fun e -> { e_name = b e.on; e_keys = List.map (fun (k, v) -> (b k, b v)) e.ok }) p.oe;
                 p_element = List.map b p.ol }
let m_val = function
  | OS s -> VStr (b s) | OI d -> VInt (z_of_dec d) | OU d -> VUint (Z.to_N (z_of_dec d)) | OB x -> VBool x
  | OO (ty, r) -> VOther (n_of_int ty, b r) | OJ (d, _) -> VJson (b d) | OX -> VBad
let m_upd u = { u_path = m_path u.up; u_val = m_val u.uv }
let m_ext = function
  | EO (d, ov) -> ExtOverrides (d, List.map (fun (a, ty, v) -> (b a, (b ty, b v))) ov)
  | ES d -> ExtStrategy d
  | EX -> ExtOther

(* the fake plugin's GetPathValues (harness/cmd/c13 fakePathValues), as the oracle of this request *)
let oracle_of (docs : (String.t * (String.t * String.t) list option) list) _plugin base doc =
  match List.assoc_opt (str_of doc) docs with
  | None | Some None -> None
  | Some (Some pairs) ->
    let base = str_of base in
    Some (List.map (fun (k, v) ->
        let p = if k = "" then base else if base = "/" then "/" ^ k else base ^ "/" ^ k in
        (b p, { tv_type = n_of_int 1; tv_str = b v })) pairs)

(* ------------------------------------------------------------------ server configuration *)
type ocfg = { topo : (String.t * (String.t * String.t) option) list;
              plugins : (String.t * String.t * (String.t * int * bool * String.t) list) list }
let cfg = ref { topo = []; plugins = [] }

let parse_cfg topo plugins =
  let t e = match String.split_on_char ',' e with
    | [ id; c; ty; v ] -> (hs id, if c = "1" then Some (hs ty, hs v) else None) | _ -> failwith "topo" in
  let rw e = match String.split_on_char ':' e with
    | [ p; vt; k; a ] -> (hs p, int_of_string vt, k = "1", hs a) | _ -> failwith "rw" in
  let p e = match String.split_on_char ',' e with
    | [ n; v; rws ] -> (hs n, hs v, List.map rw (split '|' rws)) | _ -> failwith "plugin" in
  { topo = List.map t (split ';' topo); plugins = List.map p (split ';' plugins) }

let m_cfg c limit =
  { sc_topo = List.map (fun (id, cf) -> { te_id = b id; te_cfg = (match cf with Some (ty, v) -> Some (b ty, b v) | None -> None) }) c.topo;
    sc_plugins = List.map (fun (n, v, rws) -> { pl_name = b n; pl_version = b v;
                                                pl_rw = List.map (fun (p, vt, k, a) -> { rw_path = b p; rw_vtype = n_of_int vt; rw_is_key = k; rw_attr = b a }) rws }) c.plugins;
    sc_limit = z_of_dec limit }

(* ------------------------------------------------------------------ canonical forms *)
let canon_change = function
  | CUpd v -> Printf.sprintf "U%d,%s" (int_of_n v.tv_type) (hex_of v.tv_str)
  | CDel -> "D"
  | CNil -> "N"
let canon_tx t =
  let ts = List.map (fun (id, ch) ->
      let es = List.sort compare (List.map (fun (p, c) -> hex_of p ^ "=" ^ canon_change c) ch) in
      hex_of id ^ ">" ^ (if es = [] then "." else String.concat "|" es)) t.tx_changes in
  let os = List.map (fun (id, (ty, v)) -> hex_of id ^ "," ^ hex_of ty ^ "," ^ hex_of v) t.tx_over in
  let j l = if l = [] then "." else String.concat ";" (List.sort compare l) in
  (j ts, j os)
let canon_outcome = function
  | Ok t -> let c, o = canon_tx t in ("OK", c, o)
  | Err CInvalid -> ("InvalidArgument", ".", ".")
  | Err CNotFound -> ("NotFound", ".", ".")
  | Err CInternal -> ("Internal", ".", ".")
  | Panic -> ("PANIC", ".", ".")

(* ------------------------------------------------------------------ the property, on strings *)
let esc e s =
  let bf = Buffer.create 16 in
  String.iter (fun c -> if c = e || c = '\\' then Buffer.add_char bf '\\'; Buffer.add_char bf c) s;
  Buffer.contents bf
let spec_strpath p =
  if p.oe <> [] then
    String.concat "" (List.map (fun e ->
        "/" ^ esc '/' e.on ^ String.concat "" (List.map (fun (k, v) -> "[" ^ k ^ "=" ^ esc ']' v ^ "]") (List.sort compare e.ok))) p.oe)
  else if p.ol <> [] then "/" ^ String.concat "/" p.ol
  else "/"
let spec_target prefix p = if prefix.ot <> "" then prefix.ot else p.ot
let spec_path prefix p = let pp = spec_strpath prefix in if pp = "/" then spec_strpath p else pp ^ spec_strpath p
let json_base p = let n = String.length p in if n > 1 && p.[n - 1] = '/' then String.sub p 0 (n - 1) else p
let valid_re = Str.regexp "\\(/[]a-zA-Z0-9:=._[-]+\\)+"
let spec_path_valid p = p = "" || (Str.string_match valid_re p 0 && Str.match_end () = String.length p)
let render = function
  | OS s -> Some (Printf.sprintf "1:%s" (hex_of (b s))) | OI d -> Some ("2:" ^ hex_of (b d)) | OU d -> Some ("3:" ^ hex_of (b d))
  | OB x -> Some ("4:" ^ hex_of (b (if x then "true" else "false"))) | OO (ty, r) -> Some (Printf.sprintf "%d:%s" ty (hex_of (b r)))
  | _ -> None
let parent_of p = match String.rindex_opt p '/' with Some i -> String.sub p 0 i | None -> p
let last_seg p = match String.rindex_opt p '/' with Some i -> String.sub p (i + 1) (String.length p - i - 1) | None -> p
let under p d = p = d || (let n = String.length d in String.length p > n && String.sub p 0 n = d && (p.[n] = '/' || p.[n] = '['))
let is_plain s = s <> "" && String.for_all (fun c -> (c >= 'a' && c <= 'z') || (c >= 'A' && c <= 'Z') || (c >= '0' && c <= '9') || c = '.' || c = '_' || c = '-') s
let plain_path p = p.ol = [] && List.for_all (fun e -> is_plain e.on && List.for_all (fun (k, v) -> is_plain k && is_plain v) e.ok) p.oe
let lower = String.lowercase_ascii

(* index-free element names of a model path such as /ifs/if[name=*]/descr *)
let model_names p =
  List.filter (fun s -> s <> "") (List.map (fun seg -> match String.index_opt seg '[' with Some i -> String.sub seg 0 i | None -> seg) (String.split_on_char '/' p))
let rec list_prefix a l = match a, l with [], _ -> true | x :: a', y :: l' -> x = y && list_prefix a' l' | _ -> false

(* delete landings of earlier accepted requests, per target: C03's open finding F-07c (a leaf below a path deleted
   earlier is pruned by a later configuration write) must not be reported here as an unrequested removal *)
let earlier_deletes : (String.t * String.t) list ref = ref []

type flat = { ft : String.t; fp : String.t; fk : [ `D | `U of String.t ]; fjson : bool }

(* ------------------------------------------------------------------ --emit-coq N: the first N requests as Coq
   Examples (set_resolve evaluated by vm_compute must give what the extracted model gave here) *)
let coq_str l = "[" ^ String.concat ";" (List.map (fun c -> string_of_int (int_of_n c)) l) ^ "]"
let coq_list f l = "[" ^ String.concat "; " (List.map f l) ^ "]"
let coq_pair f g (a, b) = "(" ^ f a ^ ", " ^ g b ^ ")"
let coq_z d = "(" ^ d ^ ")%Z"
let coq_path p = Printf.sprintf "(mkPath %s %s %s)" (coq_str p.p_target)
    (coq_list (fun e -> Printf.sprintf "(mkElem %s %s)" (coq_str e.e_name) (coq_list (coq_pair coq_str coq_str) e.e_keys)) p.p_elems)
    (coq_list coq_str p.p_element)
let coq_oval = function
  | OS s -> "(VStr " ^ coq_str (b s) ^ ")" | OI d -> "(VInt " ^ coq_z d ^ ")" | OU d -> "(VUint " ^ d ^ ")"
  | OB x -> if x then "(VBool true)" else "(VBool false)" | OO (ty, r) -> Printf.sprintf "(VOther %d %s)" ty (coq_str (b r))
  | OJ (d, _) -> "(VJson " ^ coq_str (b d) ^ ")" | OX -> "VBad"
let coq_upd u = Printf.sprintf "(mkUpd %s %s)" (coq_path (m_path u.up)) (coq_oval u.uv)
let coq_ext = function
  | EO (d, ov) -> Printf.sprintf "(ExtOverrides %b %s)" d (coq_list (fun (a, ty, v) -> Printf.sprintf "(%s, (%s, %s))" (coq_str (b a)) (coq_str (b ty)) (coq_str (b v))) ov)
  | ES d -> Printf.sprintf "(ExtStrategy %b)" d
  | EX -> "ExtOther"
let coq_cfg c limit =
  Printf.sprintf "(mkCfg %s %s %s)"
    (coq_list (fun (id, cf) -> Printf.sprintf "(mkEnt %s %s)" (coq_str (b id))
                  (match cf with Some (ty, v) -> Printf.sprintf "(Some (%s, %s))" (coq_str (b ty)) (coq_str (b v)) | None -> "None")) c.topo)
    (coq_list (fun (n, v, rws) -> Printf.sprintf "(mkPlugin %s %s %s)" (coq_str (b n)) (coq_str (b v))
                  (coq_list (fun (p, vt, k, a) -> Printf.sprintf "(mkRw %s %d %b %s)" (coq_str (b p)) vt k (coq_str (b a))) rws)) c.plugins)
    (coq_z limit)
let coq_change = function
  | CUpd v -> Printf.sprintf "(CUpd (mkTv %d %s))" (int_of_n v.tv_type) (coq_str v.tv_str) | CDel -> "CDel" | CNil -> "CNil"
let coq_outcome = function
  | Ok t -> Printf.sprintf "(Ok (mkTx %s %s))" (coq_list (coq_pair coq_str (coq_list (coq_pair coq_str coq_change))) t.tx_changes)
              (coq_list (fun (id, (ty, v)) -> Printf.sprintf "(%s, (%s, %s))" (coq_str id) (coq_str ty) (coq_str v)) t.tx_over)
  | Err CInvalid -> "(Err CInvalid)" | Err CNotFound -> "(Err CNotFound)" | Err CInternal -> "(Err CInternal)" | Panic -> "Panic"

let emit_coq n =
  print_string "From Coq Require Import List NArith ZArith Bool.\nFrom OC Require Import Base.Bytes Model.PathModel Model.SetReq.\nImport ListNotations.\nOpen Scope N_scope.\n";
  print_string "(* the harness' fake GetPathValues, from the table of the request's JSON documents *)\n";
  print_string "Definition table_oracle (docs : list (str * option (list (str * str)))) : pv_oracle := fun _ base doc =>\n  match aget docs doc with\n  | Some (Some pairs) => Some (map (fun kv => ((match fst kv with [] => base | _ => if eqb_str base [47] then 47 :: fst kv else base ++ 47 :: fst kv end), mkTv 1 (snd kv))) pairs)\n  | _ => None\n  end.\n";
  let count = ref 0 in
  (try
     while !count < n do
       let line = input_line stdin in
       match String.split_on_char '\t' line with
       | [ "c13.cfg"; _; topo; plugins ] ->
         cfg := parse_cfg topo plugins;
         Printf.printf "Definition the_cfg (limit : Z) : server_cfg := match %s with mkCfg t p _ => mkCfg t p limit end.\n" (coq_cfg !cfg "0")
       | "c13.set" :: id :: limit :: _ :: prefix :: dels :: reps :: upds :: exts :: _ ->
         let prefix = parse_path prefix in
         let dels = List.map parse_path (split ';' dels) in
         let reps = List.map parse_upd (split ';' reps) and upds = List.map parse_upd (split ';' upds) in
         let exts = List.map parse_ext (split ';' exts) in
         let docs = List.filter_map (fun u -> match u.uv with OJ (d, ps) -> Some (d, ps) | _ -> None) (reps @ upds) in
         let req = { r_prefix = m_path prefix; r_delete = List.map m_path dels; r_replace = List.map m_upd reps;
                     r_update = List.map m_upd upds; r_ext = List.map m_ext exts } in
         let mc = m_cfg !cfg limit in
         let strict = !count mod 2 = 1 in
         let res = set_resolve strict mc (oracle_of docs) req in
         incr count;
         Printf.printf "(* case %s *)\nExample case_%d : set_resolve %b (the_cfg %s) (table_oracle %s) (mkReq %s %s %s %s %s) = %s.\nProof. vm_compute. reflexivity. Qed.\n"
           id !count strict (coq_z limit)
           (coq_list (fun (d, ps) -> Printf.sprintf "(%s, %s)" (coq_str (b d))
                         (match ps with None -> "None" | Some l -> "(Some " ^ coq_list (coq_pair (fun x -> coq_str (b x)) (fun x -> coq_str (b x))) l ^ ")")) docs)
           (coq_path req.r_prefix) (coq_list coq_path req.r_delete) (coq_list coq_upd reps) (coq_list coq_upd upds) (coq_list coq_ext exts)
           (coq_outcome res)
       | _ -> ()
     done
   with End_of_file -> ());
  print_string "Definition bad := 0%nat.\nPrint bad.\n"

let () =
  if Array.length Sys.argv >= 3 && Sys.argv.(1) = "--emit-coq" then emit_coq (int_of_string Sys.argv.(2)) else
  each_line (function
    | [ "c13.limit"; id; s; v ] ->
      stat "limit";
      seen_distinct ("L" ^ s);
      let m = str_of (dec_z (parse_limit (unhex s))) in
      if m <> v then mismatch id (Printf.sprintf "GNMI_SET_SIZE_LIMIT=%S: model %s, Service.Register %s" (hs s) m v);
      (* the documented meaning, directly: a decimal integer gives that limit, anything else means no limit *)
      let txt = hs s in
      let digits = txt <> "" && String.for_all (fun c -> c >= '0' && c <= '9') txt && String.length txt <= 18 in
      if digits && v <> string_of_int (int_of_string txt) then specviol id "c13_limit_misparsed" (Printf.sprintf "%S -> %s" txt v)
    | [ "c13.cfg"; _; topo; plugins ] -> cfg := parse_cfg topo plugins; stat "cfg"
    | [ "c13.set"; id; limit; ctl; prefix; dels; reps; upds; exts; code; delta; chs; ovs; same; diff; calls; after ] ->
      stat "set";
      seen_distinct (String.concat "|" [ limit; prefix; dels; reps; upds; exts ]);
      let prefix = parse_path prefix in
      let dels = List.map parse_path (split ';' dels) in
      let reps = List.map parse_upd (split ';' reps) and upds = List.map parse_upd (split ';' upds) in
      let exts = List.map parse_ext (split ';' exts) in
      let docs = List.filter_map (fun u -> match u.uv with OJ (d, ps) -> Some (d, ps) | _ -> None) (reps @ upds) in
      let req = { r_prefix = m_path prefix; r_delete = List.map m_path dels; r_replace = List.map m_upd reps;
                  r_update = List.map m_upd upds; r_ext = List.map m_ext exts } in
      let mc = m_cfg !cfg limit in
      let cur = set_resolve false mc (oracle_of docs) req and rep = set_resolve true mc (oracle_of docs) req in
      let accepted = code = "OK" || code = "LOGGED" in
      let icode = if code = "LOGGED" then "OK" else code in
      let impl = (icode, (if accepted then chs else "."), (if accepted then ovs else ".")) in
      stat ("set.code." ^ code);
      stat (Printf.sprintf "set.limit.%s" limit);
      stat (Printf.sprintf "set.nops.%d" (min 6 (List.length dels + List.length reps + List.length upds)));
      if prefix.ot <> "" then stat "set.prefix_target";
      if prefix.oe <> [] then stat "set.prefix_elems";
      if docs <> [] then stat "set.json";
      let show (c, ch, o) = Printf.sprintf "%s changes=%s overrides=%s" c ch o in
      let ccur = canon_outcome cur and crep = canon_outcome rep in
      (* with the controllers running an accepted request whose response would dereference a nil change is never sent *)
      let nil_shape = (match cur with Ok t -> response_panics t | _ -> false) in
      if impl = ccur then begin
        if ccur <> crep then stat "set.matches_unrepaired_only"
      end else if impl = crep then stat "set.matches_repaired_only"
      else mismatch id (Printf.sprintf "set_resolve: model(as coded)=%s model(repaired)=%s impl=%s" (show ccur) (show crep) (show impl));
      if nil_shape then stat "set.nil_change_shape";

      (* ---------------- monitors, independent of the model ---------------- *)
      let nviol0 = !nviol in
      (* M1: a refused Set creates no transaction and changes nothing *)
      if not accepted then begin
        if delta <> "0" then specviol id "c13_refused_but_logged" (Printf.sprintf "Set refused with %s but %s transaction(s) were created" code delta);
        if same <> "1" then specviol id "c13_refused_but_changed" (Printf.sprintf "Set refused with %s but Get/configurations differ afterwards: %s" code diff)
      end else if delta <> "1" then mismatch id ("accepted Set created " ^ delta ^ " transactions");
      (* flat expected operations *)
      let flat_of_upd u =
        let t = spec_target prefix u.up and p = spec_path prefix u.up in
        match u.uv with
        | OJ (_, Some pairs) ->
          let base = json_base p in
          List.map (fun (k, v) -> { ft = t; fp = (if k = "" then base else if base = "/" then "/" ^ k else base ^ "/" ^ k);
                                    fk = `U ("1:" ^ hex_of (b v)); fjson = true }) pairs
        | OJ (_, None) | OX -> []
        | v -> (match render v with Some r -> [ { ft = t; fp = p; fk = `U r; fjson = false } ] | None -> []) in
      let fdel = List.map (fun d -> { ft = spec_target prefix d; fp = spec_path prefix d; fk = `D; fjson = false }) dels in
      let fupd = List.concat_map flat_of_upd (reps @ upds) in
      let key_attrs = List.concat_map (fun (_, _, rws) -> List.filter_map (fun (_, _, k, a) -> if k then Some a else None) rws) !cfg.plugins in
      (* a delete naming a list-key leaf removes the list entry it belongs to (doDelete: "in case an index attribute is given - take it off") *)
      let txl = if accepted && chs <> "?" && chs <> "." then
          List.concat_map (fun tc -> match String.split_on_char '>' tc with
              | [ t; es ] -> List.map (fun e -> match String.split_on_char '=' e with [ p; c ] -> (hs t, hs p, c) | _ -> failwith "change") (split '|' es)
              | _ -> failwith "txchange") (split ';' chs) else [] in
      let key_shape f = List.mem (last_seg f.fp) key_attrs && not (String.length f.fp > 0 && f.fp.[String.length f.fp - 1] = ']') in
      (* where a delete may land: its own path, or the enclosing entry when it names a key leaf *)
      let del_lands f p = p = f.fp || (key_shape f && p = parent_of f.fp) in
      let del_covers f p = under p f.fp || (key_shape f && under p (parent_of f.fp)) in
      let targets_named = List.sort_uniq compare (List.map (fun d -> spec_target prefix d) dels @ List.map (fun u -> spec_target prefix u.up) (reps @ upds)) in
      if accepted && chs <> "?" then begin
        let tx = txl in
        let tx_targets = List.sort_uniq compare (List.map (fun tc -> hs (List.hd (String.split_on_char '>' tc))) (split ';' chs)) in
        if tx_targets <> targets_named then
          specviol id "c13_target_set" (Printf.sprintf "transaction targets [%s], request names [%s]" (String.concat "," tx_targets) (String.concat "," targets_named));
        (* every delete lands as a delete on its target/path *)
        List.iter (fun f ->
            let cands = List.filter (fun (t, p, _) -> t = f.ft && del_lands f p) tx in
            if List.exists (fun (_, _, c) -> c = "D") cands then ()
            else match List.filter (fun (_, p, c) -> c = "N" && not (spec_path_valid p)) cands with
              | (_, p, _) :: _ -> specviol id "c13_invalid_delete_path_nil_change" (Printf.sprintf "delete %s:%S accepted; the logged change is nil" f.ft p)
              | [] -> specviol id "c13_delete_not_landed" (Printf.sprintf "delete %s:%s is not a delete in the transaction %s" f.ft f.fp chs)) fdel;
        (* every update lands with the last value written to its target/path, unless a delete of the same request names that path *)
        List.iter (fun f ->
            let last = List.fold_left (fun acc g -> if g.ft = f.ft && g.fp = f.fp then g.fk else acc) f.fk fupd in
            let deleted = List.exists (fun d -> d.ft = f.ft && del_lands d f.fp) fdel in
            match List.filter (fun (t, p, _) -> t = f.ft && p = f.fp) tx, last with
            | [ (_, _, c) ], `U r ->
              let want = "U" ^ (match String.split_on_char ':' r with [ ty; v ] -> ty ^ "," ^ v | _ -> r) in
              if deleted then begin
                (* a delete of the same path wins - unless it names a key leaf and therefore landed on the enclosing entry *)
                let only_key_leaf = List.for_all (fun d -> not (d.ft = f.ft && d.fp = f.fp) || key_shape d) fdel in
                if c <> "D" && c <> "N" && not (only_key_leaf && c = want) then
                  specviol id "c13_delete_update_overlap" (Printf.sprintf "%s:%s deleted and updated, logged %s" f.ft f.fp c) end
              else if c <> want then specviol id "c13_update_not_landed" (Printf.sprintf "update %s:%s expected %s logged %s" f.ft f.fp want c)
            | _ -> specviol id "c13_update_not_landed" (Printf.sprintf "update %s:%s is not in the transaction %s" f.ft f.fp chs)) fupd;
        (* nothing else lands *)
        List.iter (fun (t, p, c) ->
            let by_upd = List.exists (fun f -> f.ft = t && f.fp = p) fupd and by_del = List.exists (fun f -> f.ft = t && del_lands f p) fdel in
            if not (by_upd || by_del) then specviol id "c13_unrequested_change" (Printf.sprintf "%s:%s=%s was not requested" t p c)) tx;
        (* JSON values are resolved at prefix + path *)
        List.iter (fun u -> match u.uv with
            | OJ (d, _) ->
              let base = json_base (spec_path prefix u.up) in
              let want = hex_of (b base) ^ "," ^ hex_of (b d) in
              if not (List.mem want (split ';' calls)) then specviol id "c13_json_wrong_base" (Printf.sprintf "JSON update at %s: plugin was asked %s" base calls)
            | _ -> ()) (reps @ upds);
        (* M4: what Get shows afterwards (controllers running, no type/version overrides in play) *)
        if ctl = "1" && code = "OK" then begin
          let dlist = List.map (fun e -> match String.split_on_char ',' e with [ t; p; o; n ] -> (hs t, hs p, o, n) | _ -> failwith "diff") (split ';' diff) in
          let has_over = List.exists (function EO (true, _ :: _) -> true | _ -> false) exts in
          List.iter (fun (t, p, _, n) ->
              if p = "!" then ()   (* the target's configuration did not exist before *)
              else if not (List.mem t targets_named) then specviol id "c13_get_other_target_changed" (Printf.sprintf "%s:%s changed, request names [%s]" t p (String.concat "," targets_named))
              else if n = "~" then begin
                if not (List.exists (fun f -> f.ft = t && del_covers f p) fdel) then begin
                  if List.exists (fun (t', d) -> t' = t && under p d) !earlier_deletes then stat "set.get.removal_under_earlier_delete(F-07c)"
                  else specviol id "c13_get_unrequested_removal" (Printf.sprintf "%s:%s disappeared" t p) end end
              else if not (List.exists (fun f -> f.ft = t && f.fp = p && f.fk = `U n) fupd) then
                specviol id "c13_get_unrequested_value" (Printf.sprintf "%s:%s became %s" t p n)) dlist;
          if not has_over then begin
            let alist = List.map (fun e -> match String.split_on_char ',' e with [ t; p; v ] -> ((hs t, hs p), v) | _ -> failwith "after") (split ';' after) in
            List.iter (fun f ->
                let covered = List.exists (fun d -> d.ft = f.ft && del_covers d f.fp) fdel
                              || List.exists (fun (t', d) -> t' = f.ft && under f.fp d) !earlier_deletes in
                let last = List.fold_left (fun acc g -> if g.ft = f.ft && g.fp = f.fp then g.fk else acc) f.fk fupd in
                match List.assoc_opt (f.ft, f.fp) alist, last with
                | Some v, `U r when not covered && v <> "!" -> if v <> r then specviol id "c13_get_update_not_visible" (Printf.sprintf "%s:%s expected %s, Get shows %s" f.ft f.fp r v)
                | _ -> ()) fupd
          end
        end
      end;
      if accepted then List.iter (fun f ->
          earlier_deletes := (f.ft, f.fp) :: !earlier_deletes;
          if key_shape f then earlier_deletes := (f.ft, parent_of f.fp) :: !earlier_deletes) fdel;
      (* M5: the refusal causes, decided structurally for plain requests *)
      let all_upds = reps @ upds in
      let plain = plain_path prefix && List.for_all plain_path dels && List.for_all (fun u -> plain_path u.up && render u.uv <> None) all_upds in
      let trailing = List.exists (fun d -> let p = spec_path prefix d in p = "/" || p.[String.length p - 1] = '/') dels in
      if plain && not trailing then begin
        stat "set.plain";
        let first_o = List.find_opt (function EO _ -> true | _ -> false) exts and first_s = List.find_opt (function ES _ -> true | _ -> false) exts in
        let bad_ext = (match first_o with Some (EO (false, _)) -> true | _ -> false) || (match first_s with Some (ES false) -> true | _ -> false) in
        let over = match first_o with Some (EO (true, ov)) -> ov | _ -> [] in
        let nops = List.length dels + List.length all_upds in
        let plugin_of t =
          match List.assoc_opt t !cfg.topo with
          | Some (Some (ty, v)) ->
            let ty, v = (match List.find_opt (fun (a, _, _) -> a = t) over with Some (_, oty, ov) -> (oty, ov) | None -> (ty, v)) in
            List.find_opt (fun (n, pv, _) -> lower (n ^ "-" ^ pv) = lower (ty ^ "-" ^ v)) (List.rev !cfg.plugins)
          | _ -> None in
        let elems_of p = prefix.oe @ p.oe in
        let anon es = String.concat "" (List.map (fun e -> "/" ^ e.on ^ String.concat "" (List.map (fun (k, _) -> "[" ^ k ^ "=*]") (List.sort compare e.ok))) es) in
        let unknown_target = List.exists (fun t -> plugin_of t = None) targets_named in
        let cause = ref [] in
        if bad_ext then cause := "bad_extension" :: !cause;
        if nops = 0 then cause := "no_operations" :: !cause;
        if unknown_target then cause := "unknown_target_or_model" :: !cause;
        if not unknown_target then begin
          List.iter (fun u ->
              match plugin_of (spec_target prefix u.up) with
              | Some (_, _, rws) ->
                let es = elems_of u.up in
                (* an empty update path under a prefix gives "<prefix>/", which is never a model path *)
                let anon_u = if u.up.oe = [] then anon prefix.oe ^ "/" else anon es in
                (match List.find_opt (fun (p, _, _, _) -> p = anon_u) (List.rev rws) with
                 | None -> cause := "not_writable" :: !cause
                 | Some (_, _, is_key, attr) ->
                   if is_key then begin
                     let parent = (match List.rev es with _ :: pe :: _ -> pe.ok | _ -> []) in
                     let v = (match render u.uv with Some r -> (match String.split_on_char ':' r with [ _; h ] -> hs h | _ -> "") | None -> "") in
                     if List.assoc_opt attr parent <> Some v then cause := "key_contradiction" :: !cause
                   end)
              | None -> ()) all_upds;
          List.iter (fun d ->
              match plugin_of (spec_target prefix d) with
              | Some (_, _, rws) ->
                let es = elems_of d in
                let names = List.map (fun e -> e.on) es in
                let search = (match List.rev es with
                    | le :: _ when le.ok <> [] -> names @ [ fst (List.hd (List.rev (List.sort compare le.ok))) ]
                    | _ -> names) in
                let exact = List.exists (fun (p, _, _, _) -> p = anon es) rws in
                if not (exact || List.exists (fun (p, _, _, _) -> list_prefix search (model_names p)) rws) then begin
                  let sp = "/" ^ String.concat "/" search in
                  let strpre = List.exists (fun (p, _, _, _) -> let m = "/" ^ String.concat "/" (model_names p) in
                                             String.length m >= String.length sp && String.sub m 0 (String.length sp) = sp) rws in
                  cause := (if strpre then "delete_partial_name" else "not_writable") :: !cause
                end
              | None -> ()) dels;
          let lim = int_of_string limit in
          if lim > 0 then begin
            let nupd = List.length (List.sort_uniq compare (List.map (fun u -> (spec_target prefix u.up, spec_path prefix u.up)) all_upds)) in
            if List.length targets_named <> 1 || nupd + List.length dels > lim then cause := "size_limit" :: !cause
          end
        end;
        let causes = List.sort_uniq compare !cause in
        if causes = [] then begin
          stat "set.plain.valid";
          if not accepted then specviol id "c13_valid_refused" (Printf.sprintf "a request without any refusal cause was refused with %s" code)
        end else begin
          List.iter (fun c -> stat ("set.plain.cause." ^ c)) causes;
          if accepted then
            (match causes with
             | [ "delete_partial_name" ] -> specviol id "c13_delete_partial_name_accepted" "a delete whose last element name is only a leading part of a model element name was accepted"
             | _ -> specviol id ("c13_" ^ List.hd (List.filter (fun c -> c <> "delete_partial_name") causes @ causes) ^ "_accepted")
                      (Printf.sprintf "request with refusal cause(s) [%s] was accepted" (String.concat "," causes)))
        end
      end;
      if !nviol = nviol0 then stat "set.monitors_ok";
      sample (Printf.sprintf "Set limit=%s prefix=%s:%s del=%d rep=%d upd=%d -> %s tx+%s %s" limit prefix.ot (spec_strpath prefix)
                (List.length dels) (List.length reps) (List.length upds) code delta (if accepted then chs else ""))
    | _ -> stat "ignored")

(* C18 driver: replays the harness observations of BuildTree / PrunePathValues / PrunePathMap (v2 and v3),
   SplitPath and IsPathBelow on the extracted model (Model.Tree), and evaluates the property directly on the
   implementation's answers with an independent flattener / independent element-wise subtree relation
   (none of the monitor code below calls the extracted model). *)
type ostring = string
open Model
open Mlib

let z_of_int i = if i = 0 then Z0 else if i > 0 then Zpos (pos_of_int i) else Zneg (pos_of_int (-i))

type item = { path : ostring; del : bool; ty : int; bytes : ostring; opts : int list }

let unhexs s = str_of (unhex s)

let parse_items s =
  if s = "." then []
  else
    List.map
      (fun f ->
        match String.split_on_char ':' f with
        | [ p; d; t; b; o ] ->
          { path = unhexs p; del = d = "1"; ty = int_of_string t; bytes = unhexs b;
            opts = (if o = "_" then [] else List.map int_of_string (String.split_on_char '.' o)) }
        | _ -> failwith "bad item")
      (String.split_on_char ',' s)

let to_pv it =
  { pv_path = bytes_of_string it.path; pv_del = it.del;
    pv_val = { tv_type = n_of_int it.ty; tv_bytes = bytes_of_string it.bytes; tv_opts = List.map z_of_int it.opts } }

let of_pv (p : pv) =
  let rec int_of_z = function Z0 -> 0 | Zpos q -> int_of_pos q | Zneg q -> -int_of_pos q in
  { path = str_of p.pv_path; del = p.pv_del; ty = int_of_n p.pv_val.tv_type; bytes = str_of p.pv_val.tv_bytes;
    opts = List.map int_of_z p.pv_val.tv_opts }

let show_item it = Printf.sprintf "%S%s" it.path (if it.del then "(deleted)" else "")
let show_items l =
  let s = String.concat " " (List.map show_item l) in
  if String.length s > 700 then String.sub s 0 700 ^ " ..." else s

(* ------------------------------------------------------------------ JSON *)
type json = JNull | JBool of bool | JNum of ostring | JStr of ostring | JArr of json list | JObj of (ostring * json) list

let parse_json (s : ostring) : json =
  let n = String.length s in
  let i = ref 0 in
  let peek () = if !i < n then s.[!i] else '\000' in
  let rec ws () = if !i < n && (s.[!i] = ' ' || s.[!i] = '\n' || s.[!i] = '\t' || s.[!i] = '\r') then (incr i; ws ()) in
  let utf8 b cp =
    if cp < 0x80 then Buffer.add_char b (Char.chr cp)
    else if cp < 0x800 then (Buffer.add_char b (Char.chr (0xC0 lor (cp lsr 6))); Buffer.add_char b (Char.chr (0x80 lor (cp land 0x3F))))
    else (Buffer.add_char b (Char.chr (0xE0 lor (cp lsr 12))); Buffer.add_char b (Char.chr (0x80 lor ((cp lsr 6) land 0x3F)));
          Buffer.add_char b (Char.chr (0x80 lor (cp land 0x3F)))) in
  let str () =
    incr i;
    let b = Buffer.create 16 in
    while peek () <> '"' do
      if !i >= n then failwith "json: unterminated string";
      if peek () = '\\' then begin
        incr i;
        (match peek () with
         | 'n' -> Buffer.add_char b '\n' | 't' -> Buffer.add_char b '\t' | 'r' -> Buffer.add_char b '\r'
         | 'b' -> Buffer.add_char b '\b' | 'f' -> Buffer.add_char b '\012'
         | 'u' -> utf8 b (int_of_string ("0x" ^ String.sub s (!i + 1) 4)); i := !i + 4
         | c -> Buffer.add_char b c);
        incr i
      end else (Buffer.add_char b (peek ()); incr i)
    done;
    incr i;
    Buffer.contents b in
  let rec value () =
    ws ();
    match peek () with
    | '{' ->
      incr i; ws ();
      if peek () = '}' then (incr i; JObj [])
      else begin
        let acc = ref [] in
        let go = ref true in
        while !go do
          ws ();
          let k = str () in
          ws (); if peek () <> ':' then failwith "json: ':'"; incr i;
          let v = value () in
          acc := (k, v) :: !acc;
          ws ();
          if peek () = ',' then incr i else if peek () = '}' then (incr i; go := false) else failwith "json: object"
        done;
        JObj (List.rev !acc)
      end
    | '[' ->
      incr i; ws ();
      if peek () = ']' then (incr i; JArr [])
      else begin
        let acc = ref [] in
        let go = ref true in
        while !go do
          let v = value () in
          acc := v :: !acc;
          ws ();
          if peek () = ',' then incr i else if peek () = ']' then (incr i; go := false) else failwith "json: array"
        done;
        JArr (List.rev !acc)
      end
    | '"' -> JStr (str ())
    | 't' -> i := !i + 4; JBool true
    | 'f' -> i := !i + 5; JBool false
    | 'n' -> i := !i + 4; JNull
    | _ ->
      let st = !i in
      while !i < n && (match s.[!i] with '0' .. '9' | '-' | '+' | '.' | 'e' | 'E' -> true | _ -> false) do incr i done;
      if !i = st then failwith "json: value";
      JNum (String.sub s st (!i - st)) in
  let v = value () in
  ws ();
  if !i <> n then failwith "json: trailing text";
  v

(* ------------------------------------------------------------------ model tree vs JSON *)
let rec diff (where : ostring) (nd : node) (j : json) : ostring option =
  match nd, j with
  | NMap m, JObj o ->
    let m = List.sort compare (List.map (fun (k, v) -> (str_of k, v)) m) in
    let o = List.sort (fun (a, _) (b, _) -> compare a b) o in
    if List.map fst m <> List.map fst o then
      Some (Printf.sprintf "members of %s: model {%s} impl {%s}" where (String.concat "," (List.map fst m)) (String.concat "," (List.map fst o)))
    else List.fold_left2 (fun acc (k, v) (_, w) -> match acc with Some _ -> acc | None -> diff (where ^ "/" ^ k) v w) None m o
  | NArr l, JArr a ->
    if List.length l <> List.length a then Some (Printf.sprintf "entries of %s: model %d impl %d" where (List.length l) (List.length a))
    else
      let idx = ref (-1) in
      List.fold_left2 (fun acc v w -> incr idx; match acc with Some _ -> acc | None -> diff (Printf.sprintf "%s#%d" where !idx) v w) None l a
  | NLeaf (GStr s), JStr t -> if str_of s = t then None else Some (Printf.sprintf "%s: model %S impl %S" where (str_of s) t)
  | NLeaf (GInt z), JNum t -> if str_of (dec_of_Z z) = t then None else Some (Printf.sprintf "%s: model %s impl %s" where (str_of (dec_of_Z z)) t)
  | NLeaf (GUint u), JNum t -> if str_of (dec_of_N u) = t then None else Some (Printf.sprintf "%s: model %s impl %s" where (str_of (dec_of_N u)) t)
  | NLeaf (GBool b), JBool c -> if b = c then None else Some (where ^ ": bool")
  | NLeaf (GOpq ty), _ ->
    let ty = str_of ty in
    let ok = match j with
      | JStr _ -> ty = "string" || ty = "[]uint8"
      | JNum _ -> ty = "float64" || ty = "float32"
      | JArr _ -> String.length ty > 2 && String.sub ty 0 2 = "[]" && ty <> "[]uint8"
      | JNull -> String.length ty > 2 && String.sub ty 0 2 = "[]"
      | _ -> false in
    if ok then None else Some (Printf.sprintf "%s: JSON kind does not fit Go type %s" where ty)
  | _ -> Some (where ^ ": node kinds differ")

(* ------------------------------------------------------------------ independent path reading *)
(* gNMI split: '/' separates elements unless inside [...] or escaped (own implementation, OCaml strings) *)
let split_gnmi (p : ostring) : ostring list =
  let p = if String.length p > 0 && p.[0] = '/' then String.sub p 1 (String.length p - 1) else p in
  if p = "" then []
  else begin
    let res = ref [] and b = Buffer.create 16 and inb = ref false and esc = ref false in
    String.iter
      (fun c ->
        if c = '/' && (not !inb) && not !esc then (res := Buffer.contents b :: !res; Buffer.clear b)
        else begin
          Buffer.add_char b c;
          if c = '[' then (inb := true; esc := false)
          else if c = ']' then (if not !esc then inb := false; esc := false)
          else if c = '\\' then esc := not !esc
          else esc := false
        end)
      p;
    List.rev (Buffer.contents b :: !res)
  end

(* name[k=v][k=v]... of a sane element; None when the element is not of that shape *)
let parse_element (e : ostring) : (ostring * (ostring * ostring) list) option =
  match String.index_opt e '[' with
  | None -> if e = "" || String.contains e '=' || String.contains e ']' then None else Some (e, [])
  | Some b ->
    let name = String.sub e 0 b in
    if name = "" || String.contains name '=' || String.contains name ']' then None
    else begin
      let n = String.length e in
      let rec keys i acc =
        if i = n then Some (List.rev acc)
        else if e.[i] <> '[' then None
        else
          match String.index_from_opt e i '=' with
          | None -> None
          | Some q ->
            (match String.index_from_opt e q ']' with
             | None -> None
             | Some c ->
               let k = String.sub e (i + 1) (q - i - 1) and v = String.sub e (q + 1) (c - q - 1) in
               if k = "" || v = "" || String.contains k '[' || String.contains k ']' || String.contains v '[' then None
               else keys (c + 1) ((k, v) :: acc)) in
      match keys b [] with Some ks when ks <> [] -> Some (name, ks) | _ -> None
    end

(* backslashes are accepted only as escaped backslashes (runs of even length); BuildTree takes the key text as
   written, so "C:\\\\" in the path is the key value "C:\\\\" of the document *)
let odd_backslashes (p : ostring) : bool =
  let run = ref 0 and bad = ref false in
  String.iter (fun c -> if c = '\\' then incr run else (if !run land 1 = 1 then bad := true; run := 0)) p;
  !bad || !run land 1 = 1

(* a sane path: starts with '/', backslashes only in pairs, every element of the shape above *)
let sane_elems (p : ostring) : (ostring * (ostring * ostring) list) list option =
  if p = "/" then Some []
  else if String.length p < 2 || p.[0] <> '/' || odd_backslashes p || p.[String.length p - 1] = '/' then None
  else
    let es = List.map parse_element (split_gnmi p) in
    if List.exists (fun e -> e = None) es then None else Some (List.map (function Some e -> e | None -> assert false) es)

let rec is_prefix a b = match a, b with [], _ -> true | x :: a', y :: b' -> x = y && is_prefix a' b' | _ :: _, [] -> false

(* p lies strictly beneath d at an element boundary: d's elements are a proper prefix of p's, or they are so up to
   the last element of d, which names the list (or gives the first keys of the entry) p goes through *)
let below_elems (p : (ostring * (ostring * ostring) list) list) (d : (ostring * (ostring * ostring) list) list) : bool =
  let lp = List.length p and ld = List.length d in
  if ld = 0 then lp > 0
  else if lp < ld then false
  else begin
    let rec firstn n l = if n = 0 then [] else match l with [] -> [] | x :: r -> x :: firstn (n - 1) r in
    let dinit = firstn (ld - 1) d and (dn, dk) = List.nth d (ld - 1) in
    let (pn, pk) = List.nth p (ld - 1) in
    firstn (ld - 1) p = dinit && pn = dn
    && ((pk = dk && lp > ld) || (is_prefix dk pk && List.length pk > List.length dk))
  end

(* ------------------------------------------------------------------ prune monitor *)
let monitor_prune id leave (inp : item list) (outp : item list) =
  let parsed = List.map (fun it -> (it, sane_elems it.path)) inp in
  if List.exists (fun (_, e) -> e = None) parsed then stat "prune.monitor.skipped-unsound-paths"
  else begin
    stat "prune.monitor";
    let parsed = List.map (fun (it, e) -> (it, match e with Some e -> e | None -> [])) parsed in
    let tombs = List.filter (fun (it, _) -> it.del) parsed in
    let expect =
      List.filter (fun (it, e) -> (not (List.exists (fun (_, d) -> below_elems e d) tombs)) && ((not it.del) || leave)) parsed in
    let norm l = List.sort compare l in
    let exp_items = norm (List.map fst expect) and got = norm outp in
    if exp_items <> got then begin
      let extra = List.filter (fun x -> not (List.mem x exp_items)) got and missing = List.filter (fun x -> not (List.mem x got)) exp_items in
      specviol id "c18_prune_not_exact"
        (Printf.sprintf "leaveTop=%b input=[%s] kept-but-should-go=[%s] dropped-but-should-stay=[%s]" leave (show_items inp) (show_items extra) (show_items missing))
    end;
    let rec sorted = function a :: (b :: _ as r) -> a.path <= b.path && sorted r | _ -> true in
    if not (sorted outp) then specviol id "c18_prune_unsorted" (show_items outp)
  end

(* ------------------------------------------------------------------ build monitor *)
let int64_of_bytes (b : ostring) = String.fold_left (fun acc c -> Int64.add (Int64.mul acc 256L) (Int64.of_int (Char.code c))) 0L b

(* the text a basic-typed leaf has in JSON; None for the types whose content is C17's business *)
type rendering = RStr of ostring | RNum of ostring | RBool of bool | ROther | RAbsent

let render rfc it =
  let wide = (match it.opts with w :: _ -> w > 32 | [] -> false) in
  match it.ty with
  | 0 -> RAbsent
  | 1 -> RStr it.bytes
  | 2 ->
    let v = int64_of_bytes it.bytes in
    let v = (match it.opts with _ :: 1 :: _ -> Int64.neg v | _ -> v) in
    if rfc && wide then RStr (Printf.sprintf "%Ld" v) else RNum (Printf.sprintf "%Ld" v)
  | 3 -> let v = int64_of_bytes it.bytes in if rfc && wide then RStr (Printf.sprintf "%Lu" v) else RNum (Printf.sprintf "%Lu" v)
  | 4 -> RBool (String.length it.bytes > 0 && it.bytes.[0] = '\001')
  | 5 when rfc ->
    (* digits * 10^-precision written exactly: sign, at least one integer digit, precision fraction digits *)
    (match it.opts with
     | [] -> RStr "0"
     | p :: rest ->
       let prec = p land 255 in
       let d = int64_of_bytes it.bytes in
       let d = (match rest with 1 :: _ -> Int64.neg d | _ -> d) in
       if prec = 0 then RStr (Printf.sprintf "%Ld" d)
       else begin
         let neg = Int64.compare d 0L < 0 in
         let mag = Printf.sprintf "%Lu" (if neg then Int64.neg d else d) in
         let mag = if String.length mag <= prec then String.make (prec + 1 - String.length mag) '0' ^ mag else mag in
         let k = String.length mag - prec in
         RStr ((if neg then "-" else "") ^ String.sub mag 0 k ^ "." ^ String.sub mag k prec)
       end)
  | t when t >= 15 -> RStr (Printf.sprintf "unexpected %d" t)
  | _ -> ROther

let scalar_text = function JStr s -> Some s | JNum t -> Some t | JBool b -> Some (if b then "true" else "false") | _ -> None

let rec count_leaves = function
  | JObj o -> List.fold_left (fun a (_, v) -> a + count_leaves v) 0 o
  | JArr l when l <> [] && List.for_all (function JObj _ -> true | _ -> false) l -> List.fold_left (fun a v -> a + count_leaves v) 0 l
  | _ -> 1

type elem = ostring * (ostring * ostring) list

let show_elems (es : elem list) =
  String.concat "" (List.map (fun (n, ks) -> "/" ^ n ^ String.concat "" (List.map (fun (k, v) -> "[" ^ k ^ "=" ^ v ^ "]") ks)) es)

exception Viol of ostring * ostring

(* descend to the object that holds the last element of the path; entries are identified by their full key sets *)
let rec locate (nonbasic : elem list list) (sofar : elem list) (j : json) (es : elem list) : json =
  match es with
  | [] -> j
  | (n, ks) :: rest ->
    let here = sofar @ [ (n, ks) ] in
    (match j with
     | JObj o ->
       (match List.assoc_opt n o with
        | None ->
          raise (Viol ((if List.exists (fun nb -> is_prefix nb here) nonbasic then "c18_nonbasic_key_leaf_split" else "c18_leaf_missing"),
                       Printf.sprintf "%s is not in the document" (show_elems here)))
        | Some v ->
          if ks = [] then locate nonbasic here v rest
          else
            (match v with
             | JArr l ->
               let matches =
                 List.filter
                   (function
                     | JObj eo -> List.for_all (fun (k, kv) -> match List.assoc_opt k eo with Some s -> scalar_text s = Some kv | None -> false) ks
                     | _ -> false)
                   l in
               (match matches with
                | [ e ] -> locate nonbasic here e rest
                | [] ->
                  raise (Viol ((if List.exists (fun nb -> is_prefix nb here) nonbasic then "c18_nonbasic_key_leaf_split" else "c18_entry_missing"),
                               Printf.sprintf "no entry %s in the document" (show_elems here)))
                | _ ->
                  raise (Viol ((if List.exists (fun nb -> is_prefix nb here) nonbasic then "c18_nonbasic_key_leaf_split" else "c18_entry_split"),
                               Printf.sprintf "entry %s appears %d times in the document" (show_elems here) (List.length matches))))
             | _ -> raise (Viol ("c18_leaf_missing", Printf.sprintf "%s is not a list in the document" (show_elems here)))))
     | _ -> raise (Viol ("c18_leaf_missing", Printf.sprintf "%s: parent is not a container" (show_elems here))))

let rec firstn n l = if n = 0 then [] else match l with [] -> [] | x :: r -> x :: firstn (n - 1) r

(* Some reason when the set is outside the domain the property speaks about (then only model = implementation is checked) *)
let ill_formed rfc (live : (item * elem list) list) : ostring option =
  let paths = List.map (fun (it, _) -> it.path) live in
  if List.length (List.sort_uniq compare paths) <> List.length paths then Some "duplicate-paths"
  else if List.exists (fun (_, es) -> es = [] || snd (List.nth es (List.length es - 1)) <> []) live then Some "leaf-element-with-keys"
  else if List.exists (fun (_, es) -> List.exists (fun (_, ks) -> let names = List.map fst ks in List.sort_uniq compare names <> names) es) live then Some "noncanonical-keys"
  else begin
    (* member kinds under every parent: leaf / container / list(with key names) must be consistent *)
    let tbl : (elem list * ostring, ostring) Hashtbl.t = Hashtbl.create 64 in
    let bad = ref None in
    let note parent name kind =
      match Hashtbl.find_opt tbl (parent, name) with
      | None -> Hashtbl.replace tbl (parent, name) kind
      | Some k -> if k <> kind || kind = "leaf" then bad := Some ("conflicting-use-of-" ^ name) in
    List.iter
      (fun (_, es) ->
        let n = List.length es in
        List.iteri
          (fun i (nm, ks) ->
            let parent = firstn i es in
            if i = n - 1 then begin
              (* a leaf named like a key of its entry is the explicit key leaf: allowed *)
              let is_key = i > 0 && List.mem_assoc nm (snd (List.nth es (i - 1))) in
              if not is_key then note parent nm "leaf"
            end
            else begin
              if i > 0 && List.mem_assoc nm (snd (List.nth es (i - 1))) then bad := Some ("key-name-used-as-container-" ^ nm);
              if ks = [] then note parent nm "container" else note parent nm ("list:" ^ String.concat "," (List.map fst ks))
            end)
          es)
      live;
    (* same list (same parent by names) must use one key-name set: compare by names only *)
    let tbl2 : (ostring list, ostring) Hashtbl.t = Hashtbl.create 64 in
    List.iter
      (fun (_, es) ->
        List.iteri
          (fun i (nm, ks) ->
            if ks <> [] then begin
              let sp = List.map fst (firstn i es) @ [ nm ] and kn = String.concat "," (List.map fst ks) in
              match Hashtbl.find_opt tbl2 sp with
              | None -> Hashtbl.replace tbl2 sp kn
              | Some k -> if k <> kn then bad := Some "mixed-key-names"
            end)
          es)
      live;
    (* explicit key leaves must say what the path says *)
    List.iter
      (fun (it, es) ->
        let n = List.length es in
        if n >= 2 then
          let (nm, _) = List.nth es (n - 1) and (_, pk) = List.nth es (n - 2) in
          match List.assoc_opt nm pk with
          | Some kv ->
            (match render rfc it with
             | RStr s | RNum s -> if s <> kv then bad := Some "key-leaf-differs"
             | RBool b -> if (if b then "true" else "false") <> kv then bad := Some "key-leaf-differs"
             | ROther -> if !bad = None then bad := Some "nonbasic-key-leaf"
             | RAbsent -> ())
          | None -> ())
      live;
    !bad
  end

let monitor_build id stream rfc (inp : item list) (doc : json) =
  let parsed = List.map (fun it -> (it, sane_elems it.path)) inp in
  if List.exists (fun (_, e) -> e = None) parsed then (stat "build.monitor.skipped:unsound-paths"; if stream = "clean" then mismatch id "generator contract: clean stream with an unsound path")
  else begin
    let parsed = List.map (fun (it, e) -> (it, match e with Some e -> e | None -> [])) parsed in
    let tombs = List.filter (fun (it, _) -> it.del) parsed in
    let live = List.filter (fun (it, e) -> (not it.del) && not (List.exists (fun (_, d) -> below_elems e d) tombs)) parsed in
    let wf = ill_formed rfc live in
    match wf with
    | Some why when why <> "nonbasic-key-leaf" ->
      stat ("build.monitor.skipped:" ^ why);
      if stream = "clean" then mismatch id ("generator contract: clean stream outside the domain: " ^ why)
    | _ ->
      stat (if wf = None then "build.monitor" else "build.monitor.nonbasic-key-leaf");
      (* the hypothesis of C18_build_render / C18_flatten_build, evaluated by the extracted predicate: every set
         the independent check accepts must be inside the theorems' domain *)
      if wf = None then begin
        if wf_set rfc (List.map to_pv inp) then stat "build.in-theorem-domain"
        else mismatch id (Printf.sprintf "a well-formed sorted canonical set is outside wf_set (the domain of C18_build_render): [%s]" (show_items inp))
      end;
      (* entries whose explicit key leaf has a non-basic JSON type (shape of the known finding) *)
      let nonbasic =
        List.filter_map
          (fun (it, es) ->
            let n = List.length es in
            if n >= 2 && List.mem_assoc (fst (List.nth es (n - 1))) (snd (List.nth es (n - 2))) && render rfc it = ROther then Some (firstn (n - 1) es)
            else None)
          live in
      let under_nonbasic es = List.exists (fun nb -> is_prefix nb es) nonbasic in
      (* expected leaves: the live leaves, then the key leaves implied by the paths (an explicit key leaf wins) *)
      let explicit = List.filter_map (fun (it, es) -> if render rfc it = RAbsent then None else Some (es, Some it)) live in
      let implied =
        List.concat_map
          (fun (_, es) ->
            List.concat
              (List.mapi
                 (fun i (_, ks) -> if i = List.length es - 1 then [] else List.map (fun (k, v) -> (firstn (i + 1) es @ [ (k, []) ], v)) ks)
                 es))
          live in
      let implied = List.sort_uniq compare implied in
      let implied = List.filter (fun (es, _) -> not (List.exists (fun (e2, _) -> e2 = es) explicit)) implied in
      (try
         List.iter
           (fun (es, it) ->
             (* anything wrong beneath an entry with a non-basic explicit key leaf has the shape of the known finding *)
             try
             let it = (match it with Some it -> it | None -> assert false) in
             let n = List.length es in
             let holder = locate nonbasic [] doc (firstn (n - 1) es) in
             let nm = fst (List.nth es (n - 1)) in
             match holder with
             | JObj o ->
               (match List.assoc_opt nm o with
                | None -> raise (Viol ((if under_nonbasic es then "c18_nonbasic_key_leaf_split" else "c18_leaf_missing"), Printf.sprintf "live leaf %s is not in the document" (show_elems es)))
                | Some v ->
                  let ok = (match render rfc it, v with
                      | RStr s, JStr t -> s = t
                      | RNum s, JNum t -> s = t
                      | RBool b, JBool c -> b = c
                      | ROther, (JStr _ | JNum _ | JArr _ | JNull) -> true
                      | _ -> false) in
                  if not ok then raise (Viol ("c18_leaf_value_wrong", Printf.sprintf "leaf %s" (show_elems es))))
             | _ -> raise (Viol ("c18_leaf_missing", show_elems es))
             with Viol (_, d) when under_nonbasic es -> raise (Viol ("c18_nonbasic_key_leaf_split", d)))
           explicit;
         List.iter
           (fun (es, v) ->
             try
             let n = List.length es in
             let holder = locate nonbasic [] doc (firstn (n - 1) es) in
             match holder with
             | JObj o ->
               (match List.assoc_opt (fst (List.nth es (n - 1))) o with
                | Some (JStr t) when t = v -> ()
                | _ -> raise (Viol ("c18_key_leaf_missing", Printf.sprintf "key leaf %s = %S" (show_elems es) v)))
             | _ -> raise (Viol ("c18_key_leaf_missing", show_elems es))
             with Viol (_, d) when under_nonbasic es -> raise (Viol ("c18_nonbasic_key_leaf_split", d)))
           implied;
         let want = List.length explicit + List.length implied and have = count_leaves doc in
         if have > want then
           raise (Viol ((if nonbasic <> [] then "c18_nonbasic_key_leaf_split" else "c18_extra_leaves"), Printf.sprintf "the document has %d leaves, the live set accounts for %d" have want));
         if have < want then raise (Viol ((if nonbasic <> [] then "c18_nonbasic_key_leaf_split" else "c18_leaves_merged"), Printf.sprintf "the document has %d leaves, the live set has %d" have want))
       with Viol (sg, d) ->
         specviol id sg (Printf.sprintf "rfc7951=%b %s; input=[%s]" rfc d (show_items inp)))
  end

(* ------------------------------------------------------------------ main loop *)
let show_outcome = function Ok _ -> "ok" | Err -> "err" | Panic -> "panic"

let () =
  each_line (function
    | [ "tree.build"; id; stream; ver; rfc; its; outcome; js ] ->
      stat ("build." ^ stream); stat ("build.v" ^ ver); stat ("build.outcome." ^ outcome);
      let inp = parse_items its in
      let rfc = rfc = "1" in
      seen_distinct ("b" ^ its ^ (if rfc then "1" else "0"));
      statn "build.paths" (List.length inp);
      let m = build_tree rfc (List.map to_pv inp) in
      if show_outcome m <> outcome then mismatch id (Printf.sprintf "BuildTree v%s rfc=%b outcome: model %s impl %s; input=[%s]" ver rfc (show_outcome m) outcome (show_items inp))
      else begin
        match m with
        | Ok t ->
          let doc = parse_json (unhexs js) in
          (match diff "" t doc with
           | Some d -> mismatch id (Printf.sprintf "BuildTree v%s rfc=%b document: %s; input=[%s]" ver rfc d (show_items inp))
           | None -> ());
          monitor_build id stream rfc inp doc;
          if stream = "clean" then sample (Printf.sprintf "BuildTree v%s rfc=%b [%s] -> %d leaves" ver rfc (show_items inp) (count_leaves doc))
        | _ -> ()
      end
    | [ ("tree.prune" | "tree.prunemap") as dom; id; stream; ver; leave; its; outs ] ->
      stat (dom ^ "." ^ stream); stat ("prune.v" ^ ver);
      let inp = parse_items its and outp = parse_items outs in
      let leave = leave = "1" in
      seen_distinct ("p" ^ its ^ (if leave then "1" else "0"));
      if List.exists (fun it -> it.del) inp then stat "prune.with-tombstones";
      let m = List.map of_pv ((if dom = "tree.prune" then prune else prune_map) leave (List.map to_pv inp)) in
      (* sort.Slice is not stable: elements with equal paths may come in any order *)
      let canon l = List.stable_sort (fun a b -> compare a.path b.path) (List.sort compare l) in
      if List.map (fun x -> x.path) m <> List.map (fun x -> x.path) outp || canon m <> canon outp then
        mismatch id (Printf.sprintf "%s v%s leaveTop=%b: model [%s] impl [%s]; input=[%s]" dom ver leave (show_items m) (show_items outp) (show_items inp));
      monitor_prune id leave inp outp
    | [ "path.split"; id; p; elems ] ->
      stat "path.split";
      seen_distinct ("s" ^ p);
      let m = split_path (unhex p) in
      if hex_list m <> elems && not (m = [] && elems = ".") then mismatch id (Printf.sprintf "SplitPath %S: model %s impl %s" (unhexs p) (hex_list m) elems)
    | [ "path.below"; id; p; a; r ] ->
      stat "path.below";
      seen_distinct ("w" ^ p ^ "|" ^ a);
      let m = is_path_below (unhex p) (unhex a) in
      if m <> (r = "1") then mismatch id (Printf.sprintf "IsPathBelow(%S, %S): model %b impl %s" (unhexs p) (unhexs a) m r);
      (* the element-wise relation, on sane paths *)
      (match sane_elems (unhexs p), sane_elems (unhexs a) with
       | Some ep, Some ea ->
         stat "path.below.monitor";
         if below_elems ep ea <> (r = "1") then specviol id "c18_below_not_element_wise" (Printf.sprintf "IsPathBelow(%S, %S) = %s" (unhexs p) (unhexs a) r)
       | _ -> ())
    | _ -> stat "ignored")

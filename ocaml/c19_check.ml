(* C19 driver: replays the harness observations of the real Server.Subscribe (scripted stream,
   recording per-target clients) on the extracted model (Model/Subscribe.v) and evaluates the
   property - stated here directly on the textual observation, independently of the model - on
   what the implementation did.  Line format: see harness/cmd/c19/main.go. *)
open Model
open Mlib

let split c s = String.split_on_char c s

(* ------------------------------------------------------------------ native (string) view *)
type nreq = { ext : string; prefix : string list option (* target origin elems element *);
              opts : string; entries : (string * string) list (* path target, entry bytes *) }
type nstep = NS of nreq | NP | NN | ND of string * string * string (* target, r|o, payload *)

let parse_nreq d =
  match split '=' d with
  | [ ext; p; o; es ] ->
    { ext; prefix = (if p = "~" then None else Some (split '.' p)); opts = o;
      entries = (if es = "_" then [] else List.map (fun e -> match split '/' e with [ t; b ] -> (t, b) | _ -> failwith ("entry " ^ e)) (split ',' es)) }
  | _ -> failwith ("request " ^ d)

let parse_nstep s =
  if s = "P" then NP else if s = "N" then NN
  else if String.length s > 2 && String.sub s 0 2 = "S:" then NS (parse_nreq (String.sub s 2 (String.length s - 2)))
  else match split ':' s with
    | [ "D"; t; k; p ] -> ND (t, k, p)
    | _ -> failwith ("step " ^ s)

let parse_script s = if s = "_" then [] else List.map parse_nstep (split ';' s)

type nev = EvP | EvS of string * string * string (* query target, flags, request text *)
let parse_fwd s : (string * nev list) list =
  if s = "_" then [] else
    List.map (fun rec_ ->
        (* T:<target>:<events> - events contain no ':' *)
        match split ':' rec_ with
        | [ "T"; t; evs ] ->
          (t, List.map (fun e -> if e = "p" then EvP else match split '!' e with
               | [ "s"; qt; fl; d ] -> EvS (qt, fl, d)
               | _ -> failwith ("event " ^ e)) (split '|' evs))
        | _ -> failwith ("forwarded " ^ rec_)) (split ';' s)

let parse_rel s : (string * string * string) list =
  if s = "_" then [] else List.map (fun e -> match split '/' e with [ t; k; p ] -> (t, k, p) | _ -> failwith ("relayed " ^ e)) (split ',' s)

(* ------------------------------------------------------------------ model view *)
let m_prefix = function
  | None -> None
  | Some [ t; o; el; elt ] -> Some { p_target = unhex t; p_origin = unhex o; p_elems = unhex el; p_element = unhex elt }
  | Some _ -> failwith "prefix"

let m_opts s = match split '.' s with
  | [ q; m; a; um; e; u ] ->
    { o_qos = (if q = "~" then None else Some (unhex (String.sub q 1 (String.length q - 1))));
      o_mode = n_of_int (int_of_string m); o_allow = a = "1"; o_models = unhex um;
      o_enc = n_of_int (int_of_string e); o_upd = u = "1" }
  | _ -> failwith ("opts " ^ s)

let m_req (r : nreq) : subreq =
  { r_list = { l_prefix = m_prefix r.prefix;
               l_subs = List.map (fun (t, b) -> { e_target = unhex t; e_body = unhex b }) r.entries;
               l_opts = m_opts r.opts };
    r_ext = unhex r.ext }

let m_step = function
  | NS r -> SMsg (MSub (m_req r))
  | NP -> SMsg MPoll
  | NN -> SMsg MNone
  | ND (t, "r", p) -> SDev (unhex t, DResp (unhex p))
  | ND (t, _, _) -> SDev (unhex t, DOther)

let m_ev t = function
  | EvP -> OPoll (unhex t)
  | EvS (qt, _, d) -> OSub (unhex t, unhex qt, m_req (parse_nreq d))

let m_rel (t, k, p) = if k = "r" then OSend (unhex t, unhex p) else ORelayErr (unhex t)

(* ------------------------------------------------------------------ the property, directly *)
let ptarget (r : nreq) = match r.prefix with Some (t :: _) -> t | _ -> "-"
let pfield (r : nreq) i = match r.prefix with Some l -> List.nth l i | None -> "-"

(* targets named by a request, in first-occurrence order: the prefix target for everything if set,
   otherwise the target of each entry's own path *)
let named_targets (r : nreq) =
  if ptarget r <> "-" then [ ptarget r ]
  else List.fold_left (fun acc (t, _) -> if t = "-" || List.mem t acc then acc else acc @ [ t ]) [] r.entries

let entries_naming (r : nreq) t =
  if ptarget r <> "-" then (if ptarget r = t then r.entries else [])
  else List.filter (fun (et, _) -> et = t && t <> "-") r.entries

let rec take n l = if n = 0 then [] else match l with [] -> [] | x :: r -> x :: take (n - 1) r

let monitors id known end_ script result fwd rel =
  (* walk the script as the property prescribes *)
  let subscribed = ref None and refused = ref false and polls = ref 0 and exp_rel = ref [] in
  List.iter (fun st ->
      if not !refused then
        match st with
        | NS r -> (match !subscribed with
            | Some _ -> refused := true
            | None -> if named_targets r = [] then refused := true else subscribed := Some r)
        | NP -> if !subscribed = None then refused := true else incr polls
        | NN -> refused := true
        | ND (t, k, p) ->
          (match !subscribed with
           | Some r when List.mem t (named_targets r) && List.mem t known ->
             exp_rel := (t, (if k = "r" then "r" else "e"), (if k = "r" then p else "-")) :: !exp_rel
           | _ -> ())) script;
  let exp_rel = List.rev !exp_rel in
  (* protocol *)
  if !refused && result <> "invalid" then
    specviol id "c19_not_refused" (Printf.sprintf "a message the property refuses was answered with %s" result);
  if (not !refused) && result = "invalid" then
    specviol id "c19_valid_refused" "a well-formed message sequence was refused";
  if result = "panic" then specviol id "c19_panic" "Subscribe panicked";
  if (not !refused) && result <> "invalid" && result <> "panic" && result <> (if end_ = "eof" then "eof" else "nil") then
    stat "note.unexpected_end_result";
  (* split + poll fan-out: per target, exactly [s; p^polls] for named known targets, nothing for others *)
  (match !subscribed with
   | None ->
     if fwd <> [] then specviol id "c19_foreign_target" "something was forwarded although no subscription was accepted"
   | Some r ->
     let named = named_targets r in
     List.iter (fun (t, evs) ->
         if not (List.mem t named) then
           specviol id "c19_foreign_target" (Printf.sprintf "target %s is not named by the request but received %d call(s)" t (List.length evs))) fwd;
     List.iter (fun t ->
         if List.mem t known then
           match List.assoc_opt t fwd with
           | None -> specviol id "c19_target_missed" (Printf.sprintf "target %s is named and connected but received nothing" t)
           | Some evs ->
             (match evs with
              | EvS (qt, fl, d) :: rest ->
                let o = parse_nreq d in
                if qt <> t || ptarget o <> t then
                  specviol id "c19_split_prefix_target" (Printf.sprintf "request handed to %s is addressed to query target %s / prefix target %s" t qt (ptarget o));
                if fl <> "ok" then mismatch id ("query handlers: " ^ fl);
                let want = entries_naming r t in
                if o.entries <> want then begin
                  let bodies l = List.map snd l in
                  let sig_ =
                    if List.sort compare (bodies o.entries) = List.sort compare (bodies want) then "c19_entry_order"
                    else if List.exists (fun b -> not (List.mem b (bodies r.entries))) (bodies o.entries) then "c19_entry_modified"
                    else if List.exists (fun b -> not (List.mem b (bodies want))) (bodies o.entries) then "c19_entry_to_wrong_target"
                    else "c19_entry_not_forwarded" in
                  specviol id sig_ (Printf.sprintf "target %s received %d entries, %d name it" t (List.length o.entries) (List.length want))
                end;
                if o.opts <> r.opts || o.ext <> r.ext then
                  specviol id "c19_split_options" (Printf.sprintf "target %s: list options / extensions differ from the subscriber's (%s | %s vs %s | %s)" t o.opts o.ext r.opts r.ext);
                if o.prefix = None || pfield o 1 <> pfield r 1 || pfield o 2 <> pfield r 2 then
                  specviol id "c19_split_prefix" (Printf.sprintf "target %s: prefix origin/elems differ from the subscriber's" t);
                if ptarget r <> "-" && (o.prefix <> r.prefix) then
                  specviol id "c19_split_prefix" (Printf.sprintf "target %s: single-target request was not passed on unmodified" t);
                if rest <> List.init !polls (fun _ -> EvP) then
                  specviol id "c19_poll_fanout" (Printf.sprintf "target %s: %d accepted poll(s) on the stream, calls after the subscription: %d (or a second subscription)" t !polls (List.length rest))
              | _ -> specviol id "c19_target_missed" (Printf.sprintf "target %s was polled without having received the subscription" t))) named);
  (* relay *)
  if rel <> exp_rel then begin
    let sig_ =
      if List.exists (fun (_, k, _) -> k = "x") rel then "c19_relay_handler"
      else if List.length rel <> List.length exp_rel then "c19_relay_lost_or_invented"
      else if List.map (fun (t, _, _) -> t) rel <> List.map (fun (t, _, _) -> t) exp_rel then "c19_relay_attribution"
      else "c19_relay_modified" in
    specviol id sig_ (Printf.sprintf "subscriber stream saw %d message(s), the subscribed targets sent %d" (List.length rel) (List.length exp_rel))
  end;
  (!subscribed, !refused, !polls)

let show_t t = if t = "-" then "\"\"" else Printf.sprintf "%S" (str_of (unhex t))

let () =
  each_line (function
    | [ "sub.run"; id; known; end_; script; result; fwd; rel ] ->
      stat "sub.run";
      let known_l = if known = "." then [] else split ',' known in
      let nscript = parse_script script in
      let nfwd = parse_fwd fwd and nrel = parse_rel rel in
      seen_distinct (known ^ end_ ^ script);
      (* 1. model vs implementation *)
      let mknown = List.map unhex known_l in
      let msteps = List.map m_step nscript in
      let (mobs, mres) = run mknown msteps (if end_ = "eof" then EndEOF else EndErr) in
      let mres_s = (match mres with RInvalid -> "invalid" | REof -> "eof" | RNil -> "nil") in
      if mres_s <> result then mismatch id (Printf.sprintf "Subscribe returned %s, model %s" result mres_s);
      let all_t = List.sort_uniq compare (known_l @ List.map fst nfwd) in
      List.iter (fun t ->
          let impl = (match List.assoc_opt t nfwd with Some evs -> List.map (m_ev t) evs | None -> []) in
          let m = fwd_to (unhex t) mobs in
          if impl <> m then mismatch id (Printf.sprintf "calls on the client of target %s: implementation %d, model %d, or contents differ" (show_t t) (List.length impl) (List.length m))) all_t;
      List.iter (fun o -> if is_fwd o && not (List.mem (hex_of (obs_target o)) all_t) then mismatch id "model forwards to a target without client") mobs;
      if List.map m_rel nrel <> relayed mobs || List.exists (fun (_, k, _) -> k = "x") nrel then
        mismatch id (Printf.sprintf "relayed sequence: implementation %d message(s), model %d, or contents differ" (List.length nrel) (List.length (relayed mobs)));
      (* 2. the property on the implementation's behaviour *)
      let (subd, refused, polls) = monitors id known_l end_ nscript result nfwd nrel in
      (* 3. statistics *)
      stat ("result." ^ result);
      let nm = List.length (List.filter (function ND _ -> false | _ -> true) nscript) in
      stat (Printf.sprintf "messages.%s" (if nm > 5 then "6+" else string_of_int nm));
      (match nscript with [] -> stat "first.none" | _ -> ());
      (match List.filter (function ND _ -> false | _ -> true) nscript with
       | NP :: _ -> stat "first.poll" | NN :: _ -> stat "first.neither" | NS _ :: _ -> stat "first.subscribe" | _ -> ());
      if List.length (List.filter (function NS _ -> true | _ -> false) nscript) > 1 then stat "has.second_subscribe";
      if refused then stat "refused" else stat "not_refused";
      if polls > 0 then stat "polls.accepted";
      if nrel <> [] then stat "relay.nonempty";
      if List.exists (fun (_, k, _) -> k = "e") nrel then stat "relay.foreign_message_refused";
      List.iter (function
          | NS r ->
            let nt = named_targets r in
            if ptarget r <> "-" then stat "subscribe.prefix_target"
            else if nt = [] then stat "subscribe.no_target"
            else stat (Printf.sprintf "subscribe.by_path.%d_targets" (List.length nt));
            if r.prefix = None then stat "subscribe.nil_prefix";
            if ptarget r = "-" && nt <> [] && List.exists (fun (t, _) -> t = "-") r.entries then stat "split.untargeted_entries_dropped";
            if ptarget r <> "-" && List.exists (fun (t, _) -> t <> "-" && t <> ptarget r) r.entries then stat "subscribe.prefix_target_overrides_path_target";
            if r.entries = [] then stat "subscribe.no_entries"
          | _ -> ()) nscript;
      (match subd with
       | Some r -> if List.exists (fun t -> not (List.mem t known_l)) (named_targets r) then stat "subscribe.names_unconnected_target(silently skipped)"
       | None -> ());
      (match subd with
       | Some r when polls > 0 && nrel <> [] ->
         sample (Printf.sprintf "known=%s named=%s entries=%d polls=%d relayed=%d -> %s; per target: %s"
                   (String.concat "," (List.map show_t known_l)) (String.concat "," (List.map show_t (named_targets r)))
                   (List.length r.entries) polls (List.length nrel) result
                   (String.concat " " (List.map (fun (t, evs) -> Printf.sprintf "%s:%d" (show_t t) (List.length evs)) nfwd)))
       | _ -> ())
    | _ -> stat "ignored")

(* C12 driver: replays the harness observations of the northbound handlers on the extracted panic
   skeleton (outcome class: response / status code / panic) and evaluates the property directly on
   the implementation's behaviour: no call panics, no request kills the process, and the stored
   configurations stay inside the domain on which Get / LeafSelectionQuery are proved panic-free. *)
open Model
open Mlib

(* ------------------------------------------------------------------ decoding *)
let split c s = String.split_on_char c s
let list_of c s = if s = "." then [] else split c s

(* decimal text -> extracted positive / N / Z (the values do not fit OCaml's int) *)
let bits_of_dec s : bool list =
  let d = Array.init (String.length s) (fun i -> Char.code s.[i] - 48) in
  let n = Array.length d in
  let nonzero () = Array.exists (fun x -> x <> 0) d in
  let bits = ref [] in
  while nonzero () do
    bits := (d.(n - 1) land 1 = 1) :: !bits;
    let carry = ref 0 in
    for i = 0 to n - 1 do
      let cur = !carry * 10 + d.(i) in
      d.(i) <- cur / 2;
      carry := cur mod 2
    done
  done;
  !bits (* most significant first *)

let pos_of_bits bits =
  match bits with
  | [] -> None
  | _ :: rest -> Some (List.fold_left (fun acc b -> if b then XI acc else XO acc) XH rest)

let n_of_dec s = match pos_of_bits (bits_of_dec s) with None -> N0 | Some p -> Npos p
let z_of_dec s =
  if String.length s > 0 && s.[0] = '-' then
    (match pos_of_bits (bits_of_dec (String.sub s 1 (String.length s - 1))) with None -> Z0 | Some p -> Zneg p)
  else (match pos_of_bits (bits_of_dec s) with None -> Z0 | Some p -> Zpos p)

let after s = String.sub s 1 (String.length s - 1)

let dec_elem s =
  match split '~' s with
  | [] -> None
  | nm :: keys ->
    Some { e_name = unhex nm;
           e_keys = List.map (fun kv -> match split '=' kv with [k; v] -> (unhex k, unhex v) | _ -> failwith "key") keys }

let dec_path s : gpath option =
  if s = "N" then None
  else match split '/' (after s) with
    | [t; es; els] ->
      Some { p_target = unhex t; p_elem = List.map dec_elem (list_of '+' es); p_element = List.map unhex (list_of '+' els) }
    | _ -> failwith ("path " ^ s)

let dec_scalar s : scalar option =
  if s = "N" then None
  else Some (match s.[0] with
      | 's' -> SStr (unhex (after s))
      | 'a' -> SAscii (unhex (after s))
      | 'i' -> SInt (z_of_dec (after s))
      | 'u' -> SUint (n_of_dec (after s))
      | 'b' -> SBool (s = "b1")
      | 'y' -> SBytes (unhex (after s))
      | 'd' -> if s = "dN" then SDecimal None
        else (match split '_' (after s) with [d; p] -> SDecimal (Some (z_of_dec d, n_of_dec p)) | _ -> failwith "decimal")
      | 'f' -> SFloat (s = "fn")
      | _ -> SOther)

let dec_val s : tval option =
  if s = "N" then None
  else match s.[0] with
    | 'j' -> Some (TJson (unhex (after s)))
    | 'l' -> Some (TLeaflist (List.map dec_scalar (list_of '+' (after s))))
    | _ -> (match dec_scalar s with Some x -> Some (TScalar x) | None -> None)

let dec_plugin s =
  if s = "-" then PPaths []
  else match s.[0] with
    | 'E' -> PErr (n_of_dec (after s))
    | _ -> PPaths (List.map unhex (list_of '+' (after s)))

let dec_update s : update option =
  match split '@' s with
  | [p; v; pl] -> Some { u_path = dec_path p; u_val = dec_val v; u_plugin = dec_plugin pl }
  | _ -> failwith ("update " ^ s)

let dec_ext s : extension =
  if s = "x" then EOther
  else if s = "rN" then ERegistered None
  else match split ':' (after s) with
    | [id; pl] ->
      let payload =
        if pl = "B" || pl = "U" then XBad
        else if pl = "S0" then XStrategy false
        else if pl = "S1" then XStrategy true
        else if pl.[0] = 'O' then
          XOverrides (List.map (fun e -> match split '=' e with
              | [k; "N"] -> (unhex k, None)
              | [k; tv] -> (match split '~' tv with [t; v] -> (unhex k, Some (unhex t, unhex v)) | _ -> failwith "ov")
              | _ -> failwith "ov") (list_of '+' (after pl)))
        else XBad in
      ERegistered (Some (n_of_dec id, payload))
    | _ -> failwith ("ext " ^ s)

let dec_set s : set_req =
  match split '|' s with
  | [pf; d; rp; up; ex] ->
    { s_prefix = dec_path pf; s_delete = List.map dec_path (list_of ',' d);
      s_replace = List.map dec_update (list_of ',' rp); s_update = List.map dec_update (list_of ',' up);
      s_ext = List.map dec_ext (list_of ',' ex) }
  | _ -> failwith "set"

let dec_get s : get_req =
  match split '|' s with
  | [pf; ps; enc; ty; ex] ->
    { g_prefix = dec_path pf; g_path = List.map dec_path (list_of ',' ps);
      g_encoding = (if String.length enc > 0 && enc.[0] = '-' then n_of_int 99 else n_of_dec enc);
      g_type = (if String.length ty > 0 && ty.[0] = '-' then n_of_int 99 else n_of_dec ty);
      g_ext = List.map dec_ext (list_of ',' ex) }
  | _ -> failwith "get"

let dec_sub s : sub_msg =
  if s = "P" then MPoll
  else if s = "X" then MOther
  else match split '@' (after s) with
    | [pf; ps] -> MSubscribe (dec_path pf, List.map dec_path (list_of ';' ps))
    | _ -> failwith "sub"

let dec_lsq s : lsq_req =
  match split '!' s with
  | [t; ty; v; cx] -> { l_target = unhex t; l_type = unhex ty; l_version = unhex v; l_ctx = (if cx = "N" then None else Some (dec_set cx)) }
  | _ -> failwith "lsq"

let dec_env limit tgs pls : env =
  { en_size_limit = n_of_dec limit;
    en_topo = List.map (fun t -> match split ':' t with [i; ty; v] -> { tg_id = unhex i; tg_type = unhex ty; tg_version = unhex v } | _ -> failwith "tg") (list_of ',' tgs);
    en_plugins = List.map (fun p -> match split ':' p with
        | [ty; v; rw] -> { pl_type = unhex ty; pl_version = unhex v;
                           pl_rw = List.map (fun r -> match split '~' r with
                               | [p; k; a; o] -> { rw_path = unhex p; rw_iskey = (k = "1"); rw_attr = unhex a; rw_opts = List.map n_of_dec (list_of '+' o) }
                               | _ -> failwith "rw") (list_of ',' rw) }
        | _ -> failwith "pl") (list_of ';' pls) }

let dec_state s : state =
  List.map (fun c -> match split ':' c with
      | [cid; vals] ->
        { cf_id = unhex cid;
          cf_values = List.map (fun x -> match split '~' x with
              | [p; d; vt; bl; opts] ->
                { sv_path = unhex p; sv_deleted = (d = "1");
                  sv_val = { nv_type = n_of_dec vt; nv_blen = n_of_dec bl; nv_opts = List.map z_of_dec (list_of '+' opts); nv_str = None } }
              | _ -> failwith "stored") (list_of ',' vals) }
      | _ -> failwith "cfg") (list_of ';' s)

(* ------------------------------------------------------------------ comparison *)
let cur_env = ref { en_topo = []; en_plugins = []; en_size_limit = N0 }
let cur_state : state ref = ref []

let show_outcome = function
  | Ok true -> "response"
  | Ok false -> "response-or-backend-status"
  | Err c -> "status:" ^ string_of_int (int_of_n c)
  | Panic w -> "panic:" ^ string_of_int (int_of_n w)

let is_panic_obs obs = String.length obs >= 6 && String.sub obs 0 6 = "panic:"
let obs_code obs = if is_panic_obs obs then -1 else int_of_string (String.sub obs 5 (String.length obs - 5))
let panic_text obs = str_of (unhex (String.sub obs 6 (String.length obs - 6)))

(* model vs implementation, outcome classes *)
let compare_outcome id what m obs =
  stat ("model." ^ (match m with Ok _ -> "ok" | Err _ -> "status" | Panic _ -> "panic"));
  match m with
  | Panic _ -> if not (is_panic_obs obs) then mismatch id (Printf.sprintf "%s: model %s, implementation %s" what (show_outcome m) obs)
  | _ when is_panic_obs obs -> mismatch id (Printf.sprintf "%s: model %s, implementation panicked: %s" what (show_outcome m) (panic_text obs))
  | Ok true -> if obs_code obs <> 0 then mismatch id (Printf.sprintf "%s: model %s, implementation %s" what (show_outcome m) obs)
  | Ok false -> ()
  | Err c ->
    let c = int_of_n c in
    if obs_code obs = 0 || (c <> 0 && obs_code obs <> c) then mismatch id (Printf.sprintf "%s: model %s, implementation %s" what (show_outcome m) obs)

(* the property on the implementation: the call is answered, never a panic.  The signature names the
   entry point and, for the two repaired defects, the exact request shape *)
let uses_nil_override exts targets =
  List.exists (function
      | ERegistered (Some (_, XOverrides m)) -> List.exists (fun (k, v) -> v = None && List.mem k targets) m
      | _ -> false) exts

let set_targets (r : set_req) =
  let pt = match r.s_prefix with Some p -> p.p_target | None -> [] in
  let of_path = function Some p -> p.p_target | None -> [] in
  let ts = List.map of_path r.s_delete
           @ List.map (function Some u -> of_path u.u_path | None -> []) (r.s_replace @ r.s_update) in
  List.map (fun t -> if pt <> [] then pt else t) ts

(* fixes/C12-3: a decimal with precision >= 64 makes onos-api's strDecimal64 divide by zero *)
let is_div_zero obs = is_panic_obs obs && (try ignore (Str.search_forward (Str.regexp_string "divide by zero") (panic_text obs) 0); true with Not_found -> false)

let monitor_panic id handler obs narrow =
  let narrow = if is_div_zero obs then Some "c12_decimal_precision_divide_by_zero" else narrow in
  if is_panic_obs obs then begin
    stat ("panic." ^ handler);
    specviol id (match narrow with Some s -> s | None -> "c12_panic_" ^ handler)
      (Printf.sprintf "%s panicked: %s" handler (panic_text obs))
  end

let () =
  each_line (function
    | [ "c12.env"; _; limit; tgs; pls ] -> cur_env := dec_env limit tgs pls; stat "env"
    | [ "c12.state"; id; s ] ->
      stat "state";
      cur_state := dec_state s;
      let nvals = List.fold_left (fun a c -> a + List.length c.cf_values) 0 !cur_state in
      statn "state.values" nvals;
      (* invariant monitor: every live stored entry is inside the proved domain of Get / LeafSelectionQuery *)
      List.iter (fun c -> List.iter (fun v ->
          if not (stored_ok v) then
            specviol id "c12_state_unsafe" (Printf.sprintf "stored path %S of target %S would panic the tree builder / value accessors"
                                              (str_of v.sv_path) (str_of c.cf_id))) c.cf_values) !cur_state
    | [ "c12.set"; id; wire; enc; obs; delta ] ->
      stat "set";
      let r = dec_set enc in
      seen_distinct ("s" ^ enc);
      if not (set_wire_ok r) then mismatch id "decoded SetRequest violates the wire-decodability predicate";
      let m = set_handler !cur_env r in
      compare_outcome id "Set" m obs;
      (match m with
       | Ok _ -> if delta <> "1" && not (is_panic_obs obs) then mismatch id ("Set: model accepts, implementation logged " ^ delta ^ " transactions (" ^ obs ^ ")")
       | Err _ -> if delta <> "0" then mismatch id ("Set: model refuses, implementation logged " ^ delta ^ " transactions")
       | Panic _ -> ());
      stat ("set." ^ (if is_panic_obs obs then "panic" else "code" ^ string_of_int (obs_code obs)));
      monitor_panic id "set" obs (if uses_nil_override r.s_ext (set_targets r) then Some "c12_nil_override_entry" else None);
      if delta = "1" then sample (Printf.sprintf "Set %s -> %s (transaction logged)" (if String.length wire > 60 then String.sub wire 0 60 ^ ".." else wire) obs)
    | [ "c12.get"; id; wire; enc; obs ] ->
      stat "get";
      let r = dec_get enc in
      seen_distinct ("g" ^ enc ^ string_of_int (Hashtbl.hash !cur_state));
      if not (get_wire_ok r) then mismatch id "decoded GetRequest violates the wire-decodability predicate";
      if List.for_all (fun c -> c.cf_values = []) !cur_state then stat "get.no-values-stored-anywhere" else stat "get.some-configuration-populated";
      let m = get_handler !cur_env !cur_state r in
      compare_outcome id "Get" m obs;
      stat ("get." ^ (if is_panic_obs obs then "panic" else "code" ^ string_of_int (obs_code obs)));
      let tgts = (match r.g_prefix with Some p -> [p.p_target] | None -> []) @ List.map (function Some p -> p.p_target | None -> []) r.g_path in
      monitor_panic id "get" obs (if uses_nil_override r.g_ext tgts then Some "c12_nil_override_entry" else None);
      if obs = "code:0" then sample (Printf.sprintf "Get %s -> response" (if String.length wire > 60 then String.sub wire 0 60 ^ ".." else wire))
    | [ "c12.sub"; id; _; encs; obs ] ->
      stat "subscribe";
      let ms = List.map dec_sub (list_of ',' encs) in
      seen_distinct ("u" ^ encs);
      compare_outcome id "Subscribe" (subscribe_handler false ms) obs;
      monitor_panic id "subscribe" obs None
    | [ "c12.lsq"; id; _; enc; obs ] ->
      stat "leafselection";
      let r = dec_lsq enc in
      seen_distinct ("l" ^ enc ^ string_of_int (Hashtbl.hash !cur_state));
      if not (lsq_wire_ok r) then mismatch id "decoded LeafSelectionQueryRequest violates the wire-decodability predicate";
      (* server state addressed by the query: configuration absent / present but empty / populated *)
      let cid = str_of r.l_target ^ "-" ^ str_of r.l_type ^ "-" ^ str_of r.l_version in
      let has_merge = (match r.l_ctx with Some cx -> cx.s_update <> [] || cx.s_replace <> [] | None -> false) in
      (match List.find_opt (fun c -> str_of c.cf_id = cid) !cur_state with
       | None -> stat "lsq.configuration-absent"
       | Some c when c.cf_values = [] -> stat (if has_merge then "lsq.configuration-empty.with-updates" else "lsq.configuration-empty")
       | Some _ -> stat (if has_merge then "lsq.configuration-populated.with-updates" else "lsq.configuration-populated"));
      compare_outcome id "LeafSelectionQuery" (lsq_handler !cur_env !cur_state r) obs;
      stat ("lsq." ^ (if is_panic_obs obs then "panic" else "code" ^ string_of_int (obs_code obs)));
      monitor_panic id "leafselection" obs None
    | [ "c12.misc"; id; name; wire; obs ] ->
      stat ("misc." ^ name);
      seen_distinct ("m" ^ name ^ wire);
      let m = (match name with
          | "capabilities" -> capabilities_handler
          | "listmodels" -> list_models_handler
          | "rollback" -> rollback_handler N0
          | _ -> admin_store_handler) in
      compare_outcome id name m obs;
      monitor_panic id name obs None
    | [ "c12.crash"; id; kind; wire; _; detail ] ->
      stat "process-crash";
      let txt = str_of (unhex detail) in
      let txt = if String.length txt > 300 then String.sub txt 0 300 else txt in
      (* fixes/C12-2: a Set whose delete path is not a valid path stored a nil change value *)
      let divz = (try ignore (Str.search_forward (Str.regexp_string "divide by zero") (str_of (unhex detail)) 0); true with Not_found -> false) in
      let narrow = (not divz) && kind = "set" && (try ignore (Str.search_forward (Str.regexp_string "reconcileInitialize") txt 0); true with Not_found ->
          (try ignore (Str.search_forward (Str.regexp_string "controller/v2/transaction") (str_of (unhex detail)) 0); true with Not_found -> false)) in
      specviol id (if divz then "c12_decimal_precision_divide_by_zero" else if narrow then "c12_invalid_delete_path_crashes_controller" else "c12_process_crash")
        (Printf.sprintf "the server process died while / after handling %s request %s: %s" kind
           (if String.length wire > 200 then String.sub wire 0 200 ^ ".." else wire) txt)
    | _ -> stat "ignored")

(* C20 driver: trace validation of the real v3 reconcilers against the extracted Proto3 model, and the Order /
   Consistency / blocking / termination monitors of Spec/Tla3.v evaluated on the implementation's own states and
   on the event history reconstructed from the implementation's record diffs.
   line: p3.step  id  scenario  label  result  device-requests  T=..  C=..  E=..  D=.. *)
open Model
open Mlib

let nat_of_int = Mnat.nat_of_int

(* every signature is reported (at most 60 times each): the frequent known shapes must not use up the global report limit *)
let sig_count : (string, int) Hashtbl.t = Hashtbl.create 16
let specviol id signature detail =
  let c = 1 + (try Hashtbl.find sig_count signature with Not_found -> 0) in
  Hashtbl.replace sig_count signature c;
  incr Mlib.nviol;
  stat ("viol:" ^ signature);
  if c <= 60 then Printf.printf "SPECVIOL\t%s\t%s\t%s\n" id signature detail
let n = n_of_int
let split c s = String.split_on_char c s
let starts p s = String.length s >= String.length p && String.sub s 0 (String.length p) = p
let drop k s = String.sub s k (String.length s - k)

(* "/a/b" -> [a; b]; element names are short lower-case words *)
let elem_id e = let r = ref 0 in String.iter (fun c -> r := !r * 27 + (Char.code c - 96)) e; n !r
let path_of s = List.map elem_id (List.filter (fun e -> e <> "") (split '/' s))
let rec elem_str i = if i = 0 then "" else elem_str (i / 27) ^ String.make 1 (Char.chr (96 + i mod 27))
let path_str p = String.concat "" (List.map (fun e -> "/" ^ elem_str (int_of_n e)) p)
let num s = if s = "-" || s = "" then 0 else int_of_string s
let id_of s = n (num (drop 1 s))            (* c1 -> 1 *)

let st_of = function 0 -> Pending | 1 -> InProgress | 2 -> Complete | 3 -> Aborted | 4 -> Canceled | _ -> Failed
let st_str = function Pending -> "Pending" | InProgress -> "InProgress" | Complete -> "Complete" | Aborted -> "Aborted"
                    | Canceled -> "Canceled" | Failed -> "Failed"

(* "5f7" -> (Failed, 8) ; "-" -> None *)
let phase_st s =
  if s = "-" then None
  else match split 'f' s with
    | [ a ] -> Some (st_of (num a), 0)
    | [ a; f ] -> Some (st_of (num a), num f + 1)
    | _ -> failwith ("phase status " ^ s)

(* "path:val:del:idx" possibly prefixed KEY(k) *)
let pv_of s =
  let key, body =
    if starts "KEY(" s then (let j = String.index s ')' in (Some (String.sub s 4 (j - 4)), drop (j + 1) s)) else (None, s) in
  match split ':' body with
  | [ p; v; d; i ] ->
    let pv = { pv_path = path_of p; pv_val = n (num v); pv_del = d = "1"; pv_idx = n (num i) } in
    ((match key with Some k -> path_of k | None -> pv.pv_path), pv)
  | _ -> failwith ("path value " ^ s)
let vals_of s = if s = "." then [] else List.map pv_of (split ',' s)

let cmp_kv (a, _) (b, _) = compare a b
let pv_str pv = Printf.sprintf "%s:%d:%b:%d" (path_str pv.pv_path) (int_of_n pv.pv_val) pv.pv_del (int_of_n pv.pv_idx)
let vals_str (m : vals) =
  String.concat "," (List.map (fun (k, pv) -> path_str k ^ "=" ^ pv_str pv) (List.sort cmp_kv m))

let tx_of s =
  match split '~' s with
  | [ h; v; rv ] ->
    (match split ',' h with
     | [ ph; cc; ca; cord; rc; ra; rord; ridx ] ->
       let cc', ccf = match phase_st cc with Some x -> x | None -> failwith "nil change commit" in
       let ca', caf = match phase_st ca with Some x -> x | None -> failwith "nil change apply" in
       let ra' = phase_st ra in
       { t_rb = ph = "1"; t_values = vals_of v; t_cc = cc'; t_ca = ca'; t_cord = n (num cord); t_ccfail = n ccf; t_cafail = n caf;
         t_rc = (match phase_st rc with Some (x, _) -> Some x | None -> None);
         t_ra = (match ra' with Some (x, _) -> Some x | None -> None);
         t_rord = n (num rord); t_ridx = n (num ridx); t_rvalues = vals_of rv;
         t_rafail = n (match ra' with Some (_, f) -> f | None -> 0) }
     | _ -> failwith ("tx head " ^ h))
  | _ -> failwith ("tx " ^ s)

let cursor_of s has_change =
  match List.map num (split ',' s) with
  | [ i; o; r; t; c ] when has_change -> ({ k_index = n i; k_ordinal = n o; k_revision = n r; k_target = n t; k_change = n c }, 0)
  | [ i; o; r; t; term ] -> ({ k_index = n i; k_ordinal = n o; k_revision = n r; k_target = n t; k_change = n 0 }, term)
  | _ -> failwith ("cursor " ^ s)

type obs = { world : world; getc : vals (* Committed.Values as returned by the store's Get *) }

let parse_obs t c e d : obs =
  let t = drop 2 t and c = drop 2 c and e = drop 2 e and d = drop 2 d in
  let txs = if t = "." then [] else List.map tx_of (split ';' t) in
  let cfg, pmap, getc =
    if c = "." then (None, [], [])
    else match split '|' c with
      | [ h; cm; ap; inl; m; g ] ->
        (match split ',' h with
         | [ state; master; term ] ->
           let cmc, _ = cursor_of cm true and apc, apterm = cursor_of ap false in
           (Some { c_state = n (num state); c_master = (if master = "-" then None else Some (id_of master)); c_mterm = n (num term);
                   c_cm = cmc; c_inline = vals_of inl; c_ap = apc; c_apterm = n apterm }, vals_of m, vals_of g)
         | _ -> failwith ("cfg head " ^ h))
      | _ -> failwith ("cfg " ^ c) in
  let target, rels, conns =
    match split '|' e with
    | [ ent; r; cs ] ->
      ((match ent with "0" -> None | "2" -> Some true | _ -> Some false),
       (if r = "." then [] else List.map (fun x -> match split ':' x with [ id; own ] -> (id_of id, own = "1") | _ -> failwith "rel") (split ',' r)),
       (if cs = "." then [] else List.map id_of (split ',' cs)))
    | _ -> failwith ("env " ^ e) in
  let dev, elect =
    match split '|' d with
    | [ me; leaves; _ ] ->
      ((if leaves = "." then [] else
          List.map (fun l -> match split '=' l with
              | [ p; v ] -> (path_of p, n (num (drop 2 v)))
              | _ -> failwith ("leaf " ^ l)) (split ',' leaves)), n (num me))
    | _ -> failwith ("dev " ^ d) in
  { world = { w_txs = txs; w_cfg = cfg; w_cmap = []; w_pmap = pmap; w_target = target; w_rels = rels; w_conns = conns; w_dev = dev;
              w_elect = elect; w_hist = []; w_panicked = false }; getc }

(* canonical projection used for the comparison (maps sorted; history and panic flag apart) *)
let canon_vals (m : vals) = List.sort cmp_kv m
let canon_tx t = { t with t_values = canon_vals t.t_values; t_rvalues = canon_vals t.t_rvalues }
let canon (w : world) =
  (canon_vals w.w_cmap, List.map canon_tx w.w_txs,
   (match w.w_cfg with Some c -> Some { c with c_inline = canon_vals c.c_inline } | None -> None),
   canon_vals w.w_pmap, w.w_target, List.sort compare w.w_rels, List.sort compare w.w_conns,
   List.sort compare w.w_dev, w.w_elect)

let describe_diff (m : world) (i : world) =
  let parts = ref [] in
  let add s = parts := s :: !parts in
  if List.map canon_tx m.w_txs <> List.map canon_tx i.w_txs then begin
    let rec go k a b = match a, b with
      | x :: a', y :: b' ->
        if canon_tx x <> canon_tx y then
          add (Printf.sprintf "tx%d model{cc=%s ca=%s cord=%d rc=%s ra=%s rord=%d ridx=%d rv=[%s] f=%d/%d/%d} impl{cc=%s ca=%s cord=%d rc=%s ra=%s rord=%d ridx=%d rv=[%s] f=%d/%d/%d}" k
                 (st_str x.t_cc) (st_str x.t_ca) (int_of_n x.t_cord) (match x.t_rc with Some s -> st_str s | None -> "-")
                 (match x.t_ra with Some s -> st_str s | None -> "-") (int_of_n x.t_rord) (int_of_n x.t_ridx) (vals_str x.t_rvalues)
                 (int_of_n x.t_ccfail) (int_of_n x.t_cafail) (int_of_n x.t_rafail)
                 (st_str y.t_cc) (st_str y.t_ca) (int_of_n y.t_cord) (match y.t_rc with Some s -> st_str s | None -> "-")
                 (match y.t_ra with Some s -> st_str s | None -> "-") (int_of_n y.t_rord) (int_of_n y.t_ridx) (vals_str y.t_rvalues)
                 (int_of_n y.t_ccfail) (int_of_n y.t_cafail) (int_of_n y.t_rafail));
        go (k + 1) a' b'
      | [], [] -> ()
      | _ -> add "number of transactions" in
    go 1 m.w_txs i.w_txs
  end;
  let cur k = Printf.sprintf "%d,%d,%d,%d,%d" (int_of_n k.k_index) (int_of_n k.k_ordinal) (int_of_n k.k_revision) (int_of_n k.k_target) (int_of_n k.k_change) in
  let cfgs c = match c with
    | None -> "none"
    | Some c -> Printf.sprintf "state=%d master=%s term=%d cm=%s ap=%s apterm=%d inline=[%s]" (int_of_n c.c_state)
                  (match c.c_master with Some x -> string_of_int (int_of_n x) | None -> "-") (int_of_n c.c_mterm) (cur c.c_cm) (cur c.c_ap)
                  (int_of_n c.c_apterm) (vals_str c.c_inline) in
  let (_, _, mc, mp, _, mr, mcs, md, me) = canon m and (_, _, ic, ip, _, ir, ics, id, ie) = canon i in
  if mc <> ic then add (Printf.sprintf "configuration model{%s} impl{%s}" (cfgs m.w_cfg) (cfgs i.w_cfg));
  if mp <> ip then add (Printf.sprintf "path map model[%s] impl[%s]" (vals_str m.w_pmap) (vals_str i.w_pmap));
  if md <> id then add (Printf.sprintf "device model[%s] impl[%s]"
                          (String.concat "," (List.map (fun (p, v) -> path_str p ^ "=" ^ string_of_int (int_of_n v)) md))
                          (String.concat "," (List.map (fun (p, v) -> path_str p ^ "=" ^ string_of_int (int_of_n v)) id)));
  if me <> ie then add (Printf.sprintf "election id model=%d impl=%d" (int_of_n me) (int_of_n ie));
  if mr <> ir || mcs <> ics || m.w_target <> i.w_target then add "environment";
  String.concat "; " (List.rev !parts)

(* ---------------------------------------------------------------- labels *)
let code_of = function
  | "OK" -> 0 | "Canceled" -> 1 | "Unknown" -> 2 | "InvalidArgument" -> 3 | "DeadlineExceeded" -> 4 | "NotFound" -> 5
  | "AlreadyExists" -> 6 | "PermissionDenied" -> 7 | "ResourceExhausted" -> 8 | "FailedPrecondition" -> 9 | "Aborted" -> 10
  | "OutOfRange" -> 11 | "Unimplemented" -> 12 | "Internal" -> 13 | "Unavailable" -> 14 | "DataLoss" -> 15
  | "Unauthenticated" -> 16 | s -> failwith ("code " ^ s)

let budget s = let b = num s in if b >= 9 then 99 else b

let tx_vals idx s =
  List.map (fun kv -> match split '=' kv with
      | [ p; "-" ] -> (path_of p, { pv_path = path_of p; pv_val = n 0; pv_del = true; pv_idx = n idx })
      | [ p; v ] -> (path_of p, { pv_path = path_of p; pv_val = n (num v); pv_del = false; pv_idx = n idx })
      | _ -> failwith ("value " ^ kv)) (split ',' s)

(* the model labels of one harness operation; `post` supplies what the implementation chose where the model has an oracle *)
let alloc_repaired = ref false
let labels_of (op : string) (pre : world) (post : world) (last : pval option) : label list =
  let f = split ':' op in
  let orc v code = { o_verdict = v; o_code = n code; o_last = last; o_alloc = !alloc_repaired;
                     o_master = (match post.w_cfg with Some { c_master = Some m; _ } -> m | _ -> n 0) } in
  match f with
  | [ "cfg" ] -> [ LCreateCfg [] ]
  | [ "cfg"; v ] -> [ LCreateCfg (tx_vals 0 v) ]
  | [ "tgt0" ] -> [ LTarget (true, false) ]
  | [ "tgt1" ] -> [ LTarget (true, true) ]
  | [ "tgt-" ] -> [ LTarget (false, false) ]
  | [ "up"; c ] ->
    let own = match List.assoc_opt (id_of c) pre.w_rels with Some o -> o | None -> true in
    [ LRel (id_of c, true, own); LConn (id_of c, true) ]
  | [ "down"; c ] -> [ LConn (id_of c, false); LRel (id_of c, false, true) ]
  | [ "rup"; c ] -> if List.mem_assoc (id_of c) pre.w_rels then [] else [ LRel (id_of c, true, true) ]
  | [ "fup"; c ] -> if List.mem_assoc (id_of c) pre.w_rels then [] else [ LRel (id_of c, true, false) ]
  | [ "rdown"; c ] -> [ LRel (id_of c, false, true) ]
  | [ "cup"; c ] -> if List.mem (id_of c) pre.w_conns then [] else [ LConn (id_of c, true) ]
  | [ "cdown"; c ] -> [ LConn (id_of c, false) ]
  | [ "restart" ] -> [ LDevRestart ]
  | [ "reopen" ] -> []
  | [ "a"; v ] -> [ LAppend (tx_vals (List.length pre.w_txs + 1) v) ]
  | [ "b"; i ] -> [ LRollback (n (num i)) ]
  | [ "r"; i; k; v; code ] ->
    [ LRecTx (n (num i), nat_of_int (budget k), orc (match v with "a" -> VAccept | "r" -> VReject | _ -> VNoPlugin) (code_of code)) ]
  | [ "c"; k; code ] -> [ LRecCfg (nat_of_int (budget k), orc VAccept (code_of code)) ]
  | [ "m"; k ] -> [ LRecMaster (nat_of_int (budget k), orc VAccept 0) ]
  | _ -> failwith ("label " ^ op)

(* ---------------------------------------------------------------- events from record diffs (independent of the model) *)
let ev_str e =
  Printf.sprintf "%s-%s(%d)=%s" (match e.e_phase with PhChange -> "Change" | PhRollback -> "Rollback")
    (match e.e_stage with StCommit -> "Commit" | StApply -> "Apply") (int_of_n e.e_index) (st_str e.e_status)
let hist_str h = String.concat " " (List.map ev_str h)

let diff_events (op : string) (reqs : string) (pre : world) (post : world) : event list =
  match split ':' op with
  | "r" :: i :: _ ->
    let i = num i in
    let evs = ref [] in
    let add p s x = evs := !evs @ [ { e_phase = p; e_stage = s; e_index = n i; e_status = x } ] in
    let tx w = List.nth_opt w.w_txs (i - 1) in
    (match tx pre, tx post, pre.w_cfg, post.w_cfg with
     | Some t0, Some t1, Some c0, Some c1 ->
       let ph = if t0.t_rb then PhRollback else PhChange in
       (* transaction record: the terminal states that are recorded there first *)
       if t0.t_cc <> Failed && t1.t_cc = Failed then add PhChange StCommit Failed;
       if t0.t_ca <> Aborted && t1.t_ca = Aborted then add PhChange StApply Aborted;
       if t0.t_ca <> Failed && t1.t_ca = Failed then add PhChange StApply Failed;
       if t0.t_ra <> Some Failed && t1.t_ra = Some Failed then add PhRollback StApply Failed;
       (* configuration record *)
       let cm0 = c0.c_cm and cm1 = c1.c_cm and ap0 = c0.c_ap and ap1 = c1.c_ap in
       let i' = int_of_n in
       if cm1.k_target <> cm0.k_target then add ph StCommit InProgress;
       if cm1.k_ordinal <> cm0.k_ordinal then add ph StCommit Complete;
       if ap1.k_target <> ap0.k_target && ap1.k_index = ap0.k_index && ap1.k_ordinal = ap0.k_ordinal then add ph StApply InProgress;
       ignore i';
       let accepted = List.exists (fun r -> match split '/' r with _ :: "OK" :: _ -> true | _ -> false) (if reqs = "." then [] else split ';' reqs) in
       if accepted && (ap1.k_ordinal <> ap0.k_ordinal || ap1.k_revision <> ap0.k_revision || ap1.k_index <> ap0.k_index) then add ph StApply Complete
     | _ -> ());
    !evs
  | _ -> []

(* ---------------------------------------------------------------- per-scenario state *)
type scen = { mutable prev : obs option; mutable hist : event list; mutable tainted : string option; mutable kind : string;
              mutable steps : int; mutable ops : string list; mutable cmap : vals (* committed path map: written by Create only *) }
let scens : (string, scen) Hashtbl.t = Hashtbl.create 64
let get_scen s = match Hashtbl.find_opt scens s with
  | Some x -> x
  | None -> let x = { prev = None; hist = []; tainted = None; kind = "clean"; steps = 0; ops = []; cmap = [] } in Hashtbl.replace scens s x; x

let run_labels (w : world) (ls : label list) = List.fold_left step w ls

let same_state (m : world) (i : world) = canon m = canon i

let trace sc = String.concat " " (List.rev sc.ops)

(* shape of a consequence of the shadowed committed values: a later transaction j whose rollback index is r has been rolled
   back and the value now held for p is the one j recorded as "previous" - which was not r's value because Committed.Values,
   as read through the store, showed the created entry instead of the committed one *)
let stale_rollback (w : world) (r : int) (p : path) (held : pval option) =
  List.exists (fun t -> t.t_rb && int_of_n t.t_ridx = r && t.t_rc = Some Complete &&
                        (match vget p t.t_rvalues, held with
                         | Some a, Some b -> pval_eqb a b
                         | Some a, None -> a.pv_del
                         | _ -> false)) w.w_txs

(* monitors on an implementation state (its own records), `h` = history reconstructed from the implementation *)
let monitors id sc (o : obs) =
  let w = { o.world with w_hist = sc.hist } in
  let ctx = Printf.sprintf "after [%s] history [%s]" (trace sc) (hist_str sc.hist) in
  if not (order_ok sc.hist) then specviol id "c20_order" ctx;
  if not (commit_before_apply_ok sc.hist) then specviol id "c20_commit_before_apply" ctx;
  if not (failed_blocks_later_ok w) then begin
    (* shape of the open finding: an earlier failed/aborted change is still not rolled back, yet the applied revision was
       advanced by the rollback of a LATER transaction and a later change went through *)
    let later_rollback_applied =
      let rec go seen_failed = function
        | [] -> false
        | t :: r -> (seen_failed && t.t_ra = Some Complete) || go (seen_failed || ((t.t_ca = Failed || t.t_ca = Aborted) && t.t_ra <> Some Complete && t.t_ra <> Some Failed)) r in
      go false w.w_txs in
    specviol id (if later_rollback_applied then "c20_blocked_change_released_by_later_rollback" else "c20_failed_does_not_block") ctx
  end;
  (* the ordinals handed out by commits stay inside the Committed cursor (C20_change_ordinal_within_cursor,
     C20_rollback_ordinal_is_cursor, C20_ordinals_follow_log_order), evaluated on the implementation's own records *)
  (match w.w_cfg with
   | Some c ->
     let co = int_of_n c.c_cm.k_ordinal in
     let committed = List.filter (fun (_, t) -> t.t_cc = Complete) (List.mapi (fun k t -> (k + 1, t)) w.w_txs) in
     List.iter (fun (j, t) ->
         let o' = int_of_n t.t_cord in
         if o' < 1 || o' > co then
           specviol id "c20_ordinal_outside_cursor"
             (Printf.sprintf "transaction %d committed with ordinal %d, Committed.Ordinal of the configuration is %d; %s" j o' co ctx);
         List.iter (fun (k, u) -> if j < k && not (o' < int_of_n u.t_cord) then
                       specviol id "c20_ordinals_not_in_log_order"
                         (Printf.sprintf "transactions %d < %d committed with ordinals %d, %d; %s" j k o' (int_of_n u.t_cord) ctx)) committed)
       committed;
     List.iteri (fun k t ->
         if t.t_rc = Some Complete then begin
           let ro = int_of_n t.t_rord in
           if ro <> co then
             specviol id "c20_ordinal_outside_cursor"
               (Printf.sprintf "rollback of transaction %d committed with ordinal %d, Committed.Ordinal of the configuration is %d; %s" (k + 1) ro co ctx);
           List.iter (fun (j, u) -> if not (int_of_n u.t_cord < ro) then
                         specviol id "c20_ordinal_outside_cursor"
                           (Printf.sprintf "rollback of transaction %d has ordinal %d, not above ordinal %d of committed change %d; %s"
                              (k + 1) ro (int_of_n u.t_cord) j ctx)) committed
         end) w.w_txs
   | None -> ());
  (match w.w_cfg with
   | Some c ->
     (* committed consistency on what the store's Get returns (cross-checked with the model's view function) *)
     if canon_vals (cview w c) <> canon_vals o.getc then
       mismatch id (Printf.sprintf "Committed.Values of Get: model view [%s] impl [%s]" (vals_str (cview w c)) (vals_str o.getc));
     if not (consistency_committed_ok w) then begin
       let rev = c.c_cm.k_revision in
       let t = List.nth w.w_txs (int_of_n rev - 1) in
       (* shape of the open finding: every disagreeing path is shadowed by the entry Create put in the committed path map *)
       let bad = List.filter (fun (p, v) -> match vget p o.getc with Some x -> not (pval_eqb x v) | None -> true) t.t_values in
       let aliased = bad <> [] && List.for_all (fun (p, _) -> match vget p w.w_cmap, vget p o.getc with
           | Some a, Some g -> pval_eqb a g | _ -> false) bad in
       let restored = bad <> [] && List.for_all (fun (p, _) -> stale_rollback w (int_of_n rev) p (vget p o.getc)) bad in
       specviol id (if aliased then "c20_committed_values_shadowed_by_created"
                    else if restored then "c20_rollback_restored_shadowed_value" else "c20_consistency_committed")
         (Printf.sprintf "committed revision %d but Committed.Values=[%s] change=[%s] %s" (int_of_n rev) (vals_str o.getc) (vals_str t.t_values) ctx)
     end;
     if not (consistency_applied_ok w) then begin
       let rev = c.c_ap.k_revision in
       let t = List.nth w.w_txs (int_of_n rev - 1) in
       let under_tomb = List.exists (fun (p, v) -> (not v.pv_del) && vget p w.w_pmap = None &&
                                                   List.exists (fun (q, x) -> x.pv_del && q <> p && List.length q < List.length p &&
                                                                              (let rec pre a b = match a, b with [], _ -> true | x :: a', y :: b' -> x = y && pre a' b' | _ -> false in pre q p)) w.w_pmap) t.t_values in
       let bad = List.filter (fun (p, v) -> match vget p w.w_pmap with Some x -> not (pval_eqb x v) | None -> true) t.t_values in
       let restored = bad <> [] && List.for_all (fun (p, _) -> stale_rollback w (int_of_n rev) p (vget p w.w_pmap)) bad in
       (* shape of the open finding: the applied revision names a change whose apply failed or was aborted (the rollback of
          a later transaction set Applied.Revision to its rollback index) *)
       let names_failed = t.t_ca = Failed || t.t_ca = Aborted in
       specviol id (if names_failed then "c20_applied_revision_names_unapplied_change"
                    else if under_tomb then "c20_child_under_tombstone_not_stored"
                    else if restored then "c20_rollback_restored_shadowed_value" else "c20_consistency_applied")
         (Printf.sprintf "applied revision %d, Applied.Values=[%s] device=[%s] in_sync=%b change=[%s] %s" (int_of_n rev) (vals_str w.w_pmap)
            (String.concat "," (List.map (fun (p, v) -> path_str p ^ "=" ^ string_of_int (int_of_n v)) w.w_dev)) (in_sync w c) (vals_str t.t_values) ctx)
     end
   | None -> ())

let () =
  each_line (function
    | [ "p3.step"; id; scn; op; res; reqs; t; c; e; d ] ->
      let sc = get_scen (List.hd (split ':' id) ^ "/" ^ scn) in
      (match split ':' op with
       | [ "cfg"; v ] when sc.cmap = [] && (match sc.prev with Some { world = { w_cfg = None; _ }; _ } -> true | _ -> false) ->
         sc.cmap <- tx_vals 0 v
       | _ -> ());
      let o = parse_obs t c e d in
      let o = { o with world = { o.world with w_cmap = (if o.world.w_cfg = None then [] else sc.cmap) } } in
      stat "p3.step";
      if op = "init" then begin
        sc.kind <- res; sc.prev <- Some o; stat ("scenario." ^ res)
      end else if op = "end" then begin
        (match sc.tainted with
         | Some why -> stat ("scenario-ended-after." ^ why)
         | None ->
           stat "scenario.completed";
           seen_distinct (trace sc);
           if sc.kind <> "malformed" then begin
             let w = o.world in
             (* root causes (open findings) that block every later transaction of the target:
                - a completed rollback leaves Committed.Target (= its rollback index) below Committed.Index (= its own index);
                  every later commit (change or rollback) waits for them to be equal
                - a rollback of the committed revision waits behind a LATER change that failed validation *)
             let pending_commit u = if u.t_rb then u.t_rc = Some Pending else u.t_cc = Pending in
             let wedged = match w.w_cfg with
               | Some cf -> int_of_n cf.c_cm.k_target < int_of_n cf.c_cm.k_index
                            && List.exists (fun u -> u.t_rc = Some Complete) w.w_txs && List.exists pending_commit w.w_txs
               | None -> false in
             let behind_failed = match w.w_cfg with
               | Some cf -> let r = int_of_n cf.c_cm.k_revision and ix = int_of_n cf.c_cm.k_index in
                 ix > r && r >= 1 && (match List.nth_opt w.w_txs (r - 1), List.nth_opt w.w_txs (ix - 1) with
                     | Some tr, Some u -> tr.t_rb && tr.t_rc = Some Pending && u.t_cc = Failed
                     | _ -> false)
               | None -> false in
             List.iteri (fun k tx -> if not (tx_terminal tx) then
                            let i = k + 1 in
                            specviol id (if wedged then "c20_wedged_after_rollback"
                                         else if behind_failed then "c20_rollback_stuck_behind_failed_commit" else "c20_not_terminated")
                              (Printf.sprintf "transaction %d not terminal after the system was healed and drained: cc=%s ca=%s rc=%s ra=%s; [%s]" i
                                 (st_str tx.t_cc) (st_str tx.t_ca) (match tx.t_rc with Some s -> st_str s | None -> "-")
                                 (match tx.t_ra with Some s -> st_str s | None -> "-") (trace sc))) w.w_txs
           end)
      end else begin
        match sc.tainted, sc.prev with
        | Some why, _ -> stat ("skipped-after." ^ why)
        | None, None -> mismatch id "step without initial observation"
        | None, Some pre ->
          sc.steps <- sc.steps + 1;
          sc.ops <- op :: sc.ops;
          stat ("op." ^ List.hd (split ':' op));
          let post = o.world in
          let impl_panic = starts "panic" res in
          let try_last last =
            let ls = labels_of op pre.world post last in
            let m = run_labels pre.world ls in
            (m, ls) in
          alloc_repaired := false;
          let m0, ls0 = try_last None in
          (* the nil-map panic of commitChange / commitRollback (open finding) and its proposed repair: when the model of the
             code as it is panics and the implementation does not, the step is validated against the repaired behaviour *)
          let m0, ls0 = if m0.w_panicked && not impl_panic then (alloc_repaired := true; stat "nil-map.allocated"; try_last None) else (m0, ls0) in
          let matched, m, via_last =
            if same_state m0 post then (true, m0, false)
            else begin
              (* configurationStore.store: one shared loop variable for every write of the call (open finding) *)
              let cands = List.sort_uniq compare (List.map snd post.w_pmap) in
              match List.find_opt (fun l -> same_state (fst (try_last (Some l))) post) cands with
              | Some l -> (true, fst (try_last (Some l)), true)
              | None -> (false, m0, false)
            end in
          if impl_panic || m.w_panicked then begin
            if impl_panic && m.w_panicked then begin
              let nilmap = (match pre.world.w_cfg with Some cf -> cview pre.world cf = [] | None -> false) in
              specviol id (if nilmap then "c20_commit_nil_values_panic" else "c20_panic")
                (Printf.sprintf "Reconcile panicked after [%s]" (trace sc));
              sc.tainted <- Some "panic"
            end else
              mismatch id (Printf.sprintf "panic: model=%b impl=%b after [%s]" m.w_panicked impl_panic (trace sc))
          end else if not matched then begin
            mismatch id (Printf.sprintf "step %s: %s; after [%s]" op (describe_diff m0 post) (trace sc));
            stat "step.unexplained";
            (* every step is validated from the implementation's own pre-state, so the scenario goes on; the monitors speak
               about the implementation alone *)
            sc.hist <- sc.hist @ diff_events op reqs pre.world post;
            if sc.kind <> "malformed" then monitors id sc o
          end else begin
            if via_last then begin
              specviol id "c20_store_loop_variable"
                (Printf.sprintf "path map after %s holds one value under several keys: [%s]; after [%s]" op (vals_str post.w_pmap) (trace sc));
              sc.tainted <- Some "store-loop-variable"
            end;
            (* result class of the call (only when no write was refused) *)
            (match ls0, split '/' res with
             | [ (LRecTx (_, _, _) | LRecCfg (_, _) | LRecMaster (_, _)) as l ], [ r; wr ] ->
               let used = num (drop 1 wr) in
               let b = (match split ':' op with "r" :: _ :: k :: _ -> budget k | "c" :: k :: _ -> budget k | "m" :: k :: _ -> budget k | _ -> 99) in
               if used < b then begin
                 let mr = match rec_result pre.world l with RDone -> "ok" | RRequeue j -> "rq" ^ string_of_int (int_of_n j) | RErr -> "err" | RPanic -> "panic" in
                 if mr <> r then mismatch id (Printf.sprintf "result of %s: model %s impl %s; after [%s]" op mr r (trace sc))
               end
             | _ -> ());
            (* events: the model's ghost events of this step vs the ones read off the implementation's record diffs *)
            let mev = m.w_hist in
            let iev = diff_events op reqs pre.world post in
            if mev <> iev then mismatch id (Printf.sprintf "events of %s: model [%s] impl [%s]; after [%s]" op (hist_str mev) (hist_str iev) (trace sc));
            sc.hist <- sc.hist @ iev;
            List.iter (fun e -> stat ("event." ^ ev_str { e with e_index = n 0 })) iev;
            if sc.tainted = None && sc.kind <> "malformed" then monitors id sc o
          end;
          sc.prev <- Some o;
          if sc.steps = 30 then sample (Printf.sprintf "%s: %s" sc.kind (trace sc))
      end
    | _ -> stat "ignored")

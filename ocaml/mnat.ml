(* nat conversions, for drivers whose extracted model mentions nat *)
let rec nat_of_int i = if i <= 0 then Model.O else Model.S (nat_of_int (i - 1))
let rec int_of_nat = function Model.O -> 0 | Model.S n -> 1 + int_of_nat n

(* p2 driver: trace validation of the real v2 reconcilers against the extracted protocol model
   (Model/Proto2.v + Model/P2Pure.v) and evaluation of the property monitors of C01 C02 C04 C05 C06 C07
   C09 C10 C11 on the implementation's own traces.

   Every observed step (pre, label, post) is validated locally: pre is decoded into a model world, the
   model executes the label, and the implementation's post state must be the model's post state. *)
open Model
open Mlib

(* ------------------------------------------------------------------ S-expressions *)
type sx = A of string | L of sx list

let parse_sx (s : string) : sx =
  let n = String.length s in
  let pos = ref 0 in
  let rec skip () = if !pos < n && (s.[!pos] = ' ') then (incr pos; skip ()) in
  let rec one () =
    skip ();
    if !pos >= n then failwith "sexp: eof"
    else if s.[!pos] = '(' then begin
      incr pos;
      let items = ref [] in
      let rec loop () =
        skip ();
        if !pos >= n then failwith "sexp: unclosed"
        else if s.[!pos] = ')' then incr pos
        else (items := one () :: !items; loop ()) in
      loop ();
      L (List.rev !items)
    end else begin
      let st = !pos in
      while !pos < n && s.[!pos] <> ' ' && s.[!pos] <> '(' && s.[!pos] <> ')' do incr pos done;
      A (String.sub s st (!pos - st))
    end in
  one ()

let atom = function A a -> a | L _ -> failwith "atom expected"
let lst = function L l -> l | A a -> failwith ("list expected, got " ^ a)
let num x = n_of_int (int_of_string (atom x))
let inum x = int_of_string (atom x)

(* ------------------------------------------------------------------ decoding *)
let ph_of = function "n" -> None | "doing" -> Some Doing | "done" -> Some Done | "failed" -> Some Failed | s -> failwith ("phase " ^ s)
let tstate_of = function
  | "PENDING" -> TPending | "VALIDATED" -> TValidated | "COMMITTED" -> TCommitted | "APPLIED" -> TApplied | "FAILED" -> TFailed
  | s -> failwith ("tstate " ^ s)
let ftype_of = function
  | "none" -> None
  | "UNKNOWN" -> Some FUnknown | "CANCELED" -> Some FCanceled | "NOT_FOUND" -> Some FNotFound | "ALREADY_EXISTS" -> Some FAlreadyExists
  | "UNAUTHORIZED" -> Some FUnauthorized | "FORBIDDEN" -> Some FForbidden | "CONFLICT" -> Some FConflict | "INVALID" -> Some FInvalid
  | "UNAVAILABLE" -> Some FUnavailable | "NOT_SUPPORTED" -> Some FNotSupported | "TIMEOUT" -> Some FTimeout | "INTERNAL" -> Some FInternal
  | s -> failwith ("ftype " ^ s)
let cstate_of = function
  | "UNKNOWN" -> CUnknown | "SYNCHRONIZING" -> CSynchronizing | "SYNCHRONIZED" -> CSynchronized | "PERSISTED" -> CPersisted
  | s -> failwith ("cstate " ^ s)
let code_of = function
  | "OK" -> COk | "Canceled" -> CCanceled | "Unknown" -> CUnknownC | "InvalidArgument" -> CInvalidArgument
  | "DeadlineExceeded" -> CDeadlineExceeded | "NotFound" -> CNotFound | "AlreadyExists" -> CAlreadyExists
  | "PermissionDenied" -> CPermissionDenied | "ResourceExhausted" -> CResourceExhausted | "FailedPrecondition" -> CFailedPrecondition
  | "Aborted" -> CAborted | "OutOfRange" -> COutOfRange | "Unimplemented" -> CUnimplemented | "Internal" -> CInternal
  | "Unavailable" -> CUnavailable | "DataLoss" -> CDataLoss | "Unauthenticated" -> CUnauthenticated
  | s -> failwith ("code " ^ s)

let cm_of (x : sx) : cmap =
  match lst x with
  | A "cm" :: pvs ->
    List.map (fun p -> match lst p with
      | [ A "pv"; k; path; v; d; i ] ->
        (unhex (atom k), { pv_path = unhex (atom path); pv_val = unhex (atom v); pv_deleted = atom d = "1"; pv_index = num i })
      | _ -> failwith "pv") pvs
  | _ -> failwith "cm"

let opt_n x = match atom x with "none" -> None | s -> Some (n_of_int (int_of_string s))

type istate = {
  w : (cmap, cmap, req, dstate) world;
  applied_vals : (int * cmap) list;           (* what Get returns as Status.Applied.Values, per target *)
  ptype : ((int * int) * string) list;        (* proposal target type (hex) *)
}

let field name (items : sx list) : sx list =
  let rec go = function
    | L (A n :: rest) :: _ when n = name -> rest
    | _ :: tl -> go tl
    | [] -> failwith ("field " ^ name) in
  go items

let overlay_bad : int list ref = ref []
let decode_state (x : sx) : istate =
  let items = match lst x with A "state" :: it -> it | _ -> failwith "state" in
  let txs = List.map (fun t -> match lst t with
    | [ A "tx"; i; kind; ser; syn; st; fl; pi; pv; pc; pa; pb; prs ] ->
      let details = match lst kind with
        | A "change" :: chs -> TChange (List.map (fun c -> match lst c with [ t; cm ] -> (num t, cm_of cm) | _ -> failwith "chs") chs)
        | [ A "rollback"; ri ] -> TRollback (num ri)
        | _ -> failwith "tx kind" in
      (num i, { t_details = details; t_serializable = atom ser = "1"; t_sync = atom syn = "1"; t_state = tstate_of (atom st);
                t_failure = ftype_of (atom fl); t_init = ph_of (atom pi); t_validate = ph_of (atom pv); t_commit = ph_of (atom pc);
                t_apply = ph_of (atom pa); t_abort = ph_of (atom pb);
                t_props = (match prs with A "nil" -> None | L l -> Some (List.map num l) | _ -> failwith "props") })
    | _ -> failwith "tx") (field "txs" items) in
  let ptype = ref [] in
  let props = List.map (fun p -> match lst p with
    | [ A "p"; t; i; kind; prev; next; rbi; rbv; pi; pv; pc; pa; pb; vf; af; term; ty ] ->
      let details = match lst kind with
        | [ A "change"; cm ] -> PChange (cm_of cm)
        | [ A "rollback"; ri ] -> PRollback (num ri)
        | _ -> failwith "p kind" in
      ptype := ((inum t, inum i), atom ty) :: !ptype;
      ((num t, num i), { p_details = details; p_prev = num prev; p_next = num next; p_rbindex = num rbi;
                         p_rbvalues = (match rbv with A "nil" -> None | x -> Some (cm_of x));
                         p_init = ph_of (atom pi); p_validate = ph_of (atom pv); p_commit = ph_of (atom pc); p_apply = ph_of (atom pa);
                         p_abort = ph_of (atom pb); p_vfail = ftype_of (atom vf); p_afail = ftype_of (atom af); p_term = num term })
    | _ -> failwith "p") (field "props" items) in
  let av = ref [] in
  let cfgs = List.map (fun c -> match lst c with
    | A "c" :: t :: idx :: cm :: prop :: com :: app :: st :: m :: term :: am :: aterm :: acm :: raw :: araw :: more ->
      av := (inum t, cm_of acm) :: !av;
      (* with the entry's own copies listed (read from Atomix without the store's overlay) the model state is the stored
         state exactly; what the store hands out (cm, acm) must then be their overlay with the path-value maps *)
      let cm, acm = match more with
        | [ inl; ainl ] ->
          let vi = cm_of inl and vai = cm_of ainl in
          let srt l = List.sort compare l in
          if srt (overlay vi (cm_of raw)) <> srt (cm_of cm) || srt (overlay vai (cm_of araw)) <> srt (cm_of acm) then
            overlay_bad := (inum t) :: !overlay_bad;
          (inl, ainl)
        | _ -> (cm, acm) in
      (* the stored path-value map is listed directly from Atomix; any inline map whose overlay with the stored map is
         the loaded view is equivalent to the real one: take the loaded views themselves *)
      (num t, { c_index = num idx; c_values = cm_of raw; c_avalues = cm_of araw; c_inline = cm_of cm; c_ainline = cm_of acm; c_proposed = num prop; c_committed = num com; c_applied = num app;
                c_state = cstate_of (atom st); c_master = opt_n m; c_term = num term; c_amaster = opt_n am; c_aterm = num aterm })
    | _ -> failwith "c") (field "cfgs" items) in
  let targets = List.map (fun t -> match lst t with [ t; p ] -> (num t, atom p = "1") | _ -> failwith "t") (field "targets" items) in
  let rels = List.map (fun r -> match lst r with [ c; t; m ] -> (num c, (num t, atom m = "1")) | _ -> failwith "rel") (field "rels" items) in
  let conns = List.map (fun r -> match lst r with [ c; t ] -> (num c, num t) | _ -> failwith "conn") (field "conns" items) in
  let devs = List.map (fun d -> match lst d with
    | t :: mx :: leaves -> (num t, { d_state = List.map (fun l -> match lst l with [ A "leaf"; p; v ] -> (unhex (atom p), unhex (atom v)) | _ -> failwith "leaf") leaves;
                                     d_max = num mx })
    | _ -> failwith "dev") (field "devs" items) in
  let next = match field "next" items with [ n ] -> num n | _ -> failwith "next" in
  { w = mk_world txs next props cfgs targets rels conns devs []; applied_vals = !av; ptype = !ptype }

(* ------------------------------------------------------------------ canonical printing (for comparison) *)
let sn n = string_of_int (int_of_n n)
let s_ph = function None -> "n" | Some Doing -> "doing" | Some Done -> "done" | Some Failed -> "failed"
let s_ts = function TPending -> "PENDING" | TValidated -> "VALIDATED" | TCommitted -> "COMMITTED" | TApplied -> "APPLIED" | TFailed -> "FAILED"
let s_ft = function
  | None -> "none" | Some FUnknown -> "UNKNOWN" | Some FCanceled -> "CANCELED" | Some FNotFound -> "NOT_FOUND" | Some FAlreadyExists -> "ALREADY_EXISTS"
  | Some FUnauthorized -> "UNAUTHORIZED" | Some FForbidden -> "FORBIDDEN" | Some FConflict -> "CONFLICT" | Some FInvalid -> "INVALID"
  | Some FUnavailable -> "UNAVAILABLE" | Some FNotSupported -> "NOT_SUPPORTED" | Some FTimeout -> "TIMEOUT" | Some FInternal -> "INTERNAL"
let s_cs = function CUnknown -> "UNKNOWN" | CSynchronizing -> "SYNCHRONIZING" | CSynchronized -> "SYNCHRONIZED" | CPersisted -> "PERSISTED"
let s_code = function
  | COk -> "OK" | CCanceled -> "Canceled" | CUnknownC -> "Unknown" | CInvalidArgument -> "InvalidArgument" | CDeadlineExceeded -> "DeadlineExceeded"
  | CNotFound -> "NotFound" | CAlreadyExists -> "AlreadyExists" | CPermissionDenied -> "PermissionDenied" | CResourceExhausted -> "ResourceExhausted"
  | CFailedPrecondition -> "FailedPrecondition" | CAborted -> "Aborted" | COutOfRange -> "OutOfRange" | CUnimplemented -> "Unimplemented"
  | CInternal -> "Internal" | CUnavailable -> "Unavailable" | CDataLoss -> "DataLoss" | CUnauthenticated -> "Unauthenticated"
let s_on = function None -> "none" | Some n -> sn n

let s_cm (m : cmap) : string =
  let items = List.map (fun (k, v) -> Printf.sprintf "(pv %s %s %s %d %s)" (hex_of k) (hex_of v.pv_path) (hex_of v.pv_val) (if v.pv_deleted then 1 else 0) (sn v.pv_index)) m in
  "(cm " ^ String.concat " " (List.sort compare items) ^ ")"

(* parts of the canonical state, as (name, text) so that a mismatch can name the component *)
let canon (w : (cmap, cmap, req, dstate) world) : (string * string) list =
  let txs = List.sort (fun (a, _) (b, _) -> compare (int_of_n a) (int_of_n b)) (w_txs w) in
  let s_tx (i, t) =
    let kind = match t.t_details with
      | TChange chs -> "(change " ^ String.concat " " (List.sort compare (List.map (fun (t, c) -> "(" ^ sn t ^ " " ^ s_cm c ^ ")") chs)) ^ ")"
      | TRollback ri -> "(rollback " ^ sn ri ^ ")" in
    let prs = match t.t_props with None -> "nil" | Some l -> "(" ^ String.concat " " (List.sort compare (List.map sn l)) ^ ")" in
    ("tx " ^ sn i, Printf.sprintf "%s ser=%b sync=%b %s %s init=%s val=%s com=%s app=%s abo=%s props=%s" kind t.t_serializable t.t_sync (s_ts t.t_state) (s_ft t.t_failure)
       (s_ph t.t_init) (s_ph t.t_validate) (s_ph t.t_commit) (s_ph t.t_apply) (s_ph t.t_abort) prs) in
  let props = List.sort compare (List.map (fun ((t, i), p) -> ((int_of_n t, int_of_n i), p)) (w_props w)) in
  let s_p ((t, i), p) =
    let kind = match p.p_details with PChange c -> "(change " ^ s_cm c ^ ")" | PRollback ri -> "(rollback " ^ sn ri ^ ")" in
    (Printf.sprintf "prop %d-%d" t i,
     Printf.sprintf "%s prev=%s next=%s rbi=%s rbv=%s init=%s val=%s com=%s app=%s abo=%s vf=%s af=%s term=%s" kind (sn p.p_prev) (sn p.p_next) (sn p.p_rbindex)
       (match p.p_rbvalues with None | Some [] -> "nil" | Some c -> s_cm c) (s_ph p.p_init) (s_ph p.p_validate) (s_ph p.p_commit) (s_ph p.p_apply) (s_ph p.p_abort)
       (s_ft p.p_vfail) (s_ft p.p_afail) (sn p.p_term)) in
  let cfgs = List.sort compare (List.map (fun (t, c) -> (int_of_n t, c)) (w_cfgs w)) in
  let s_c (t, c) =
    [ (Printf.sprintf "cfg %d status" t,
       Printf.sprintf "index=%s proposed=%s committed=%s applied=%s state=%s master=%s term=%s amaster=%s aterm=%s" (sn c.c_index) (sn c.c_proposed) (sn c.c_committed)
         (sn c.c_applied) (s_cs c.c_state) (s_on c.c_master) (sn c.c_term) (s_on c.c_amaster) (sn c.c_aterm));
      (Printf.sprintf "cfg %d committed-map" t, s_cm c.c_values);
      (Printf.sprintf "cfg %d applied-map" t, s_cm c.c_avalues);
      (Printf.sprintf "cfg %d loaded-values" t, s_cm (overlay c.c_inline c.c_values));
      (Printf.sprintf "cfg %d loaded-applied-values" t, s_cm (overlay c.c_ainline c.c_avalues)) ] in
  let simple name l = (name, String.concat " " (List.sort compare l)) in
  List.map s_tx txs @ [ ("next", sn (next_index w)) ] @ List.map s_p props @ List.concat_map s_c cfgs
  @ [ simple "targets" (List.map (fun (t, p) -> Printf.sprintf "(%s %b)" (sn t) p) (w_targets w));
      simple "rels" (List.map (fun (c, (t, m)) -> Printf.sprintf "(%s %s %b)" (sn c) (sn t) m) (w_rels w));
      simple "conns" (List.map (fun (c, t) -> Printf.sprintf "(%s %s)" (sn c) (sn t)) (w_conns w)) ]
  @ List.map (fun (t, d) -> (Printf.sprintf "dev %s" (sn t),
                             Printf.sprintf "max=%s %s" (sn d.d_max) (String.concat " " (List.sort compare (List.map (fun (p, v) -> hex_of p ^ "=" ^ hex_of v) d.d_state)))))
      (List.sort (fun (a, _) (b, _) -> compare (int_of_n a) (int_of_n b)) (List.filter (fun (_, d) -> d.d_state <> [] || int_of_n d.d_max <> 0) (w_devs w)))

let diff_canon a b : string option =
  let rec go a b = match a, b with
    | [], [] -> None
    | (n, x) :: ta, (m, y) :: tb ->
      if n <> m then Some (Printf.sprintf "component model:%s impl:%s" n m)
      else if x <> y then Some (Printf.sprintf "%s: model=[%s] impl=[%s]" n x y)
      else go ta tb
    | (n, _) :: _, [] -> Some ("model has extra " ^ n)
    | [], (m, _) :: _ -> Some ("impl has extra " ^ m) in
  go a b

(* device requests of a step, canonical: sorted *)
let s_req (t, c, term, (r : req), code) =
  Printf.sprintf "(%s c=%s term=%s del=[%s] upd=[%s] %s)" (sn t) (sn c) (sn term)
    (String.concat "," (List.sort compare (List.map hex_of r.r_del)))
    (String.concat "," (List.sort compare (List.map (fun (p, v) -> hex_of p ^ "=" ^ hex_of v) r.r_upd))) (s_code code)

let decode_devlog (x : sx) =
  match lst x with
  | A "devlog" :: es ->
    List.map (fun e -> match lst e with
      | [ t; c; term; _he; L (A "del" :: ds); L (A "upd" :: us); code ] ->
        (num t, num c, num term,
         { r_del = List.map (fun d -> unhex (atom d)) ds;
           r_upd = List.map (fun u -> match lst u with [ p; v ] -> (unhex (atom p), unhex (atom v)) | _ -> failwith "upd") us },
         code_of (atom code))
      | _ -> failwith "devlog entry") es
  | _ -> failwith "devlog"

(* ------------------------------------------------------------------ helpers on worlds *)
let find_assoc k l = try Some (List.assoc k l) with Not_found -> None
let txs_of w = List.map (fun (i, t) -> (int_of_n i, t)) (w_txs w)
let props_of w = List.map (fun ((t, i), p) -> ((int_of_n t, int_of_n i), p)) (w_props w)
let cfgs_of w = List.map (fun (t, c) -> (int_of_n t, c)) (w_cfgs w)
(* what the northbound Get returns: the entries of the loaded view that are not marked deleted *)
let live_of (c : cmap config) =
  List.sort compare (List.filter_map (fun (_, v) -> if v.pv_deleted then None else Some (str_of v.pv_path, str_of v.pv_val)) (overlay c.c_inline c.c_values))

let rec nat_of_int i = if i <= 0 then O else S (nat_of_int (i - 1))

(* number of leading effects covered by k store/device write calls: the path-value write of a
   configuration Update/UpdateStatus and its entry write are one call *)
let prefix_for_calls (effs : (cmap, cmap, req) eff list) (k : int) : int =
  let rec go effs calls n =
    match effs with
    | [] -> n
    | (EPutValues _ | EPutAValues _) :: rest -> if calls >= k then n else go rest calls (n + 1)
    | _ :: rest -> if calls >= k then n else go rest (calls + 1) (n + 1) in
  (* a crash before the entry write: the values write is not visible either (same store call) *)
  let n = go effs 0 0 in
  let rec strip l n = match l with
    | [] -> n
    | _ -> n in
  let arr = Array.of_list effs in
  let n = strip effs n in
  if n > 0 && n <= Array.length arr && (match arr.(n - 1) with EPutValues _ | EPutAValues _ -> true | _ -> false) then n - 1 else n

(* ------------------------------------------------------------------ per-history bookkeeping *)
type hist = {
  mutable prev : istate option;
  mutable kind : string;
  mutable failed_apply : bool;        (* some apply failed / some device error was injected in this history *)
  mutable rollbacks : int;
  mutable crashes : int;
  mutable refused : (int * int) list;  (* (target, index): the device's latest answer to this change was a refusal *)
  before_change : (int * int, (string * string) list * (string * bool) list) Hashtbl.t;
  was_committed : (int * int, unit) Hashtbl.t;  (* (target, index): the committed index of the target has been that index *)
  (* (target, index) -> what Get showed just before that change was merged, and the change's (path, deleted) list *)
}
let hists : (string, hist) Hashtbl.t = Hashtbl.create 64
let hist_of id =
  let h = List.hd (String.split_on_char ':' id) in
  match Hashtbl.find_opt hists h with
  | Some x -> x
  | None -> let x = { prev = None; kind = "atomic"; failed_apply = false; rollbacks = 0; crashes = 0; refused = []; before_change = Hashtbl.create 8; was_committed = Hashtbl.create 8 } in Hashtbl.replace hists h x; x

(* C09: the results of the no-effect proposal reconciles since the last state-changing step of a history *)
let c09_results : (string, ((int * int) * string) list) Hashtbl.t = Hashtbl.create 64
let c09_hid id = List.hd (String.split_on_char ':' id)
let c09_reset id = Hashtbl.replace c09_results (c09_hid id) []
let c09_note id (label : sx) (res : string) =
  match lst label with
  | [ A "rec"; A "prop"; t; i; A "all"; _ ] ->
    let k = (inum t, inum i) in
    let l = try Hashtbl.find c09_results (c09_hid id) with Not_found -> [] in
    Hashtbl.replace c09_results (c09_hid id) ((k, res) :: List.remove_assoc k l)
  | _ -> ()

(* F-21: a transaction whose apply FAILED still has a committed proposal without apply phase, and the applied index of that
   target is below it: the target is wedged.  Returns (transaction, target) list *)
let c09_wedged (w : (cmap, cmap, req, dstate) world) : (int * int) list =
  let props = props_of w and cfgs = cfgs_of w in
  List.concat_map (fun (i, t) ->
      if t.t_apply = Some Failed then
        List.filter_map (fun ((tt, ii), p) ->
            if ii = i && p.p_commit = Some Done && p.p_apply = None && p.p_abort = None
               && (match find_assoc tt cfgs with Some c -> int_of_n c.c_applied < i | None -> false)
            then Some (i, tt) else None) props
      else []) (txs_of w)

(* ------------------------------------------------------------------ monitors on one observed step *)
let monitors id (label : sx) (pre : istate) (post : istate) (dl : (n * n * n * req * code) list) =
  let prew = pre.w and postw = post.w in
  let ptx = txs_of postw and pprops = props_of postw and pcfg = cfgs_of postw in
  let qprops = props_of prew and qcfg = cfgs_of prew in
  (* C01: no transaction has one proposal committing and another aborting *)
  List.iter (fun (i, t) ->
    match t.t_props with
    | Some tg ->
      let ps = List.filter_map (fun tt -> find_assoc (int_of_n tt, i) pprops) tg in
      if List.exists (fun p -> p.p_commit <> None) ps && List.exists (fun p -> p.p_abort <> None) ps then
        specviol id "c01_mixed_commit_abort" (Printf.sprintf "transaction %d has a committing and an aborting proposal" i)
    | None -> ()) ptx;
  (* C01/C06: the proposals a transaction drives are exactly one per target of its change (of the change it rolls back) *)
  List.iter (fun (i, t) ->
    match t.t_props with
    | Some tg ->
      let mine = List.sort compare (List.map int_of_n tg) in
      (match t.t_details with
       | TChange chs ->
         let want = List.sort compare (List.map (fun (tt, _) -> int_of_n tt) chs) in
         if mine <> want then specviol id "c01_proposals_do_not_cover_targets" (Printf.sprintf "transaction %d drives %d proposal(s) for %d target(s)" i (List.length mine) (List.length want))
       | TRollback ri ->
         (match find_assoc (int_of_n ri) ptx with
          | Some r ->
            (match r.t_details with
             | TChange chs ->
               let want = List.sort compare (List.map (fun (tt, _) -> int_of_n tt) chs) in
               if mine <> want then specviol id "c06_rollback_misses_target" (Printf.sprintf "rollback transaction %d of %d drives %d proposal(s) for %d target(s)" i (int_of_n ri) (List.length mine) (List.length want))
             | _ -> ())
          | None -> ()))
    | None -> ()) ptx;
  (* C02: the state invariants proved for every reachable world of the model (Proofs/P2_CursorChainInv.v C_inv,
     P2_CursorGuard.v G_inv, cursors_ordered, links_ordered, unique_prev), evaluated on the implementation's state *)
  let prop_of t i = find_assoc (t, i) pprops in
  List.iter (fun (t, c) ->
    let pr = int_of_n c.c_proposed and co = int_of_n c.c_committed and ap = int_of_n c.c_applied in
    if not (ap <= co && co <= pr) then specviol id "c02_cursors_not_ordered" (Printf.sprintf "target %d applied=%d committed=%d proposed=%d" t ap co pr);
    if pr <> 0 && prop_of t pr = None then specviol id "c02_tail_missing" (Printf.sprintf "target %d Proposed.Index %d names no proposal" t pr);
    List.iter (fun (nm, ix) ->
      if ix <> 0 then
        match prop_of t ix with
        | Some p when p.p_init = Some Done -> ()
        | _ -> specviol id "c02_cursor_names_unlinked_proposal" (Printf.sprintf "target %d %s index %d" t nm ix)) [ ("committed", co); ("applied", ap) ]) pcfg;
  List.iter (fun ((t, i), p) ->
    let prv = int_of_n p.p_prev and nxt = int_of_n p.p_next in
    if (prv <> 0 && prv >= i) || (nxt <> 0 && nxt <= i) then specviol id "c02_links_not_ordered" (Printf.sprintf "proposal %d-%d prev=%d next=%d" t i prv nxt);
    if prv <> 0 then
      (match prop_of t prv with
       | Some q when int_of_n q.p_next = i -> ()
       | _ -> specviol id "c02_chain_backlink" (Printf.sprintf "proposal %d-%d has prev=%d but that proposal does not point back" t i prv));
    if p.p_init <> Some Done && nxt <> 0 then specviol id "c02_open_proposal_has_successor" (Printf.sprintf "proposal %d-%d" t i);
    (match find_assoc t pcfg with
     | Some c ->
       let co = int_of_n c.c_committed and ap = int_of_n c.c_applied in
       if p.p_validate = Some Done && not (co = prv || i <= co) then
         specviol id "c02_commit_guard" (Printf.sprintf "validated proposal %d-%d: committed=%d prev=%d" t i co prv);
       if p.p_apply = Some Failed && not (ap = prv || i <= ap) then
         specviol id "c02_failed_guard" (Printf.sprintf "apply-failed proposal %d-%d: applied=%d prev=%d" t i ap prv)
     | None -> ());
    if p.p_init = Some Done && prv <> 0 then
      List.iter (fun ((t2, j), q) ->
        if t2 = t && j < i && q.p_init = Some Done && int_of_n q.p_prev = prv then
          specviol id "c02_shared_prev" (Printf.sprintf "proposals %d-%d and %d-%d both have prev=%d" t j t i prv)) pprops) pprops;
  (* at most one proposal per target is still linking, and it is the newest *)
  List.iter (fun ((t, i), p) ->
    if p.p_init <> Some Done then
      List.iter (fun ((t2, j), _) -> if t2 = t && j > i then specviol id "c02_open_is_not_last" (Printf.sprintf "proposal %d-%d is not INITIALIZED but %d-%d exists" t i t j)) pprops) pprops;
  (* which proposal acted in this step *)
  let actor = match lst label with
    | [ A "rec"; A "prop"; t; i; _; _ ] -> Some (inum t, inum i)
    | _ -> None in
  List.iter (fun (t, c) ->
    match find_assoc t qcfg with
    | None -> ()
    | Some c0 ->
      let com0 = int_of_n c0.c_committed and com1 = int_of_n c.c_committed in
      let app0 = int_of_n c0.c_applied and app1 = int_of_n c.c_applied in
      (* C01/C05: what Get shows changes only by the commit of a validated proposal *)
      if live_of c0 <> live_of c then begin
        match actor with
        | Some (ta, ia) when ta = t ->
          (match find_assoc (ta, ia) qprops with
           | Some p when p.p_commit = Some Doing && p.p_apply = None ->
             if p.p_validate <> Some Done then specviol id "c05_commit_without_validation" (Printf.sprintf "proposal %d-%d merged while validate=%s" ta ia (s_ph p.p_validate));
             if p.p_abort <> None then specviol id "c01_aborted_proposal_merged" (Printf.sprintf "proposal %d-%d" ta ia)
           | Some p when p.p_apply = Some Doing -> specviol id "c03_apply_rewrites_committed_values" (Printf.sprintf "apply of proposal %d-%d changed the readable configuration of target %d" ta ia t)
           | _ -> specviol id "c01_values_changed_outside_commit" (Printf.sprintf "target %d by proposal %d-%d" t ta ia))
        | _ -> specviol id "c01_values_changed_outside_commit" (Printf.sprintf "target %d changed by a step that is not a proposal reconcile" t)
      end;
      (* C02: committed index moves from the predecessor to the acting proposal only *)
      if com0 <> com1 then begin
        match actor with
        | Some (ta, ia) when ta = t && ia = com1 ->
          (match find_assoc (ta, ia) qprops with
           | Some p when int_of_n p.p_prev = com0 && (p.p_commit = Some Doing || p.p_abort = Some Doing) -> ()
           | Some p -> specviol id "c02_commit_order" (Printf.sprintf "target %d committed %d->%d by proposal with prev=%s commit=%s abort=%s" t com0 com1 (sn p.p_prev) (s_ph p.p_commit) (s_ph p.p_abort))
           | None -> specviol id "c02_commit_order" "unknown proposal")
        | _ -> specviol id "c02_commit_order" (Printf.sprintf "target %d committed index %d->%d not by proposal %d" t com0 com1 com1)
      end;
      if app0 <> app1 then begin
        match actor with
        | Some (ta, ia) when ta = t && ia = app1 ->
          (match find_assoc (ta, ia) qprops with
           (* Apply-Doing (OK answer or refusal), Abort-Doing, or Apply-Failed: the re-run of a refusal that was cut
              between the proposal write and the configuration write completes the move (C02_applied_moves_by_successor) *)
           | Some p when int_of_n p.p_prev = app0 && (p.p_apply = Some Doing || p.p_abort = Some Doing || p.p_apply = Some Failed) -> ()
           | Some p -> specviol id "c02_apply_order" (Printf.sprintf "target %d applied %d->%d by proposal with prev=%s apply=%s abort=%s" t app0 app1 (sn p.p_prev) (s_ph p.p_apply) (s_ph p.p_abort))
           | None -> specviol id "c02_apply_order" "unknown proposal")
        | _ -> specviol id "c02_apply_order" (Printf.sprintf "target %d applied index %d->%d not by proposal %d" t app0 app1 app1)
      end;
      if com1 < com0 then specviol id "c02_committed_index_decreased" (Printf.sprintf "target %d %d->%d" t com0 com1);
      if app1 < app0 then specviol id "c02_applied_index_decreased" (Printf.sprintf "target %d %d->%d" t app0 app1);
      (* C10: terms only grow; a newly assigned master comes with a larger term *)
      let t0 = int_of_n c0.c_term and t1 = int_of_n c.c_term in
      if t1 < t0 then specviol id "c10_term_decreased" (Printf.sprintf "target %d term %d->%d" t t0 t1);
      if c.c_master <> c0.c_master && c.c_master <> None && t1 <= t0 then
        specviol id "c10_new_master_same_term" (Printf.sprintf "target %d master %s->%s in term %d" t (s_on c0.c_master) (s_on c.c_master) t1);
      if int_of_n c.c_aterm > t1 then specviol id "c10_applied_term_ahead" (Printf.sprintf "target %d" t);
      (* a newly elected master is a connection whose relation exists, is owned by this node and names this target *)
      (match c.c_master with
       | Some m when c.c_master <> c0.c_master ->
         (match List.assoc_opt m (w_rels prew) with
          | Some (tt, true) when int_of_n tt = t -> ()
          | _ -> specviol id "c10_elected_without_relation" (Printf.sprintf "target %d master %s" t (sn m)))
       | _ -> ());
      (* the applied term rises on a non-persistent target that has applied something only together with a complete,
         all-OK re-push of the applied values in the new term over the master's connection *)
      if int_of_n c.c_aterm > int_of_n c0.c_aterm && int_of_n c0.c_applied <> 0
         && (match List.assoc_opt (n_of_int t) (w_targets prew) with Some pers -> not pers | None -> false) then begin
        let want = List.length (resync_payload (aview overlay c0)) in
        let mine = List.filter (fun (tt, _, _, _, _) -> int_of_n tt = t) dl in
        if List.length mine <> want || List.exists (fun (_, conn, term, _, code) -> code <> COk || Some conn <> c0.c_master || int_of_n term <> int_of_n c0.c_term) mine then
          specviol id "c10_resync_incomplete" (Printf.sprintf "target %d applied term %s->%s with %d of %d re-push request(s) OK in term %s" t (sn c0.c_aterm) (sn c.c_aterm)
                                                 (List.length (List.filter (fun (_, _, _, _, code) -> code = COk) mine)) want (sn c0.c_term))
      end) pcfg;
  (* device requests of this step *)
  List.iter (fun (t, conn, term, (_ : req), code) ->
    let t = int_of_n t in
    match find_assoc t qcfg with
    | None -> specviol id "c10_request_without_configuration" (Printf.sprintf "target %d" t)
    | Some c ->
      (* C10: election id = current term, over the current master's connection *)
      if int_of_n term <> int_of_n c.c_term then specviol id "c10_election_id" (Printf.sprintf "target %d request carries election id %s, term is %s" t (sn term) (sn c.c_term));
      if Some conn <> c.c_master then specviol id "c10_not_master_connection" (Printf.sprintf "target %d request over connection %s, master is %s" t (sn conn) (s_on c.c_master));
      (match lst label with
       | [ A "rec"; A "prop"; _; i; _; _ ] ->
         let i = inum i in
         (match find_assoc (t, i) qprops with
          | Some p ->
            (* C02: sent only when every predecessor finished applying and the change is merged *)
            if not (int_of_n c.c_applied = int_of_n p.p_prev || (int_of_n p.p_prev = 0 && int_of_n c.c_applied < i)) then
              specviol id "c02_sent_before_predecessor_applied" (Printf.sprintf "proposal %d-%d sent while applied=%s prev=%s" t i (sn c.c_applied) (sn p.p_prev));
            if int_of_n c.c_committed < i || p.p_commit <> Some Done then
              specviol id "c02_sent_before_merged" (Printf.sprintf "proposal %d-%d sent while committed=%s commit=%s" t i (sn c.c_committed) (s_ph p.p_commit));
            (* C10: not while synchronizing / before the re-push of this term *)
            if c.c_state = CSynchronizing || int_of_n c.c_aterm < int_of_n c.c_term then
              specviol id "c10_change_before_resync" (Printf.sprintf "proposal %d-%d sent in term %s, applied term %s, state %s" t i (sn c.c_term) (sn c.c_aterm) (s_cs c.c_state));
            (* C11 *)
            (match find_assoc (t, i) pprops, find_assoc t pcfg with
             | Some p1, Some c1 ->
               (match code with
                | COk -> ()
                | CUnavailable | CCanceled | CDeadlineExceeded | CPermissionDenied ->
                  if p1.p_apply <> Some Doing || int_of_n c1.c_applied <> int_of_n c.c_applied then
                    specviol id "c11_transient_failed" (Printf.sprintf "proposal %d-%d: device answered %s and the change is apply=%s" t i (s_code code) (s_ph p1.p_apply))
                | _ ->
                  if hist_of id |> fun h -> h.kind = "atomic" && (match lst label with [ _; _; _; _; A "all"; _ ] -> true | _ -> false) then begin
                    if p1.p_apply <> Some Failed then specviol id "c11_refusal_not_recorded" (Printf.sprintf "proposal %d-%d: device answered %s, apply=%s" t i (s_code code) (s_ph p1.p_apply));
                    let expect = match classify (observed code) with ClsFail f -> Some f | _ -> None in
                    if p1.p_apply = Some Failed && p1.p_afail <> expect then
                      specviol id "c11_wrong_failure_class" (Printf.sprintf "proposal %d-%d: device answered %s, recorded %s" t i (s_code code) (s_ft p1.p_afail));
                    if int_of_n c1.c_applied <> i then specviol id "c11_failed_apply_blocks_successors" (Printf.sprintf "proposal %d-%d failed but applied index is %s" t i (sn c1.c_applied))
                  end)
             | _ -> ())
          | None -> specviol id "c02_request_for_unknown_proposal" (Printf.sprintf "%d-%d" t i))
       | [ A "rec"; A "cfg"; _; _; _ ] ->
         if c.c_state <> CSynchronizing then specviol id "c10_resync_outside_synchronizing" (Printf.sprintf "target %d" t)
       | _ -> specviol id "c10_request_from_unexpected_step" (Printf.sprintf "target %d" t))) dl;
  (* C11: a change whose latest answer from the device was a refusal is never marked applied *)
  (let h = hist_of id in
   List.iter (fun (t, _, _, (_ : req), code) ->
     match lst label with
     | [ A "rec"; A "prop"; tl; il; _; _ ] when inum tl = int_of_n t ->
       let k = (int_of_n t, inum il) in
       (match code with
        | COk -> h.refused <- List.filter (fun x -> x <> k) h.refused
        | CUnavailable | CCanceled | CDeadlineExceeded | CPermissionDenied -> ()
        | _ -> if not (List.mem k h.refused) then h.refused <- k :: h.refused)
     | _ -> ()) dl;
   List.iter (fun (t, i) ->
     match find_assoc (t, i) pprops with
     | Some p when p.p_apply = Some Done ->
       specviol id "c11_refused_change_marked_applied" (Printf.sprintf "proposal %d-%d: the device refused it, it is APPLIED" t i);
       h.refused <- List.filter (fun x -> x <> (t, i)) h.refused
     | _ -> ()) h.refused);
  (* C11: a recorded refusal is final; a change is marked applied only by a request the device answered OK (or because
     the applied index already covers it, or on a persistent target, which has no device) *)
  List.iter (fun ((t, i), p0) ->
    match find_assoc (t, i) pprops with
    | Some p1 ->
      if p0.p_apply = Some Failed && p1.p_apply <> Some Failed then
        specviol id "c11_refusal_not_final" (Printf.sprintf "proposal %d-%d apply FAILED -> %s" t i (s_ph p1.p_apply));
      if p0.p_apply = Some Doing && p1.p_apply = Some Done then begin
        let ok_now = List.exists (fun (tt, _, _, _, code) -> int_of_n tt = t && code = COk) dl in
        let covered = match find_assoc t qcfg with Some c0 -> int_of_n c0.c_applied >= i | None -> false in
        let persistent = match List.assoc_opt (n_of_int t) (w_targets prew) with Some b -> b | None -> false in
        if not (ok_now || covered || persistent) then
          specviol id "c11_applied_without_ok" (Printf.sprintf "proposal %d-%d became APPLIED in a step without an OK answer of the device" t i)
      end;
      (match find_assoc t qcfg, find_assoc t pcfg with
       | Some c0, Some c1 ->
         (* C05: a verdict is taken on the configuration as its predecessor left it *)
         if p0.p_validate = Some Doing && p1.p_validate = Some Done && int_of_n p0.p_prev <> 0 && int_of_n c0.c_committed <> int_of_n p0.p_prev then
             specviol id "c05_validated_before_predecessor_committed" (Printf.sprintf "proposal %d-%d validated while committed index is %s, its predecessor is %s" t i (sn c0.c_committed) (sn p0.p_prev));
         (* C06: the index a rollback returns to is the index the configuration had when the change was validated *)
         if p0.p_validate = Some Doing && p1.p_validate = Some Done then
           (match p1.p_details with
            | PChange _ -> if int_of_n p1.p_rbindex <> int_of_n c0.c_index then
                specviol id "c06_rollback_index_not_recorded" (Printf.sprintf "proposal %d-%d recorded rollback index %s, the configuration was at index %s" t i (sn p1.p_rbindex) (sn c0.c_index))
            | _ -> ());
         (* C01: a proposal is COMMITTED only when the committed index covers it - and has BEEN its index: the committed
            index moves from p_prev to i by proposal i only (C02_committed_moves_by_successor), one move per invocation,
            so the merge of a COMMITTED proposal is a state this history has shown *)
         let wc = (hist_of id).was_committed in
         Hashtbl.replace wc (t, int_of_n c0.c_committed) (); Hashtbl.replace wc (t, int_of_n c1.c_committed) ();
         if p0.p_commit = Some Doing && p1.p_commit = Some Done then begin
           if int_of_n c1.c_committed < i then
             specviol id "c01_committed_without_merge" (Printf.sprintf "proposal %d-%d is COMMITTED, committed index of the target is %s" t i (sn c1.c_committed))
           else if not (Hashtbl.mem wc (t, i)) then
             specviol id "c01_committed_without_merge" (Printf.sprintf "proposal %d-%d is COMMITTED, but the committed index of the target went to %s without ever being %d: its values were never merged" t i (sn c1.c_committed) i)
         end
       | _ -> ());
      (* C07/C01: an abort that has started is never turned into a commit, and the other way round *)
      if p0.p_abort <> None && p1.p_abort = None then specviol id "c07_abort_forgotten" (Printf.sprintf "proposal %d-%d" t i);
      if p0.p_commit = Some Done && p1.p_commit <> Some Done then specviol id "c07_commit_forgotten" (Printf.sprintf "proposal %d-%d" t i)
    | None -> specviol id "c07_proposal_vanished" (Printf.sprintf "proposal %d-%d" t i)) qprops;
  (* C04: a step in which the device of a target answered no request with OK changes neither that device nor what the
     applied values of the target stand for *)
  List.iter (fun (t, c0) ->
    match find_assoc t pcfg with
    | Some c1 ->
      let ok_now = List.exists (fun (tt, _, _, _, code) -> int_of_n tt = t && code = COk) dl in
      let restart = (match lst label with [ A "devrestart"; tt ] -> inum tt = t | _ -> false) in
      if not ok_now && not restart then begin
        let lv c = List.sort compare (List.map (fun (p, v) -> (str_of p, str_of v)) (live (aview overlay c))) in
        if lv c0 <> lv c1 then
          specviol id "c04_applied_values_changed_without_ok" (Printf.sprintf "target %d applied=[%s] -> [%s]" t
            (String.concat "," (List.map (fun (p, v) -> p ^ "=" ^ v) (lv c0))) (String.concat "," (List.map (fun (p, v) -> p ^ "=" ^ v) (lv c1))));
        let dv w = match List.assoc_opt (n_of_int t) (w_devs w) with Some d -> d.d_state | None -> [] in
        if dv prew <> dv postw then specviol id "c04_device_changed_without_ok" (Printf.sprintf "target %d" t)
      end
    | None -> ()) qcfg;
  (* C04: after a complete apply answered OK, and after a completed re-push, the device holds what the applied values
     stand for (live leaves that are not beneath a deleted path) *)
  (let complete = match lst label with
     | [ A "rec"; A "prop"; _; _; A "all"; _ ] | [ A "rec"; A "cfg"; _; A "all"; _ ] -> true | _ -> false in
   if complete && dl <> [] && List.for_all (fun (_, _, _, _, c) -> c = COk) dl then
     List.iter (fun t ->
       match find_assoc (int_of_n t) pcfg, find_assoc (int_of_n t) qcfg with
       | Some c1, Some c0 ->
         let synced_now = c1.c_state = CSynchronized && int_of_n c1.c_aterm = int_of_n c1.c_term in
         let progressed = int_of_n c1.c_applied <> int_of_n c0.c_applied || (c0.c_state = CSynchronizing && c1.c_state = CSynchronized) in
         if synced_now && progressed then begin
           let dev = match List.assoc_opt t (w_devs postw) with
             | Some d -> List.sort compare (List.map (fun (p, v) -> (str_of p, str_of v)) d.d_state) | None -> [] in
           let app = List.sort compare (List.map (fun (p, v) -> (str_of p, str_of v)) (live (overlay c1.c_ainline c1.c_avalues))) in
           (* a device that was restarted without losing its connection is outside the property *)
           if dev <> app && not (hist_of id).failed_apply then
             specviol id "c04_device_differs_after_apply" (Printf.sprintf "target %s device=[%s] applied=[%s]" (sn t)
               (String.concat "," (List.map (fun (p, v) -> p ^ "=" ^ v) dev)) (String.concat "," (List.map (fun (p, v) -> p ^ "=" ^ v) app)))
         end
       | _ -> ()) (List.sort_uniq compare (List.map (fun (t, _, _, _, _) -> t) dl)));
  (* C02: the re-push of the configuration controller sends applied values only - a change that is committed but whose
     proposal has not been applied yet (an earlier transaction of the target may still be applying) must not reach the
     device this way: every leaf the device gains in a configuration-controller step is a live applied value *)
  (match lst label with
   | A "rec" :: A "cfg" :: _ when dl <> [] ->
     List.iter (fun t ->
       match find_assoc (int_of_n t) pcfg, find_assoc (int_of_n t) qcfg with
       | Some c1, Some c0 ->
         let dv w = match List.assoc_opt t (w_devs w) with
           | Some d -> List.map (fun (p, v) -> (str_of p, str_of v)) d.d_state | None -> [] in
         let app c = List.map (fun (p, v) -> (str_of p, str_of v)) (live (overlay c.c_ainline c.c_avalues)) in
         let d0 = dv prew and a0 = app c0 and a1 = app c1 in
         List.iter (fun (p, v) ->
           if not (List.mem (p, v) d0) && not (List.mem (p, v) a0) && not (List.mem (p, v) a1) then
             specviol id "c02_repush_sends_unapplied_change" (Printf.sprintf "target %s: the re-push gave the device %s=%s, which is not an applied value (applied index %d, committed index %d)"
               (sn t) p v (int_of_n c0.c_applied) (int_of_n c0.c_committed))) (dv postw)
       | _ -> ()) (List.sort_uniq compare (List.map (fun (t, _, _, _, _) -> t) dl))
   | _ -> ());
  (* C11: a refused request leaves the device as it was *)
  List.iter (fun (t, _, _, _, code) ->
    if code <> COk then begin
      let d0 = List.assoc_opt t (w_devs prew) and d1 = List.assoc_opt t (w_devs postw) in
      let st = function None -> [] | Some d -> List.sort compare d.d_state in
      if List.for_all (fun (t', _, _, _, c') -> t' <> t || c' <> COk) dl && st d0 <> st d1 then
        specviol id "c11_refused_request_changed_device" (Printf.sprintf "target %s" (sn t))
    end) dl;
  (* C06: a rollback is validated only against the latest change of the target, and its commit restores what Get
     showed immediately before that change *)
  (match actor with
   | Some (ta, ia) ->
     (match find_assoc (ta, ia) qprops, find_assoc (ta, ia) pprops, find_assoc ta qcfg, find_assoc ta pcfg with
      | Some p0, Some p1, Some c0, Some c1 ->
        (match p0.p_details with
         | PChange ch when p0.p_commit = Some Doing && int_of_n c0.c_committed <> int_of_n c1.c_committed ->
           Hashtbl.replace (hist_of id).before_change (ta, ia) (live_of c0, List.map (fun (_, v) -> (str_of v.pv_path, v.pv_deleted)) ch)
         | PRollback ri ->
           let ri = int_of_n ri in
           if p0.p_validate = Some Doing && p1.p_validate = Some Done then begin
             if int_of_n c0.c_index <> ri then
               specviol id "c06_rollback_of_non_latest_accepted" (Printf.sprintf "rollback %d-%d of index %d validated while the latest change of the target is %s" ta ia ri (sn c0.c_index));
             (match find_assoc (ta, ri) qprops with
              | Some q -> (match q.p_details with PRollback _ -> specviol id "c06_rollback_of_rollback_accepted" (Printf.sprintf "%d-%d" ta ia) | _ -> ())
              | None -> specviol id "c06_rollback_of_missing_accepted" (Printf.sprintf "%d-%d" ta ia))
           end;
           if p0.p_commit = Some Doing && int_of_n c0.c_committed <> int_of_n c1.c_committed then begin
             match Hashtbl.find_opt (hist_of id).before_change (ta, ri) with
             | Some (before, change) ->
               let after = live_of c1 in
               if before <> after then begin
                 let missing = List.filter (fun x -> not (List.mem x after)) before and extra = List.filter (fun x -> not (List.mem x before)) after in
                 (* F-13: children removed by a subtree delete of the change are not part of its rollback values *)
                 let under_deleted (path, _) = List.exists (fun (d, del) -> del && is_path_below (bytes_of_string path) (bytes_of_string d)) change in
                 let sigs = if extra = [] && missing <> [] && List.for_all under_deleted missing then "c06_subtree_children_not_restored" else "c06_rollback_not_restoring" in
                 specviol id sigs (Printf.sprintf "target %d rollback of %d: before the change [%s], after the rollback [%s]" ta ri
                                     (String.concat "," (List.map (fun (p, v) -> p ^ "=" ^ v) before)) (String.concat "," (List.map (fun (p, v) -> p ^ "=" ^ v) after)))
               end;
               if int_of_n c1.c_index >= ri then specviol id "c06_index_not_restored" (Printf.sprintf "target %d index %s after rolling back %d" ta (sn c1.c_index) ri)
             | None -> ()
           end
         | _ -> ())
      | _ -> ())
   | None -> ());
  (* C05: a rejecting plugin or a missing plugin fails the proposal *)
  (match lst label with
   | [ A "rec"; A "prop"; t; i; A "all"; A v ] when v = "0" ->
     (match find_assoc (inum t, inum i) pprops with
      | Some p when p.p_validate = Some Failed && p.p_vfail = Some FInvalid -> ()
      | Some p -> specviol id "c05_rejected_not_failed" (Printf.sprintf "proposal %s-%s: plugin rejected, validate=%s" (atom t) (atom i) (s_ph p.p_validate))
      | None -> ())
   | _ -> ())

(* the narrow shape of finding F-07c: every leaf on which the two sides differ lies beneath a stored tombstone *)
let below_tombstone_only (c : cmap config) (a : (string * string) list) (b : (string * string) list) : bool =
  let tombs = List.filter_map (fun (_, v) -> if v.pv_deleted then Some v.pv_path else None) (overlay c.c_inline c.c_values @ overlay c.c_ainline c.c_avalues) in
  let differing = List.filter (fun x -> not (List.mem x b)) a @ List.filter (fun x -> not (List.mem x a)) b in
  differing <> [] && List.for_all (fun (p, _) -> List.exists (fun t -> is_path_below (bytes_of_string p) t) tombs) differing

(* ------------------------------------------------------------------ end-of-history monitors *)
let end_monitors hid (st : istate) quiescent (nb : sx) (gets : string) =
  let w = st.w in
  let txs = txs_of w and props = props_of w and cfgs = cfgs_of w in
  let h = hist_of hid in
  let all_connected = List.for_all (fun (t, _) -> List.exists (fun (_, tt) -> tt = t) (w_conns w)) (w_targets w) in
  if not quiescent then specviol hid "c09_no_fixed_point" "the controllers did not reach a fixed point within the pass budget";
  (* C09/C07: with every target connected every transaction ends APPLIED or FAILED *)
  if quiescent && all_connected then
    List.iter (fun (i, t) ->
      let targets_persistent = match t.t_props with
        | Some tg -> List.exists (fun tt -> List.assoc_opt tt (w_targets w) = Some true) tg | None -> false in
      let terminal = t.t_state = TApplied || (t.t_state = TFailed && (t.t_abort = Some Done || t.t_apply = Some Failed)) in
      let behind_wedge = List.exists (fun (wi, wt) -> wi < i && List.mem_assoc (wt, i) props) (c09_wedged w) in
      (* C11: a failed transaction fails that change only - when everything before transaction i has ended and one of
         those failed on a target of i (or is its direct predecessor), i must still run to its end *)
      let term_of (tj : cmap txn) = tj.t_state = TApplied || (tj.t_state = TFailed && (tj.t_abort = Some Done || tj.t_apply = Some Failed)) in
      let earlier = List.filter (fun (j, _) -> j < i) txs in
      if not terminal && not targets_persistent && List.for_all (fun (_, tj) -> term_of tj) earlier
         && List.exists (fun (j, tj) -> tj.t_state = TFailed && (j = i - 1 || (match tj.t_props, t.t_props with
             | Some a, Some b -> List.exists (fun x -> List.mem x b) a | _ -> false))) earlier then
        specviol hid "c11_failed_transaction_blocks_successor" (Printf.sprintf "transaction %d is %s (val=%s com=%s app=%s) at the fixed point although every earlier transaction has ended"
          i (s_ts t.t_state) (s_ph t.t_validate) (s_ph t.t_commit) (s_ph t.t_apply));
      if not terminal && not targets_persistent then
        specviol hid (if behind_wedge then "c09_unapplied_behind_failed_tx" else "c09_stranded_transaction") (Printf.sprintf "transaction %d is %s init=%s val=%s com=%s app=%s abo=%s at the fixed point" i (s_ts t.t_state)
          (s_ph t.t_init) (s_ph t.t_validate) (s_ph t.t_commit) (s_ph t.t_apply) (s_ph t.t_abort))) txs;
  (* C09 / F-21: the wedged target itself (whether or not the run came to rest) *)
  List.iter (fun (i, tt) ->
      specviol hid "c09_unapplied_behind_failed_tx"
        (Printf.sprintf "transaction %d failed its apply, its proposal on target %d is committed, has no apply phase and applied index %s < %d: every later change of target %d waits for ever"
           i tt (match find_assoc tt cfgs with Some c -> sn c.c_applied | None -> "?") i tt)) (c09_wedged w);
  (* C09: at the fixed point no two proposals may re-queue each other (the work queue would never drain) *)
  if quiescent then begin
    let rs = try Hashtbl.find c09_results hid with Not_found -> [] in
    List.iter (fun ((t1, i1), r1) ->
        match String.split_on_char ':' r1 with
        | [ "rqprop"; t2; i2 ] ->
          let k2 = (int_of_string t2, int_of_string i2) in
          if (t1, i1) < k2 && List.assoc_opt k2 rs = Some (Printf.sprintf "rqprop:%d:%d" t1 i1) then begin
            let wedged = List.exists (fun (wi, wt) -> wt = t1 && (wi = i1 || wi = snd k2)) (c09_wedged w) in
            (* the member that is COMMITTED without apply phase, and whether its transaction is parked at the apply gate
               (SERIALIZABLE predecessor not APPLIED yet); excused only while a device is away (F-C09-22): with every target
               connected a pair at the fixed point is a livelock *)
            let gated = List.exists (fun (tt, ii) ->
                match find_assoc (tt, ii) props, find_assoc ii txs with
                | Some p, Some tx -> p.p_commit = Some Done && p.p_apply = None && tx.t_commit = Some Done && tx.t_apply = None && tx.t_abort = None
                | _ -> false) [ (t1, i1); k2 ] in
            let st (tt, ii) = match find_assoc (tt, ii) props, find_assoc ii txs with
              | Some p, Some tx -> Printf.sprintf "%d-%d[commit=%s apply=%s abort=%s; tx %s commit=%s apply=%s]" tt ii (s_ph p.p_commit) (s_ph p.p_apply) (s_ph p.p_abort)
                                     (s_ts tx.t_state) (s_ph tx.t_commit) (s_ph tx.t_apply)
              | _ -> Printf.sprintf "%d-%d[?]" tt ii in
            specviol hid (if wedged then "c09_unapplied_behind_failed_tx" else if gated && not all_connected then "c09_requeue_pair_behind_gate" else "c09_requeue_pair")
              (Printf.sprintf "at the fixed point the reconciles of proposals %s and %s do nothing and re-queue each other" (st (t1, i1)) (st k2))
          end
        | _ -> ()) rs
  end;
  (* C09: at the fixed point no proposal whose turn it is waits in APPLYING on a target that is mastered, synchronised and connected *)
  if quiescent then
    List.iter (fun ((tt, i), p) ->
        if p.p_apply = Some Doing then
          match find_assoc tt cfgs with
          | Some c ->
            let head = int_of_n c.c_applied < i && (int_of_n p.p_prev = 0 || int_of_n c.c_applied = int_of_n p.p_prev) in
            let ready = c.c_state <> CSynchronizing && int_of_n c.c_aterm >= int_of_n c.c_term
                        && List.mem_assoc (n_of_int tt) (w_targets w)
                        && (match c.c_master with
                            | Some m -> List.mem_assoc m (w_conns w) && (match List.assoc_opt m (w_rels w) with Some (_, true) -> true | _ -> false)
                            | None -> false) in
            if head && ready then
              specviol hid "c09_idle_apply_waiting"
                (Printf.sprintf "proposal %d-%d is APPLYING, applied index %s, prev %s, configuration %s in term %s/%s with a live master, and no reconcile sends it"
                   tt i (sn c.c_applied) (sn p.p_prev) (s_cs c.c_state) (sn c.c_term) (sn c.c_aterm))
          | None -> ()) props;
  (* C01: all-or-nothing at quiescence *)
  if quiescent then
    List.iter (fun (i, t) ->
      match t.t_props with
      | Some tg when List.length tg > 1 ->
        let ps = List.filter_map (fun tt -> find_assoc (int_of_n tt, i) props) tg in
        let committed = List.filter (fun p -> p.p_commit = Some Done) ps in
        if committed <> [] && List.length committed <> List.length tg && t.t_state <> TPending then
          specviol hid "c01_partial_commit" (Printf.sprintf "transaction %d committed on %d of %d targets" i (List.length committed) (List.length tg));
        if List.exists (fun p -> p.p_validate = Some Failed) ps then begin
          if t.t_state <> TFailed then specviol hid "c01_rejected_not_failed" (Printf.sprintf "transaction %d" i);
          if committed <> [] then specviol hid "c01_rejected_but_committed" (Printf.sprintf "transaction %d" i)
        end
      | _ -> ()) txs;
  (* C04: connected + synchronized + nothing in flight => device = stored configuration (histories without a failed apply) *)
  if quiescent && all_connected && not h.failed_apply then
    List.iter (fun (t, c) ->
      let in_flight = List.exists (fun ((tt, _), p) -> tt = t && (p.p_apply = Some Doing || p.p_commit = Some Doing || p.p_validate = Some Doing || (p.p_init <> Some Done) || (p.p_abort = Some Doing))) props in
      let pending_apply = List.exists (fun ((tt, i), p) -> tt = t && p.p_commit = Some Done && p.p_apply = None && p.p_abort = None && i > int_of_n c.c_applied) props in
      if c.c_state = CSynchronized && not in_flight && not pending_apply && int_of_n c.c_applied = int_of_n c.c_committed then begin
        let dev = match List.assoc_opt (n_of_int t) (w_devs w) with Some d -> List.sort compare (List.map (fun (p, v) -> (str_of p, str_of v)) d.d_state) | None -> [] in
        if dev <> live_of c then
          specviol hid (if below_tombstone_only c dev (live_of c) then "c03_recreate_under_tombstone" else "c04_device_differs") (Printf.sprintf "target %d device=[%s] stored=[%s]" t
            (String.concat "," (List.map (fun (p, v) -> p ^ "=" ^ v) dev)) (String.concat "," (List.map (fun (p, v) -> p ^ "=" ^ v) (live_of c))))
      end) cfgs;
  (* C08: answers of the northbound calls *)
  (match lst nb with
   | A "nb" :: calls ->
     List.iter (fun c -> match lst c with
       | [ kind; idx; code; _resp ] ->
         let i = inum idx in
         (match find_assoc i txs with
          | None -> ()
          | Some t ->
            let code = atom code in
            stat ("nb." ^ atom kind ^ "." ^ code);
            if code = "HANG" then begin
              let finished = t.t_state = TFailed || (t.t_state = TApplied) || (not t.t_sync && t.t_state = TCommitted) in
              if finished then specviol hid "c08_unanswered" (Printf.sprintf "%s call for transaction %d still waiting, transaction is %s" (atom kind) i (s_ts t.t_state))
            end else if code = "OK" then begin
              let reached = if t.t_sync || atom kind = "rollback" then t.t_state = TApplied else (t.t_state = TCommitted || t.t_state = TApplied || t.t_state = TFailed && t.t_apply = Some Failed) in
              if not reached then specviol hid "c08_success_before_stage" (Printf.sprintf "%s call for transaction %d answered OK, transaction is %s" (atom kind) i (s_ts t.t_state))
            end else begin
              if t.t_state <> TFailed then specviol hid "c08_error_without_failure" (Printf.sprintf "%s call for transaction %d answered %s, transaction is %s" (atom kind) i code (s_ts t.t_state))
              else begin
                let expect = match t.t_failure with
                  | Some FUnknown -> "Unknown" | Some FCanceled -> "Canceled" | Some FNotFound -> "NotFound" | Some FAlreadyExists -> "AlreadyExists"
                  | Some FUnauthorized -> "Unauthenticated" | Some FForbidden -> "PermissionDenied" | Some FConflict -> "FailedPrecondition"
                  | Some FInvalid -> "InvalidArgument" | Some FUnavailable -> "Unavailable" | Some FNotSupported -> "Unimplemented"
                  | Some FTimeout -> "DeadlineExceeded" | Some FInternal -> "Internal" | None -> "Unknown" in
                if code <> expect then specviol hid "c08_wrong_error_class" (Printf.sprintf "transaction %d failure %s answered %s" i (s_ft t.t_failure) code)
              end
            end)
       | _ -> ()) calls
   | _ -> ());
  (* C03/C01: Get at the end equals the stored live leaves *)
  List.iter (fun part ->
    match String.index_opt part '=' with
    | None -> ()
    | Some k ->
      let t = int_of_string (String.sub part 0 k) in
      let rest = String.sub part (k + 1) (String.length part - k - 1) in
      (match find_assoc t cfgs with
       | Some c when String.length rest < 4 || String.sub rest 0 4 <> "ERR:" ->
         let leaves = if rest = "." then [] else List.map (fun kv -> match String.split_on_char '=' kv with
           | [ p; v ] -> (str_of (unhex p), str_of (unhex v)) | _ -> ("?", "?")) (String.split_on_char ',' rest) in
         if List.sort compare leaves <> live_of c then
           specviol hid (if below_tombstone_only c (List.sort compare leaves) (live_of c) then "c03_recreate_under_tombstone" else "c03_get_differs_from_store") (Printf.sprintf "target %d Get=[%s] stored=[%s]" t
             (String.concat "," (List.map (fun (p, v) -> p ^ "=" ^ v) (List.sort compare leaves))) (String.concat "," (List.map (fun (p, v) -> p ^ "=" ^ v) (live_of c))))
       | _ -> ())) (String.split_on_char ';' gets)

(* C05: the document the model plugin was shown is the candidate configuration - the loaded values with the change
   (or, for a rollback, with the rollback values of the change being rolled back) merged in *)
let c05_document id (label : sx) (pre : istate) (doc : string) =
  match lst label with
  | [ A "rec"; A "prop"; t; i; _; v ] when atom v <> "-1" && doc <> "big" ->
    let t = inum t and i = inum i in
    (match List.assoc_opt (t, i) (props_of pre.w), List.assoc_opt t (cfgs_of pre.w) with
     | Some p, Some cfg ->
       let vw = view overlay cfg in
       let cand = match p.p_details with
         | PChange ch -> Some (candidate vw ch)
         | PRollback ri ->
           (match List.assoc_opt (t, int_of_n ri) (props_of pre.w) with
            | Some q -> (match q.p_rbvalues with Some rb -> Some (candidate_rb vw rb) | None -> Some vw)
            | None -> None) in
       (match cand with
        | Some c ->
          stat "c05.documents_compared";
          let want = List.sort compare (List.map (fun (pth, vl) -> hex_of pth ^ "=" ^ hex_of vl) (live c)) in
          let got = if doc = "." then [] else List.sort compare (String.split_on_char ',' doc) in
          if want <> got then
            specviol id "c05_document_is_not_the_candidate"
              (Printf.sprintf "proposal %d-%d: the plugin was shown [%s], the candidate configuration is [%s]" t i
                 (String.concat "," got) (String.concat "," want))
        | None -> ())
     | _ -> ())
  | _ -> ()

(* ------------------------------------------------------------------ step validation *)
let oracle_of (pre : istate) (label : sx) (dl : (n * n * n * req * code) list) choice : oracle =
  let verdict, plugin = match lst label with
    | [ A "rec"; A "prop"; t; i; _; v ] ->
      let ty = try List.assoc (inum t, inum i) pre.ptype with Not_found -> "" in
      (atom v <> "0", ty = "64657669636573696d")
    | _ -> (true, true) in
  let answer = match dl with (_, _, _, _, c) :: _ -> c | [] -> COk in
  { o_plugin = plugin; o_verdict = verdict; o_answer = answer; o_choice = n_of_int (choice mod 4); o_order = n_of_int (choice / 4) }

let ctrl_of (label : sx) : (ctrl * string) option =
  match lst label with
  | [ A "rec"; A "tx"; i; b; _ ] -> Some (CtlTx (num i), atom b)
  | [ A "rec"; A "prop"; t; i; b; _ ] -> Some (CtlProp (num t, num i), atom b)
  | [ A "rec"; A "cfg"; t; b; _ ] -> Some (CtlCfg (num t), atom b)
  | [ A "rec"; A "master"; t; b; _ ] -> Some (CtlMaster (num t), atom b)
  | [ A "rec"; A "conn"; c; b; _ ] -> Some (CtlConn (num c), atom b)
  | _ -> None

let rec perms = function
  | [] -> [ [] ]
  | l -> List.concat_map (fun x -> List.map (fun p -> x :: p) (perms (List.filter (fun y -> y != x) l))) l

(* Go map order: the order in which the transaction controller walks the targets of a change is not observable
   beforehand; for a reconcile that was stopped half way, every order of the change's targets is tried *)
let tx_orders (w0 : (cmap, cmap, req, dstate) world) (i : n) : (cmap, cmap, req, dstate) world list =
  match List.assoc_opt (int_of_n i) (txs_of w0) with
  | Some t when t.t_props = None ->
    let src = match t.t_details with TChange _ -> Some (i, t) | TRollback ri -> (match List.assoc_opt (int_of_n ri) (txs_of w0) with Some r -> Some (ri, r) | None -> None) in
    (match src with
     | Some (j, r) ->
       (match r.t_details with
        | TChange chs when List.length chs > 1 && List.length chs <= 4 ->
          List.map (fun p -> p2_apply_eff w0 (EPutTx (j, { r with t_details = TChange p }))) (perms chs)
        | _ -> [ w0 ])
     | None -> [ w0 ])
  | _ -> [ w0 ]

(* Go map order in the value loops of reconcileCommit / reconcileApply (AddDeleteChildren over the change values, then
   applyChangeToConfig over the updated change values).  The outcome depends only on (a) for each change value that is
   also a stored value beneath a deleted value of the same change: whether it is handled after all those deleted
   ancestors (then the change value stays) or before one of them (then the marked stored value replaces it), and (b) for
   each deleted updated value that has updated values beneath it: whether it is applied after all of them (then the
   tombstone stays) or before one (then it is dropped).  Every combination is realisable by some order, so one order per
   combination is enumerated and encoded in the model's mixed-radix permutation code. *)
let code_of_selection (n : int) (sel : int list) : int =
  (* sel: for each position, the index picked from the remaining list *)
  let rec go len = function [] -> 0 | k :: r -> k + len * go (len - 1) r in
  ignore n; go n sel
let selection_of (orig : 'a list) (target : 'a list) : int list =
  let rec go rem = function
    | [] -> []
    | x :: r ->
      let rec idx i = function [] -> failwith "selection" | y :: t -> if y == x then i else idx (i + 1) t in
      let k = idx 0 rem in
      k :: go (List.filteri (fun j _ -> j <> k) rem) r in
  go orig target
let rec fact n = if n <= 1 then 1 else n * fact (n - 1)
let subsets (l : 'a list) : ('a list * 'a list) list =
  (* (chosen, not chosen) *)
  List.fold_left (fun acc x -> List.concat_map (fun (a, b) -> [ (x :: a, b); (a, x :: b) ]) acc) [ ([], []) ] (List.rev l)
let plen (e : str * pv) = List.length (fst e)
let by_len_asc l = List.stable_sort (fun a b -> compare (plen a) (plen b)) l
let by_len_desc l = List.stable_sort (fun a b -> compare (plen b) (plen a)) l
let value_orders (index : n) (ch : cmap) (vw : cmap) : int list =
  let n = List.length ch in
  if n = 0 || n > 10 then [ 0 ] else begin
    let dels = List.filter (fun (_, v) -> v.pv_deleted) ch in
    let dlike = List.filter (fun (p, _) -> List.exists (fun (d, _) -> is_path_below p d) dels && List.mem_assoc p vw) ch in
    let dlike = if List.length dlike > 5 then [] else dlike in
    let pis = List.map (fun (ones, zeros) ->
        let nobit = List.filter (fun e -> not (List.memq e dlike)) ch in
        by_len_desc zeros @ nobit @ by_len_asc ones) (subsets dlike) in
    let res = List.concat_map (fun chp ->
        let cp = code_of_selection n (selection_of ch chp) in
        let upd = fst (add_delete_children index chp vw) in
        let m = List.length upd in
        if m > 10 then [ cp ] else begin
          let tombs = List.filter (fun (p, v) -> v.pv_deleted && List.exists (fun (q, _) -> is_path_below q p) upd) upd in
          let tombs = if List.length tombs > 5 then [] else tombs in
          List.map (fun (stay, go) ->
              let others = List.filter (fun e -> not (List.memq e tombs)) upd in
              let target = by_len_asc go @ others @ by_len_desc stay in
              cp + fact n * code_of_selection m (selection_of upd target)) (subsets tombs)
        end) pis in
    List.sort_uniq compare res
  end

(* the model's outcomes of a label from the implementation's own pre-state *)
let model_posts (pre : istate) (label : sx) (post : istate option) dl : (unit -> (cmap, cmap, req, dstate) world * string) list =
  let w0 = pre.w in
  match ctrl_of label with
  | Some (c, budget) ->
    (* environment choices that cannot be observed beforehand: the random master (4 values) and, for a commit,
       the Go map order in which the cascaded change values are applied (up to 5! orders) *)
    let choices = match c with
      | CtlMaster _ -> [ 0; 1; 2; 3 ]
      | CtlProp k ->
        (match List.assoc_opt (int_of_n (fst k), int_of_n (snd k)) (props_of w0), List.assoc_opt (int_of_n (fst k)) (cfgs_of w0) with
         | Some p, Some cfg when (p.p_commit = Some Doing && p.p_apply = None && p.p_abort = None) || p.p_apply = Some Doing ->
           let ch = rb_change [] p in
           List.map (fun o -> 4 * o) (value_orders (snd k) ch (view overlay cfg))
         | _ -> [ 0 ])
      | _ -> [ 0 ] in
    let starts = match c with CtlTx i when budget <> "all" -> tx_orders w0 i | _ -> [ w0 ] in
    (* budget: "all" | "<n>" (stopped before its n+1-th store/device call) | "f<n>" (gave up after n calls because a read
       failed or a write was refused: if that write was a configuration write, its path values may already be stored -
       the store writes them before the version-checked entry, see the open finding F-08) *)
    let faulty = String.length budget > 1 && budget.[0] = 'f' in
    let nbudget = if budget = "all" then -1 else int_of_string (if faulty then String.sub budget 1 (String.length budget - 1) else budget) in
    List.concat_map (fun w1 ->
      List.concat_map (fun ch ->
        let o = oracle_of pre label dl ch in
        let effs, _res = p2_reconcile o w1 c in
        let k0 = if budget = "all" then List.length effs else prefix_for_calls effs nbudget in
        let ks = if faulty && k0 < List.length effs && (match List.nth effs k0 with EPutValues _ | EPutAValues _ -> true | _ -> false) then [ k0; k0 + 1 ] else [ k0 ] in
        List.map (fun k () ->
        (* the permuted transaction record is only a device to pick the order: the result is compared on the
           canonical form, which sorts the targets of a change *)
        let kinds = String.concat "" (List.filter_map (function EPutValues _ -> Some "U" | EPutAValues _ -> Some "S" | ECreateCfg _ -> Some "C" | _ -> None)
                                        (List.filteri (fun j _ -> j < k) effs)) in
        (p2_step w1 (LRec (c, nat_of_int k, o)), Printf.sprintf "k=%d/%d kinds=%s" k (List.length effs) (if kinds = "" then "-" else kinds))) ks) choices) starts
  | None ->
    (match lst label with
     | [ A "connup"; c; t ] -> [ fun () -> (p2_step w0 (LConnUp (num c, num t)), "") ]
     | [ A "conndown"; c ] -> [ fun () -> (p2_step w0 (LConnDown (num c)), "") ]
     | [ A "foreignrel"; c; t ] -> [ fun () -> (p2_step w0 (LForeignRel (num c, num t)), "") ]
     | [ A "devrestart"; t ] -> [ fun () -> (p2_step w0 (LDevRestart (num t)), "") ]
     | [ A "nbrollback"; ri ] -> [ fun () -> (p2_step w0 (LRollback (num ri)), "") ]
     | [ A "nbchange" ] ->
       (* the logged transaction is read off the observation; the model appends exactly it *)
       (match post with
        | Some p ->
          let nx = next_index w0 in
          (match List.assoc_opt (int_of_n nx) (txs_of p.w) with
           | Some t -> (match t.t_details with
               | TChange chs -> [ fun () -> (p2_step w0 (LChange (chs, t.t_sync, t.t_serializable)), "") ]
               | TRollback ri -> [ fun () -> (p2_step w0 (LRollback ri), "") ])
           | None -> [ fun () -> (w0, "no transaction logged") ])
        | None -> [ fun () -> (w0, "") ])
     | _ -> [ fun () -> (w0, "") ])

(* which properties' model parts a step exercises: a disagreement on that step breaks their tie to the code *)
let props_of_step (label : sx) (pre : istate) (crashed : bool) : string =
  let base = match lst label with
    | A "rec" :: A "tx" :: i :: _ ->
      (* the transaction controller next to a failed predecessor: C11's "later transactions still proceed" *)
      (* a rollback transaction: its proposals are exactly the targets of the change it names (C06) *)
      (match List.assoc_opt (inum i) (txs_of pre.w) with Some { t_details = TRollback _; _ } -> [ "C06" ] | _ -> []) @
      (match List.assoc_opt (inum i - 1) (txs_of pre.w) with
       | Some tp when tp.t_state = TFailed -> [ "C01"; "C02"; "C05"; "C09"; "C11" ]
       | _ -> [ "C01"; "C02"; "C05"; "C09" ])
    (* C01/C03: the committed values change only by a commit - every other controller's writes are theirs to watch too *)
    | A "rec" :: A "master" :: _ -> [ "C01"; "C03"; "C10" ]
    | A "rec" :: A "conn" :: _ -> [ "C10" ]
    | A "rec" :: A "cfg" :: _ -> [ "C01"; "C02"; "C03"; "C04"; "C10"; "C11" ]  (* C11: a pending change is applied once the target is synchronised again *)
    | [ A "rec"; A "prop"; t; i; _; _ ] ->
      (match List.assoc_opt (inum t, inum i) (props_of pre.w) with
       | Some p when p.p_apply <> None -> [ "C02"; "C04"; "C10"; "C11" ]
       | Some p when p.p_abort <> None -> [ "C01"; "C02"; "C09" ]
       | Some p when p.p_commit <> None -> [ "C01"; "C02"; "C03"; "C04"; "C05"; "C06" ]
       | Some p when p.p_validate <> None -> [ "C05"; "C06"; "C01"; "C03" ]
       | _ -> [ "C02"; "C09" ])
    | A "nbchange" :: _ | A "nbrollback" :: _ -> [ "C01"; "C06" ]
    | _ -> [ "C10"; "C04" ] in
  "[" ^ String.concat "," (List.sort_uniq compare (base @ [ "C07" ] @ (if crashed then [] else []))) ^ "]"

let s_result = function
  | RDone -> "done"
  | RRequeueTx i -> "rqtx:" ^ sn i
  | RRequeueProp (t, i) -> "rqprop:" ^ sn t ^ ":" ^ sn i
  | RRetry -> "err"

(* the result of a complete invocation (what is re-queued, error = retry) against the model's, for the oracle that explains the step *)
let check_result id (label : sx) (pre : istate) dl (res : string) =
  match ctrl_of label with
  | Some (c, "all") when res <> "" && res <> "crash" && res <> "timeout" ->
    let choices = match c with CtlMaster _ -> [ 0; 1; 2; 3 ] | _ -> [ 0 ] in
    let rs = List.map (fun ch -> s_result (snd (p2_reconcile (oracle_of pre label dl ch) pre.w c))) choices in
    if not (List.mem res rs) then
      mismatch id (Printf.sprintf "%s result of %s: model=%s impl=%s" "[C07,C09]"
                     (String.concat " " (List.map (function A a -> a | L _ -> "(..)") (lst label))) (String.concat "|" rs) res)
  | _ -> ()

let validate ?(kinds = "") id (label : sx) (pre : istate) (post : istate) dl =
  let posts = model_posts pre label (Some post) dl in
  let ci = canon post.w in
  let first = ref None and last = ref None in
  let matched = ref [] in
  let rec search = function
    | [] -> None
    | th :: rest ->
      let (w, info) = th () in
      let d = diff_canon (canon w) ci in
      if !first = None then first := Some (d, info);
      last := Some (d, info);
      if d = None then begin
        matched := info :: !matched;
        (* among the alternatives that explain the state, one must also make the same kind of configuration-store writes *)
        let kinds_ok = kinds = "" || (match lst label with [ _; _; _; _; A "all"; _ ] | [ _; _; _; A "all"; _ ] -> false | _ -> true)
                       || (let suffix = "kinds=" ^ kinds in
                           let li = String.length info and ls = String.length suffix in
                           li >= ls && String.sub info (li - ls) ls = suffix) in
        if kinds_ok then Some w else (match search rest with Some w' -> Some w' | None -> Some w)
      end else search rest in
  match search posts with
  | Some w ->
    (if kinds <> "" && (match lst label with [ _; _; _; _; A "all"; _ ] | [ _; _; _; A "all"; _ ] -> true | _ -> false) then
       let suffix = "kinds=" ^ kinds in
       let ends info = let li = String.length info and ls = String.length suffix in li >= ls && String.sub info (li - ls) ls = suffix in
       if not (List.exists ends !matched) then
         mismatch id (Printf.sprintf "%s step %s: the state is explained, but the configuration store was written through other calls than the model's effects say (U = Update: values and entry, S = UpdateStatus: applied values and entry, C = Create): implementation %s, model %s"
                        (props_of_step label pre false) (String.concat " " (List.map (function A a -> a | L _ -> "(..)") (lst label))) kinds
                        (String.concat " | " (List.sort_uniq compare !matched))));
    (* device requests: the model's new log entries against the observed ones *)
    let ml = List.sort compare (List.map (fun (DevSet (t, c, term, _, r, a)) -> s_req (t, c, term, r, a)) (devlog w)) in
    let il = List.sort compare (List.map s_req dl) in
    if ml <> il then mismatch id (Printf.sprintf "%s device requests of step %s: model=%s impl=%s" (props_of_step label pre false)
                                    (match label with L (A a :: _) -> a | _ -> "?") (String.concat ";" ml) (String.concat ";" il))
  | None ->
    let (d, info) = match !first with Some x -> x | None -> (None, "") in
    let other = match !last with
      | Some (Some d2, info2) when !last <> !first -> Printf.sprintf " || last alternative %s: %s" info2 d2
      | _ -> "" in
    mismatch id (Printf.sprintf "%s step %s %s: %s%s" (props_of_step label pre false) (String.concat " " (List.map (function A a -> a | L _ -> "(..)") (lst label))) info (match d with Some s -> s | None -> "") other)

let label_name (label : sx) = match lst label with
  | A "rec" :: A k :: _ -> "rec." ^ k
  | A a :: _ -> a
  | _ -> "?"

(* C05: the chunking of one validation stream, restated on the observed chunk sizes (pkg/pluginregistry Validate,
   chunkSize = 100000; proved for the model in Proofs/P2_Chunks.v): every chunk non-empty, all but the last exactly
   chunkSize, the last at most chunkSize, ceil(len/chunkSize) chunks *)
let c05_chunk_size = 100000
let c05_check_chunks ?(shas = "") ?(expect = "-") hid (streams : string) =
  (* the bytes the plugin judged are the bytes of the document that was built (digests of both) *)
  if expect <> "-" && expect <> "" then begin
    let want = String.split_on_char ';' expect in
    List.iteri (fun k d ->
      stat "c05.stream_digests_compared";
      if not (List.mem d want) then
        specviol hid "c05_chunking" (Printf.sprintf "validation stream %d: the chunks do not reassemble to the document that was built (digest %s, expected one of %s)" k d expect))
      (String.split_on_char ';' shas)
  end;
  if streams <> "none" then
    List.iteri (fun k st ->
      let sizes = if st = "-" || st = "" then [] else List.map int_of_string (String.split_on_char ',' st) in
      let len = List.fold_left (+) 0 sizes and n = List.length sizes in
      stat "c05.validation_streams";
      if n > 1 then stat "c05.multi_chunk_streams";
      if len mod c05_chunk_size = 0 && len > 0 then stat "c05.streams_at_exact_multiple";
      let bad why = specviol hid "c05_chunking" (Printf.sprintf "validation stream %d: %s (chunk sizes %s, document of %d bytes)" k why (if st = "" then "-" else st) len) in
      if List.exists (fun c -> c <= 0) sizes then bad "empty chunk"
      else if List.exists (fun c -> c > c05_chunk_size) sizes then bad "chunk longer than the chunk size"
      else if (match List.rev sizes with [] -> false | _ :: init -> List.exists (fun c -> c <> c05_chunk_size) init) then bad "a chunk before the last one is not full"
      else if n <> (len + c05_chunk_size - 1) / c05_chunk_size then bad "number of chunks is not ceil(len/chunkSize)")
      (String.split_on_char ';' streams)

let () =
  each_line (function
    | [ "p2.hist"; hid; kind; st ] ->
      let h = hist_of hid in
      h.kind <- kind;
      h.prev <- Some (decode_state (parse_sx st));
      stat ("hist." ^ kind)
    | "p2.step" :: id :: label :: st :: dl :: rest ->
      let h = hist_of id in
      let label = parse_sx label in
      let post = decode_state (parse_sx st) in
      if !overlay_bad <> [] then begin
        mismatch id (Printf.sprintf "[C03,C15] what the configuration store hands out for target(s) %s is not the overlay of the entry's own copy and the path-value map"
                       (String.concat "," (List.map string_of_int !overlay_bad)));
        overlay_bad := []
      end;
      let dl = decode_devlog (parse_sx dl) in
      let res = match rest with r :: _ -> r | [] -> "" in
      stat ("step." ^ label_name label);
      c09_reset id;
      if res = "crash" then (stat "step.crashed"; h.crashes <- h.crashes + 1);
      if List.exists (fun (_, _, _, _, c) -> c <> COk) dl then h.failed_apply <- true;
      (match lst label with A "devpolicy" :: _ -> h.failed_apply <- true | A "nbrollback" :: _ -> h.rollbacks <- h.rollbacks + 1 | _ -> ());
      (match h.prev with
       | Some pre ->
         seen_distinct (label_name label ^ "|" ^ String.concat ";" (List.map snd (canon pre.w)));
         validate ~kinds:(match rest with _ :: _ :: k :: _ -> k | _ -> "") id label pre post dl;
         check_result id label pre dl res;
         monitors id label pre post dl;
         (match rest with _ :: doc :: _ when doc <> "-" -> c05_document id label pre doc | _ -> ());
         List.iter (fun (_, c) ->
           if s_cm (overlay c.c_inline c.c_values) <> s_cm c.c_values then stat "loaded_values_differ_from_committed_map";
           if s_cm (overlay c.c_ainline c.c_avalues) <> s_cm c.c_avalues then stat "loaded_applied_values_differ_from_applied_map") (cfgs_of post.w)
       | None -> mismatch id "step without history header");
      h.prev <- Some post
    | "p2.noop" :: id :: label :: rest ->
      let h = hist_of id in
      let label = parse_sx label in
      stat ("noop." ^ label_name label);
      (match h.prev, rest with Some pre, r :: _ -> check_result id label pre [] r | _ -> ());
      (match h.prev, rest with Some pre, _ :: doc :: _ when doc <> "-" -> c05_document id label pre doc | _ -> ());
      (match rest with r :: _ -> c09_note id label r | [] -> ());
      (match h.prev with
       | Some pre ->
         (match lst label with
          | A "devpolicy" :: _ -> h.failed_apply <- true
          | _ -> ());
         let posts = model_posts pre label None [] in
         let ci = canon pre.w in
         if not (List.exists (fun th -> let (w, _) = th () in diff_canon (canon w) ci = None && devlog w = []) posts) then begin
           let (w, info) = (List.hd posts) () in
           mismatch id (Printf.sprintf "%s implementation did nothing on %s; model %s: %s" (props_of_step label pre false) (String.concat " " (List.map (function A a -> a | L _ -> "(..)") (lst label))) info
                          (match diff_canon (canon w) ci with Some s -> s | None -> "device request " ^ String.concat ";" (List.map (fun (DevSet (t, c, term, _, r, a)) -> s_req (t, c, term, r, a)) (devlog w))))
         end
       | None -> ())
    | "p2.end" :: hid :: q :: nb :: gets :: steps :: noops :: rest ->
      (* C07: a history with interrupted reconciles ends like its crash-free twin (same scenario, no interruption) *)
      (match rest with
       | [ sum; twin ] when twin <> "-" ->
         stat "c07.twin_compared";
         if sum <> twin then
           specviol hid "c07_outcome_differs_from_crash_free_run" (Printf.sprintf "with interruptions: %s ; crash-free: %s"
             (if String.length sum > 600 then String.sub sum 0 600 else sum) (if String.length twin > 600 then String.sub twin 0 600 else twin))
       | _ -> ());
      let h = hist_of hid in
      stat "histories";
      statn "steps.total" (int_of_string steps);
      statn "steps.noop" (int_of_string noops);
      if q = "1" then stat "end.quiescent" else stat "end.not_quiescent";
      (match h.prev with
       | Some st ->
         end_monitors hid st (q = "1") (parse_sx nb) gets;
         let ntx = List.length (w_txs st.w) in
         stat (Printf.sprintf "hist.txs.%d" (min ntx 8));
         sample (Printf.sprintf "history %s (%s): %d transactions, %d targets, %d crashed reconciles, %s steps; final states: %s" hid h.kind ntx (List.length (w_targets st.w)) h.crashes steps
                   (String.concat "," (List.map (fun (i, t) -> Printf.sprintf "%d:%s" i (s_ts t.t_state)) (txs_of st.w))))
       | None -> ())
    | "p2.chunks" :: hid :: streams :: shas :: expect :: _ -> c05_check_chunks ~shas ~expect hid streams
    | "p2.chunks" :: hid :: streams :: _ -> c05_check_chunks hid streams
    | _ -> stat "ignored")

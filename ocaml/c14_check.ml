(* C14 driver: replays the harness observations of TemporaryEvaluate / Set / Get(all targets)
   on the extracted model and evaluates the property on the implementation's answers *)
open Model
open Mlib

(* the property, stated directly (independent of the model): some non-empty ';'-piece of the
   groups claim equals some ','-piece of ADMINGROUPS *)
let spec_permitted admin groups =
  let gs = String.split_on_char ';' groups and ags = String.split_on_char ',' admin in
  List.exists (fun g -> g <> "" && List.mem g ags) gs

let () =
  each_line (function
    | [ "rbac.eval"; id; a; g; r ] ->
      stat "rbac.eval";
      let impl = r = "1" in
      let m = temporary_evaluate (unhex a) (unhex g) in
      seen_distinct ("e" ^ a ^ "|" ^ g);
      if impl then stat "eval.allowed" else stat "eval.refused";
      if m <> impl then mismatch id (Printf.sprintf "temporary_evaluate admin=%s groups=%s model=%b impl=%b" a g m impl);
      let sp = spec_permitted (str_of (unhex a)) (str_of (unhex g)) in
      if impl && not sp then specviol id "c14_allowed_without_admin_group" (Printf.sprintf "admin=%S groups=%S" (str_of (unhex a)) (str_of (unhex g)));
      if (not impl) && sp then specviol id "c14_admin_refused" (Printf.sprintf "admin=%S groups=%S" (str_of (unhex a)) (str_of (unhex g)))
    | [ "rbac.set"; id; a; name; pref; g; code; txdelta ] ->
      stat "rbac.set";
      let m = { md_name = unhex name; md_pref = unhex pref; md_groups = unhex g } in
      let gate = set_gate (unhex a) m in
      seen_distinct ("s" ^ a ^ "|" ^ name ^ "|" ^ pref ^ "|" ^ g);
      let impl_ok = code = "OK" in
      if impl_ok then stat "set.accepted" else stat ("set.code." ^ code);
      if gate <> impl_ok then mismatch id (Printf.sprintf "set gate admin=%s name=%s pref=%s groups=%s model=%b impl=%s" a name pref g gate code);
      if (not gate) && code <> "Unauthenticated" then mismatch id ("refusal code " ^ code);
      let ident = has_identity m in
      let sp = spec_permitted (str_of (unhex a)) (str_of (unhex g)) in
      if ident && impl_ok && not sp then specviol id "c14_allowed_without_admin_group" (Printf.sprintf "Set accepted: admin=%S groups=%S" (str_of (unhex a)) (str_of (unhex g)));
      if ident && (not impl_ok) && sp then specviol id "c14_admin_refused" (Printf.sprintf "Set refused (%s): admin=%S groups=%S" code (str_of (unhex a)) (str_of (unhex g)));
      if (not impl_ok) && txdelta <> "0" then specviol id "c14_refused_but_logged" (Printf.sprintf "Set refused (%s) but %s transaction(s) logged" code txdelta);
      if impl_ok && txdelta <> "1" then mismatch id ("accepted Set logged " ^ txdelta ^ " transactions");
      sample (Printf.sprintf "Set admin=%S name=%S groups=%S -> %s, tx+%s" (str_of (unhex a)) (str_of (unhex name)) (str_of (unhex g)) code txdelta)
    | [ "rbac.list"; id; oidc; ovr; name; g; targets; reported ] ->
      stat "rbac.list";
      let m = { md_name = unhex name; md_pref = []; md_groups = unhex g } in
      let ts = unhex_list targets in
      let exp = get_all_targets (oidc = "1") (unhex ovr) m ts in
      seen_distinct ("l" ^ oidc ^ ovr ^ "|" ^ name ^ "|" ^ g ^ "|" ^ targets);
      let got = unhex_list reported in
      if List.sort compare exp <> List.sort compare got then
        mismatch id (Printf.sprintf "all-targets oidc=%s override=%s name=%s groups=%s targets=%s model=%s impl=%s" oidc ovr name g targets (hex_list exp) reported);
      (* the property, directly *)
      let gs = if name = "-" then [] else String.split_on_char ';' (str_of (unhex g)) in
      let roc = if ovr = "-" then "AetherROCAdmin" else str_of (unhex ovr) in
      let should t = oidc = "0" || List.mem t gs || List.mem roc gs in
      List.iter (fun t -> let ts' = str_of t in
                  if List.mem t got && not (should ts') then specviol id "c14_list_shows_foreign_target" (Printf.sprintf "target %S shown to groups %S" ts' (str_of (unhex g)));
                  if (not (List.mem t got)) && should ts' then specviol id "c14_list_hides_own_target" (Printf.sprintf "target %S hidden from groups %S" ts' (str_of (unhex g)))) ts;
      List.iter (fun t -> if not (List.mem t ts) then specviol id "c14_list_invents_target" (str_of t)) got
    | _ -> stat "ignored")

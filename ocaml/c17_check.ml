(* C17 driver: replays the harness observations of the value journey on the extracted model
   (Model/Value.v) and evaluates the property directly on the implementation's answers.

   Correspondence: every observation must equal the model of the code as it is now (fx = true: /repo with
   the repairs 0d53a20, f016b97, 951349c); anything else is a MISMATCH.  When the observation equals the
   model of the code before those repairs (fx = false) the message says so (a regression).
   Monitors: stated on the observation alone (source value, declared width, what came back), with
   independent OCaml code for the expected decimal text / float reading / base64. *)
open Model
open Mlib

(* mlib prints at most 2000 monitor failures in all; the known findings fire thousands of times in the thorough tier,
   so only the first 25 of each signature are printed (all are counted) - a new signature is never crowded out *)
let sig_count : (string, int) Hashtbl.t = Hashtbl.create 16
let specviol id signature detail =
  let n = try Hashtbl.find sig_count signature with Not_found -> 0 in
  Hashtbl.replace sig_count signature (n + 1);
  stat "monitor-failures-total";
  if n < 25 then Mlib.specviol id signature detail else stat ("viol:" ^ signature)

(* ------------------------------------------------------------------ numbers *)
let rec pos_of_u64 (x : int64) : positive =
  if x = 1L then XH
  else
    let rest = pos_of_u64 (Int64.shift_right_logical x 1) in
    if Int64.logand x 1L = 0L then XO rest else XI rest
let n_of_u64 x = if x = 0L then N0 else Npos (pos_of_u64 x)
let rec u64_of_pos = function
  | XH -> 1L
  | XO p -> Int64.shift_left (u64_of_pos p) 1
  | XI p -> Int64.logor (Int64.shift_left (u64_of_pos p) 1) 1L
let z_of_dec (s : string) : z =
  if s = "" then failwith "empty number"
  else if s.[0] = '-' then
    let m = Int64.of_string ("0u" ^ String.sub s 1 (String.length s - 1)) in
    if m = 0L then Z0 else Zneg (pos_of_u64 m)
  else
    let m = Int64.of_string ("0u" ^ s) in
    if m = 0L then Z0 else Zpos (pos_of_u64 m)
let dec_of_z = function
  | Z0 -> "0"
  | Zpos p -> Printf.sprintf "%Lu" (u64_of_pos p)
  | Zneg p -> "-" ^ Printf.sprintf "%Lu" (u64_of_pos p)
let u64_of_n = function N0 -> 0L | Npos p -> u64_of_pos p
let z_of_int i = if i = 0 then Z0 else if i > 0 then Zpos (pos_of_int i) else Zneg (pos_of_int (-i))

(* ------------------------------------------------------------------ observation side types *)
type og =
  | S of string | A of string | I of string | U of string | B of bool | Y of string
  | D of string * int | F of int32 | L of og list | Any | X

let raw_of_hex h = str_of (unhex h)
let hex_of_raw s = hex_of (bytes_of_string s)

let rec parse_g (s : string) : og =
  if s = "x" then X else if s = "n" then Any
  else begin
    let body = String.sub s 2 (String.length s - 2) in
    match s.[0] with
    | 's' -> S (raw_of_hex body)
    | 'a' -> A (raw_of_hex body)
    | 'i' -> I body
    | 'u' -> U body
    | 'b' -> B (body = "1")
    | 'y' -> Y (raw_of_hex body)
    | 'd' -> (match String.split_on_char '/' body with
              | [ d; p ] -> D (d, int_of_string p)
              | _ -> failwith "decimal")
    | 'f' -> F (Int32.of_string ("0x" ^ body))
    | 'l' ->
      let inner = String.sub body 1 (String.length body - 2) in
      if inner = "" then L [] else L (List.map parse_g (String.split_on_char ';' inner))
    | _ -> failwith ("value " ^ s)
  end

let rec enc_g (g : og) : string =
  match g with
  | S s -> "s:" ^ hex_of_raw s
  | A s -> "a:" ^ hex_of_raw s
  | I v -> "i:" ^ v
  | U v -> "u:" ^ v
  | B b -> if b then "b:1" else "b:0"
  | Y s -> "y:" ^ hex_of_raw s
  | D (d, p) -> Printf.sprintf "d:%s/%d" d p
  | F b -> Printf.sprintf "f:%08lx" b
  | L l -> "l:[" ^ String.concat ";" (List.map enc_g l) ^ "]"
  | Any -> "n"
  | X -> "x"

let n_of_i32 (b : int32) = n_of_u64 (Int64.logand (Int64.of_int32 b) 0xFFFFFFFFL)
let i32_of_n (b : n) = Int64.to_int32 (u64_of_n b)

let rec model_of_og (g : og) : gval =
  match g with
  | S s -> GString (bytes_of_string s)
  | A s -> GAscii (bytes_of_string s)
  | I v -> GInt (z_of_dec v)
  | U v -> GUint (z_of_dec v)
  | B b -> GBool b
  | Y s -> GBytes (bytes_of_string s)
  | D (d, p) -> GDecimal (z_of_dec d, z_of_int p)
  | F b -> GFloat (n_of_i32 b)
  | L l -> GLeafList (List.map model_of_og l)
  | Any -> GAny
  | X -> GOther

let rec og_of_model (g : gval) : og =
  match g with
  | GString s -> S (str_of s)
  | GAscii s -> A (str_of s)
  | GInt v -> I (dec_of_z v)
  | GUint v -> U (dec_of_z v)
  | GBool b -> B b
  | GBytes s -> Y (str_of s)
  | GDecimal (d, p) -> D (dec_of_z d, int_of_string (dec_of_z p))
  | GFloat b -> F (i32_of_n b)
  | GLeafList l -> L (List.map og_of_model l)
  | GAny -> Any
  | GOther -> X

let parse_opts (s : string) : z list option =
  if s = "nil" then None else if s = "." then Some []
  else Some (List.map z_of_dec (String.split_on_char ',' s))

let vtype_of_int = function
  | 0 -> VEmpty | 1 -> VString | 2 -> VInt | 3 -> VUint | 4 -> VBool | 5 -> VDecimal | 6 -> VFloat | 7 -> VBytes
  | 8 -> VLLString | 9 -> VLLInt | 10 -> VLLUint | 11 -> VLLBool | 12 -> VLLDecimal | 13 -> VLLFloat | 14 -> VLLBytes
  | 15 -> VDouble | 16 -> VLLDouble | _ -> VOther
let int_of_vtype = function
  | VEmpty -> 0 | VString -> 1 | VInt -> 2 | VUint -> 3 | VBool -> 4 | VDecimal -> 5 | VFloat -> 6 | VBytes -> 7
  | VLLString -> 8 | VLLInt -> 9 | VLLUint -> 10 | VLLBool -> 11 | VLLDecimal -> 12 | VLLFloat -> 13 | VLLBytes -> 14
  | VDouble -> 15 | VLLDouble -> 16 | VOther -> 99

let parse_tv (s : string) : tv =
  match String.split_on_char '|' s with
  | [ t; b; o ] ->
    { tv_bytes = unhex b; tv_type = vtype_of_int (int_of_string t);
      tv_opts = (if o = "." then [] else List.map z_of_dec (String.split_on_char ',' o)) }
  | _ -> failwith ("tv " ^ s)
let enc_tv (t : tv) : string =
  Printf.sprintf "%d|%s|%s" (int_of_vtype t.tv_type) (hex_of t.tv_bytes)
    (if t.tv_opts = [] then "." else String.concat "," (List.map dec_of_z t.tv_opts))

let enc_res f = function Ok a -> "ok:" ^ f a | Err -> "err" | Panic -> "panic"

(* ------------------------------------------------------------------ JSON observations *)
type oj = OS of string | ON of string | OT | OF | OZ | OA of oj list | OO | OBad of string

let rec parse_j (s : string) : oj =
  if s = "" then OBad s
  else
    match s.[0] with
    | 'S' -> OS (raw_of_hex (String.sub s 1 (String.length s - 1)))
    | 'N' -> ON (String.sub s 1 (String.length s - 1))
    | 'T' -> OT
    | 'F' -> OF
    | 'Z' -> OZ
    | 'O' -> OO
    | 'A' ->
      let inner = String.sub s 2 (String.length s - 3) in
      if inner = "" then OA [] else OA (List.map parse_j (String.split_on_char ';' inner))
    | _ -> OBad s

let b64chars = "ABCDEFGHIJKLMNOPQRSTUVWXYZabcdefghijklmnopqrstuvwxyz0123456789+/"
let base64 (s : string) : string =
  let b = Buffer.create 16 in
  let n = String.length s in
  let i = ref 0 in
  while !i < n do
    let c0 = Char.code s.[!i] in
    let c1 = if !i + 1 < n then Char.code s.[!i + 1] else 0 in
    let c2 = if !i + 2 < n then Char.code s.[!i + 2] else 0 in
    Buffer.add_char b b64chars.[c0 lsr 2];
    Buffer.add_char b b64chars.[((c0 land 3) lsl 4) lor (c1 lsr 4)];
    Buffer.add_char b (if !i + 1 < n then b64chars.[((c1 land 15) lsl 2) lor (c2 lsr 6)] else '=');
    Buffer.add_char b (if !i + 2 < n then b64chars.[c2 land 63] else '=');
    i := !i + 3
  done;
  Buffer.contents b

let float_of_bits32 (b : int32) = Int32.float_of_bits b
let is_nan32 (b : int32) = let f = float_of_bits32 b in f <> f
let is_finite32 (b : int32) = let f = float_of_bits32 b in f = f && Float.abs f <> infinity
(* Go's %f *)
let fmt_f (b : int32) : string =
  let f = float_of_bits32 b in
  if f <> f then "NaN" else if f = infinity then "+Inf" else if f = neg_infinity then "-Inf" else Printf.sprintf "%.6f" f
let reads_as_f32 (lit : string) (b : int32) : bool =
  match float_of_string_opt lit with
  | Some f -> Int32.bits_of_float f = b
  | None -> false
let same_float (a : float) (b : float) = Int64.bits_of_float a = Int64.bits_of_float b || a = b
let close_float (a : float) (b : float) = same_float a b || Float.abs (a -. b) <= 1e-14 *. Float.abs b

let i64_of_dec (d : string) : int64 = Int64.of_string d
let div_float (d : string) (p : int) : float = Int64.to_float (i64_of_dec d) /. (10.0 ** float_of_int p)

(* encoding/json replaces invalid UTF-8 by U+FFFD; protobuf lets only valid UTF-8 into a string value, so such
   strings exist only in the damaged-value stream and their JSON text is not compared *)
let valid_utf8 (s : string) : bool =
  let n = String.length s in
  let rec go i =
    if i >= n then true
    else
      let c = Char.code s.[i] in
      let cont k = i + k < n && Char.code s.[i + k] land 0xC0 = 0x80 in
      if c < 0x80 then go (i + 1)
      else if c >= 0xC2 && c <= 0xDF then cont 1 && go (i + 2)
      else if c >= 0xE0 && c <= 0xEF then
        cont 1 && cont 2
        && (let c1 = Char.code s.[i + 1] in (c <> 0xE0 || c1 >= 0xA0) && (c <> 0xED || c1 < 0xA0))
        && go (i + 3)
      else if c >= 0xF0 && c <= 0xF4 then
        cont 1 && cont 2 && cont 3
        && (let c1 = Char.code s.[i + 1] in (c <> 0xF0 || c1 >= 0x90) && (c <> 0xF4 || c1 < 0x90))
        && go (i + 4)
      else false
  in
  go 0

(* does the implementation's JSON leaf agree with the model's description of it *)
let rec jmatch (m : jval) (o : oj) : bool =
  match m, o with
  | JNull, OZ -> true
  | JStr s, OS t -> let s' = str_of s in s' = t || not (valid_utf8 s')
  | JNum l, ON t -> str_of l = t
  | JBool b, OT -> b
  | JBool b, OF -> not b
  | JB64 b, OS t -> base64 (str_of b) = t
  | JArr l, OA k -> List.length l = List.length k && List.for_all2 jmatch l k
  | JFloat32 b, ON t -> reads_as_f32 t (i32_of_n b)
  | JFloatF b, OS t -> fmt_f (i32_of_n b) = t
  | JDecFloat s, ON t ->
    (match float_of_string_opt (str_of s), float_of_string_opt t with
     | Some a, Some b -> same_float a b
     | _ -> false)
  | JDivFloat (d, p), ON t ->
    let p' = int_of_string (dec_of_z p) in
    (match float_of_string_opt t with
     | Some b -> let e = div_float (dec_of_z d) p' in if p' <= 22 then same_float e b else close_float e b
     | None -> false)
  | _, _ -> false

let has_nonfinite_float (t : tv) : bool =
  (* encoding/json refuses NaN and infinities: BuildTree returns an error *)
  let rec chunks = function
    | a :: b :: c :: d :: r ->
      let v = Int32.of_int (((((int_of_n a * 256) + int_of_n b) * 256 + int_of_n c) * 256 + int_of_n d) land 0xFFFFFFFF) in
      (not (is_finite32 v)) || chunks r
    | _ -> false
  in
  chunks t.tv_bytes

(* model's JSON outcome against the observed text; [None] when they agree *)
let json_disagrees (fx : bool) (rfc : bool) (t : tv) (obs : string) : string option =
  let m = json_leaf fx rfc t in
  let floaty = (t.tv_type = VLLFloat) || (t.tv_type = VFloat && not rfc) in
  let ok =
    match m with
    | Panic -> obs = "panic"
    | Err -> obs = "err"
    | Ok None -> obs = "absent"
    | Ok (Some j) ->
      if floaty && has_nonfinite_float t then obs = "err"
      else (match t.tv_type with
          | VDouble | VLLDouble | VOther -> (match parse_j obs with OS s -> String.length s >= 10 && String.sub s 0 10 = "unexpected" | _ -> false)
          | _ -> jmatch j (parse_j obs))
  in
  if ok then None
  else Some (match m with Panic -> "panic" | Err -> "err" | Ok None -> "absent" | Ok (Some _) -> "a different leaf")

let before_note rfc t obs =
  match json_disagrees false rfc t obs with None -> " (the behaviour before the repairs)" | Some _ -> ""

(* ------------------------------------------------------------------ the property, stated on observations *)
let rec canon_og = function
  | A s -> S s
  | L l -> L (List.map (function A s -> S s | e -> e) l)
  | g -> g

let kind_of = function
  | S _ | A _ -> "string" | I _ -> "int" | U _ -> "uint" | B _ -> "bool" | Y _ -> "bytes" | D _ -> "decimal" | F _ -> "float"
  | L _ -> "leaflist" | Any -> "any" | X -> "other"

(* a supported value: a scalar of the seven kinds (float: not NaN) or a non-empty homogeneous leaf-list of them
   (decimals of one precision) *)
let supported (g : og) : bool =
  let scalar = function
    | S _ | A _ | I _ | U _ | B _ | Y _ | D _ -> true
    | F b -> not (is_nan32 b)
    | _ -> false
  in
  match g with
  | L [] -> false
  | L (e :: _ as l) ->
    List.for_all scalar l
    && List.for_all (fun x -> kind_of x = kind_of e) l
    && (match e with D (_, p) -> List.for_all (function D (_, q) -> q = p | _ -> false) l | _ -> true)
  | g -> scalar g

let contains_gs s = String.contains s '\x1d'
let precision_of = function
  | D (_, p) -> Some p
  | L (D (_, p) :: _) -> Some p
  | _ -> None
let strings_of l = List.filter_map (function S s | A s -> Some s | _ -> None) l
let bytes_of l = List.filter_map (function Y s -> Some s | _ -> None) l
let ll_string_with_gs = function L (((S _ | A _) :: _) as l) -> List.exists contains_gs (strings_of l) | _ -> false
let ll_bytes_with_inner_empty = function
  | L ((Y _ :: tl) as _l) -> List.exists (fun s -> s = "") (bytes_of tl)
  | _ -> false

(* expected decimal text of digits * 10^-p: sign, at least one integer digit, exactly p fraction digits *)
let decimal_text (d : string) (p : int) : string =
  if p = 0 then d
  else begin
    let neg = d.[0] = '-' in
    let mag = if neg then String.sub d 1 (String.length d - 1) else d in
    let mag = if String.length mag <= p then String.make (p + 1 - String.length mag) '0' ^ mag else mag in
    let n = String.length mag in
    (if neg then "-" else "") ^ String.sub mag 0 (n - p) ^ "." ^ String.sub mag (n - p) p
  end
let small_negative (d : string) (p : int) : bool =
  (* digits in (-10^p, 0): the value lies in (-1, 0) *)
  d.[0] = '-' && String.length d - 1 <= p

(* the declared width: the model path's first type option (default 32); for leaf-lists the code keeps 8 bits of it *)
let declared_width (g : og) (opts : string) : int option =
  let o0 = match opts with
    | "nil" | "." -> None
    | s -> (match String.split_on_char ',' s with x :: _ -> Some x | [] -> None) in
  match o0 with
  | None -> Some 32
  | Some x -> (match x with "8" -> Some 8 | "16" -> Some 16 | "32" -> Some 32 | "64" -> Some 64 | _ -> ignore g; None)

(* PROTO journey monitor: [back] is what Get PROTO / the device request carries for the value that was set *)
let monitor_proto (id : string) (where : string) (g : og) (back : string) : unit =
  if supported g then begin
    let want = enc_g (canon_og g) in
    if back <> "ok:" ^ want then begin
      let detail = Printf.sprintf "%s: set %s, came back %s" where (enc_g g) back in
      let prec_out = match precision_of g with Some p -> p > 18 | None -> false in
      if prec_out then specviol id "c17_decimal_precision_out_of_range" detail
      else if back = "panic" then specviol id "c17_panic" detail
      else if ll_string_with_gs g
           && (match back with
               | _ when String.length back > 3 && String.sub back 0 3 = "ok:" ->
                 (match parse_g (String.sub back 3 (String.length back - 3)) with
                  | L l' -> String.concat "\x1d" (strings_of l') = String.concat "\x1d" (strings_of (match g with L l -> l | _ -> []))
                  | _ -> false)
               | _ -> false)
      then specviol id "c17_ll_string_group_separator" detail
      else if ll_bytes_with_inner_empty g
           && (match back with
               | _ when String.length back > 3 && String.sub back 0 3 = "ok:" ->
                 (match parse_g (String.sub back 3 (String.length back - 3)) with
                  | L l' -> String.concat "" (bytes_of l') = String.concat "" (bytes_of (match g with L l -> l | _ -> []))
                            && List.for_all (fun s -> s <> "") (match bytes_of l' with _ :: tl -> tl | [] -> [])
                  | _ -> false)
               | _ -> false)
      then specviol id "c17_ll_bytes_empty_element" detail
      else specviol id "c17_proto_roundtrip" detail
    end
  end

(* JSON monitor (RFC 7951 rendering, the only one the server uses): right JSON type and digits *)
let monitor_json (id : string) (where : string) (g : og) (opts : string) (obs : string) : unit =
  if supported g then begin
    let detail = Printf.sprintf "%s: set %s (type opts %s), JSON leaf %s" where (enc_g g) opts obs in
    let w = declared_width g opts in
    let o = parse_j obs in
    let prec_out = match precision_of g with Some p -> p > 18 | None -> false in
    (* verdict per element: `Good | `Sig of signature *)
    let in_list = (match g with L _ -> true | _ -> false) in
    let elem (e : og) (oe : oj) =
      match e, oe with
      | (S s | A s), OS t -> if s = t then `Good else `Sig "c17_json_digits"
      | I v, ON t -> if v <> t then `Sig "c17_json_digits" else if w = Some 64 then `Sig "c17_json_type" else `Good
      | I v, OS t -> if v <> t then `Sig "c17_json_digits" else if w = Some 64 || w = None then `Good else `Sig "c17_json_type"
      | U v, ON t -> if v <> t then `Sig "c17_json_digits" else if w = Some 64 then `Sig "c17_json_type" else `Good
      | U v, OS t -> if v <> t then `Sig "c17_json_digits" else if w = Some 64 || w = None then `Good else `Sig "c17_json_type"
      | B b, OT -> if b then `Good else `Sig "c17_json_digits"
      | B b, OF -> if b then `Sig "c17_json_digits" else `Good
      | Y s, OS t -> if base64 s = t then `Good else `Sig "c17_json_digits"
      | Y "", OZ -> `Sig "c17_json_empty_bytes_null"
      | D (d, p), OS t ->
        let want = decimal_text d p in
        if t = want then `Good
        else if small_negative d p && "-" ^ t = want then `Sig "c17_decimal_json_sign_lost"
        else `Sig "c17_json_digits"
      | D (d, p), ON t ->
        (match float_of_string_opt t with
         | Some f when in_list && close_float (div_float d p) f -> `Sig "c17_ll_decimal_json_number"
         | _ -> `Sig "c17_json_digits")
      | F b, _ when not (is_finite32 b) -> `Good (* JSON has no infinities; outside the claim *)
      | F b, ON t -> if reads_as_f32 t b then `Good else `Sig "c17_json_digits"
      | F b, OS t ->
        if reads_as_f32 t b then `Good
        else if t = fmt_f b then `Sig "c17_float_json_fixed6"
        else `Sig "c17_json_digits"
      | _, _ -> `Sig "c17_json_type"
    in
    let verdicts =
      match g, o with
      | L l, OA k ->
        if List.length l <> List.length k then [ `Sig "c17_json_length" ] else List.map2 elem l k
      | L _, _ -> [ `Sig "c17_json_type" ]
      | e, oe -> [ elem e oe ]
    in
    let nonfinite = match g with F b -> not (is_finite32 b) | L l -> List.exists (function F b -> not (is_finite32 b) | _ -> false) l | _ -> false in
    let sigs = List.sort_uniq compare (List.filter_map (function `Good -> None | `Sig s -> Some s) verdicts) in
    if nonfinite then ()
    else if sigs <> [] || obs = "panic" || obs = "err" || obs = "absent" then begin
      if prec_out then specviol id "c17_decimal_precision_out_of_range" detail
      else if obs = "panic" then specviol id "c17_panic" detail
      else if ll_string_with_gs g then specviol id "c17_ll_string_group_separator" detail
      else if ll_bytes_with_inner_empty g then specviol id "c17_ll_bytes_empty_element" detail
      else if obs = "err" || obs = "absent" then specviol id "c17_json_missing" detail
      else List.iter (fun s -> specviol id s detail) sigs
    end
  end

(* ------------------------------------------------------------------ correspondence helpers *)
let native_model fx g opts = enc_res enc_tv (to_native fx (model_of_og g) (parse_opts opts))
let gnmi_model t = enc_res (fun x -> enc_g (og_of_model x)) (to_gnmi t)

let strip_ok s = if String.length s > 3 && String.sub s 0 3 = "ok:" then Some (String.sub s 3 (String.length s - 3)) else None

let shape_stats dom g opts =
  stat (dom ^ ".kind." ^ (match g with L (e :: _) -> "ll-" ^ kind_of e | L [] -> "ll-empty" | e -> kind_of e));
  (match g with
   | I _ | U _ | L ((I _ | U _) :: _) -> stat (dom ^ ".width." ^ (match opts with "nil" -> "nil" | "." -> "none" | s -> List.hd (String.split_on_char ',' s)))
   | _ -> ());
  (match g with
   | I ("-9223372036854775808" | "9223372036854775807") | U "18446744073709551615" -> stat (dom ^ ".extreme64")
   | S "" | Y "" -> stat (dom ^ ".empty")
   | _ -> ())

let () =
  each_line (function
    | [ "value.rt"; id; ver; gs; opts; native; back ] ->
      stat ("value.rt." ^ ver);
      let g = parse_g gs in
      if ver = "v2" then shape_stats "rt" g opts;
      seen_distinct ("r" ^ gs ^ "|" ^ opts);
      let m1 = native_model true g opts in
      if native <> m1 then
        mismatch id (Printf.sprintf "%s GnmiTypedValueToNativeType %s opts=%s: impl=%s model=%s%s" ver gs opts native m1
                       (if native = native_model false g opts then " (the behaviour before the repairs)" else ""));
      (match strip_ok native with
       | Some ts ->
         let m = gnmi_model (parse_tv ts) in
         if m <> back then mismatch id (Printf.sprintf "%s NativeTypeToGnmiTypedValue %s: impl=%s model=%s" ver ts back m);
         monitor_proto id (ver ^ " pure round trip") g back
       | None ->
         if native = "panic" then specviol id "c17_panic" (Printf.sprintf "%s GnmiTypedValueToNativeType %s panics" ver gs)
         else if supported g && not (match precision_of g with Some p -> p > 18 | None -> false) then
           specviol id "c17_supported_value_refused" (Printf.sprintf "%s GnmiTypedValueToNativeType refuses %s (opts %s)" ver gs opts));
      if ver = "v2" then sample (Printf.sprintf "round trip %s opts=%s -> stored %s -> %s" gs opts native back)
    | [ "value.json"; id; ver; gs; opts; ts; rfc; obs ] ->
      stat ("value.json." ^ ver ^ ".rfc" ^ rfc);
      let g = parse_g gs and t = parse_tv ts in
      (match json_disagrees true (rfc = "1") t obs with
       | None -> ()
       | Some w1 -> mismatch id (Printf.sprintf "%s handleLeafValue rfc7951=%s of %s: impl=%s, model expects %s%s" ver rfc ts obs w1 (before_note (rfc = "1") t obs)));
      if rfc = "1" then monitor_json id (ver ^ " BuildTree") g opts obs
    | [ "value.tv"; id; ver; ts; back; j1; j0 ] ->
      stat ("value.tv." ^ ver);
      let t = parse_tv ts in
      seen_distinct ("t" ^ ts);
      stat ("tv.back." ^ (match strip_ok back with Some _ -> "ok" | None -> back));
      let m = gnmi_model t in
      if m <> back then mismatch id (Printf.sprintf "%s NativeTypeToGnmiTypedValue of stored %s: impl=%s model=%s" ver ts back m);
      List.iter (fun (rfc, obs) ->
          match json_disagrees true rfc t obs with
          | None -> ()
          | Some w1 -> mismatch id (Printf.sprintf "%s handleLeafValue rfc7951=%b of stored %s: impl=%s, model expects %s%s" ver rfc ts obs w1 (before_note rfc t obs)))
        [ (true, j1); (false, j0) ]
    | [ "value.str"; id; gs; obs ] ->
      stat "value.str";
      (match parse_g gs with
       | D (d, p) ->
         seen_distinct ("d" ^ gs);
         let enc fx = enc_res hex_of (str_decimal64_utils fx (z_of_dec d) (z_of_int p)) in
         if obs <> enc true then
           mismatch id (Printf.sprintf "StrVal %s: impl=%s model=%s%s" gs obs (enc true)
                          (if obs = enc false then " (the behaviour before the repairs)" else ""));
         if p <= 18 then begin
           let want = "ok:" ^ hex_of_raw (decimal_text d p) in
           (* StrVal's human-readable form writes a whole number as <digits>.0 *)
           if obs <> want && not (p = 0 && obs = "ok:" ^ hex_of_raw (d ^ ".0")) then
             specviol id "c17_strval_decimal_text" (Printf.sprintf "utils.StrVal of %s is %s, the decimal reads %s" gs
                                                    (match strip_ok obs with Some h -> "\"" ^ raw_of_hex h ^ "\"" | None -> obs) (decimal_text d p))
         end
       | _ -> ())
    | [ "value.e2e"; id; gs; opts; code; stored; proto; js; doc; dev ] ->
      stat "value.e2e";
      let g = parse_g gs in
      shape_stats "e2e" g opts;
      seen_distinct ("e" ^ gs ^ "|" ^ opts);
      stat ("e2e.code." ^ code);
      if code = "Unanswered" then
        mismatch id (Printf.sprintf "Set of %s (opts %s) was not answered, twice, on fresh instances" gs opts)
      else if code <> "OK" then begin
        (* the model says whether the conversion refuses the value *)
        let m1 = native_model true g opts in
        if m1 <> "err" then mismatch id (Printf.sprintf "Set of %s refused with %s, the model accepts it" gs code);
        if supported g && not (match precision_of g with Some p -> p > 18 | None -> false) then
          specviol id "c17_supported_value_refused" (Printf.sprintf "Set refuses %s (opts %s) with %s" gs opts code)
      end else begin
        let m1 = native_model true g opts in
        if stored <> m1 then mismatch id (Printf.sprintf "stored value after Set %s opts=%s: impl=%s model=%s" gs opts stored m1);
        (match strip_ok stored with
         | Some ts ->
           let t = parse_tv ts in
           let m = gnmi_model t in
           if m <> proto then mismatch id (Printf.sprintf "Get PROTO of stored %s: impl=%s model=%s" ts proto m);
           if m <> dev then mismatch id (Printf.sprintf "device request for stored %s: impl=%s model=%s" ts dev m);
           List.iter (fun (what, obs) ->
               match json_disagrees true true t obs with
               | None -> ()
               | Some w1 -> mismatch id (Printf.sprintf "%s of stored %s: impl=%s, model expects %s%s" what ts obs w1 (before_note true t obs)))
             [ ("Get JSON", js); ("model plugin document", doc) ];
           monitor_proto id "Set -> Get PROTO" g proto;
           monitor_proto id "Set -> device request" g dev;
           monitor_json id "Set -> Get JSON" g opts js;
           monitor_json id "Set -> model plugin document" g opts doc
         | None -> mismatch id (Printf.sprintf "Set %s accepted but stored value is %s" gs stored));
        sample (Printf.sprintf "Set %s opts=%s -> stored %s; Get PROTO %s; Get JSON %s; plugin %s; device %s" gs opts stored proto js doc dev)
      end
    | _ -> stat "ignored")

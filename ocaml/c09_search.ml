(* C09 search: reachable idle (all work queues empty) states of the extracted queue model
   (Model/Proto2Queue.v over Model/P2Inst.v) that are NOT fixed points (some reconcile still has effects).
   Random delivery orders and small-scope exhaustive delivery orders over scripted scenarios.

   usage: c09_search MODE SEED N [MAXSTATES]   (C09_NOSER=1: no SERIALIZABLE transactions; C09_SCOPE=i: one small scope)
     MODE = random | exhaustive | both
   output (stdout):
     SHAPE \t count \t stranded \t shape key
     WITNESS \t shape key \t length \t coq label list        (shortest found per shape)
     STATE \t shape key \t summary
     STAT \t key \t value *)
open Model

let rec pos_of_int i = if i = 1 then XH else if i land 1 = 0 then XO (pos_of_int (i lsr 1)) else XI (pos_of_int (i lsr 1))
let n_of_int i = if i <= 0 then N0 else Npos (pos_of_int i)
let rec int_of_pos = function XH -> 1 | XO p -> 2 * int_of_pos p | XI p -> 2 * int_of_pos p + 1
let int_of_n = function N0 -> 0 | Npos p -> int_of_pos p
let rec nat_of_int i = if i <= 0 then O else S (nat_of_int (i - 1))
let rec int_of_nat = function O -> 0 | S n -> 1 + int_of_nat n
let bytes_of_string s = List.init (String.length s) (fun i -> n_of_int (Char.code s.[i]))

(* ------------------------------------------------------------------ scenarios *)
type item =
  | Target of int
  | ConnUp of int * int          (* connection id, target *)
  | ConnDown of int
  | Change of (int * int) list * bool   (* (target, value) list, serializable *)
  | Rollback of int

type scen = {
  items : item list;
  reject : (int * int) list;     (* (target, index): the model plugin rejects the candidate *)
  fail : (int * int) list;       (* (target, index): the device refuses the request (InvalidArgument) *)
  noplugin : (int * int) list;
}

let change_of v : cmap =
  let p = bytes_of_string "/a" in
  [ (p, { pv_path = p; pv_val = bytes_of_string (string_of_int v); pv_deleted = false; pv_index = N0 }) ]

let label_of = function
  | Target t -> LTarget (n_of_int t, false)
  | ConnUp (c, t) -> LConnUp (n_of_int c, n_of_int t)
  | ConnDown c -> LConnDown (n_of_int c)
  | Change (l, ser) -> LChange (List.map (fun (t, v) -> (n_of_int t, change_of v)) l, true, ser)
  | Rollback i -> LRollback (n_of_int i)

let oracle_for (sc : scen) (c : ctrl) (transient : bool) : oracle =
  match c with
  | CtlProp (t, i) ->
    let k = (int_of_n t, int_of_n i) in
    { o_plugin = not (List.mem k sc.noplugin); o_verdict = not (List.mem k sc.reject);
      o_answer = (if List.mem k sc.fail then CInvalidArgument else if transient then CUnavailable else COk);
      o_choice = N0; o_order = N0 }
  | _ -> { o_quiet with o_answer = (if transient then CUnavailable else COk) }

(* ------------------------------------------------------------------ printing (Coq syntax) *)
let sn n = string_of_int (int_of_n n)
let sb b = if b then "true" else "false"
let scode = function
  | COk -> "COk" | CUnavailable -> "CUnavailable" | CInvalidArgument -> "CInvalidArgument" | CPermissionDenied -> "CPermissionDenied"
  | _ -> "CUnknownC"
let coq_oracle o = Printf.sprintf "(mkOracle %s %s %s %s %s)" (sb o.o_plugin) (sb o.o_verdict) (scode o.o_answer) (sn o.o_choice) (sn o.o_order)
let coq_change (ch : cmap) =
  "[" ^ String.concat "; " (List.map (fun (_, v) ->
      Printf.sprintf "(B \"/a\", mkPV (B \"/a\") (B \"%s\") false 0)"
        (String.concat "" (List.map (fun c -> String.make 1 (Char.chr (int_of_n c))) v.pv_val))) ch) ^ "]"
let coq_label = function
  | QDeliver (n, o) -> Printf.sprintf "QDeliver %d %s" (int_of_nat n) (coq_oracle o)
  | QEnv (LTarget (t, p)) -> Printf.sprintf "QEnv (LTarget %s %s)" (sn t) (sb p)
  | QEnv (LConnUp (c, t)) -> Printf.sprintf "QEnv (LConnUp %s %s)" (sn c) (sn t)
  | QEnv (LConnDown c) -> Printf.sprintf "QEnv (LConnDown %s)" (sn c)
  | QEnv (LChange (l, sy, se)) ->
    Printf.sprintf "QEnv (LChange [%s] %s %s)" (String.concat "; " (List.map (fun (t, ch) -> Printf.sprintf "(%s, %s)" (sn t) (coq_change ch)) l)) (sb sy) (sb se)
  | QEnv (LRollback i) -> Printf.sprintf "QEnv (LRollback %s)" (sn i)
  | QEnv _ -> "QEnv ?"
let coq_labels ls = "[" ^ String.concat "; " (List.map coq_label ls) ^ "]"

let sctrl = function
  | CtlTx i -> Printf.sprintf "tx%d" (int_of_n i)
  | CtlProp (t, i) -> Printf.sprintf "prop(t%d,%d)" (int_of_n t) (int_of_n i)
  | CtlCfg t -> Printf.sprintf "cfg(t%d)" (int_of_n t)
  | CtlMaster t -> Printf.sprintf "master(t%d)" (int_of_n t)
  | CtlConn c -> Printf.sprintf "conn(%d)" (int_of_n c)
let sph = function None -> "-" | Some Doing -> "doing" | Some Done -> "done" | Some Failed -> "FAILED"
let sts = function TPending -> "PENDING" | TValidated -> "VALIDATED" | TCommitted -> "COMMITTED" | TApplied -> "APPLIED" | TFailed -> "FAILED"

let summary_string w =
  let ((txl, propl), cfgl) = q_summary w in
  let b = Buffer.create 256 in
  List.iter (fun ((((i, st), ((ini, v), c)), (a, ab)), ser) ->
      Buffer.add_string b (Printf.sprintf "tx%d[%s i=%s v=%s c=%s a=%s ab=%s%s] " (int_of_n i) (sts st) (sph ini) (sph v) (sph c) (sph a) (sph ab)
                             (if ser then " SER" else ""))) txl;
  List.iter (fun ((((t, i), (pr, nx)), ((ini, v), c)), (a, ab)) ->
      Buffer.add_string b (Printf.sprintf "p(t%d,%d)[prev=%d next=%d i=%s v=%s c=%s a=%s ab=%s] " (int_of_n t) (int_of_n i) (int_of_n pr) (int_of_n nx)
                             (sph ini) (sph v) (sph c) (sph a) (sph ab))) propl;
  List.iter (fun ((((t, idx), ((p, c), a)), st), ((m, tm), atm)) ->
      Buffer.add_string b (Printf.sprintf "cfg(t%d)[index=%d proposed=%d committed=%d applied=%d %s master=%s term=%d/%d] " (int_of_n t) (int_of_n idx)
                             (int_of_n p) (int_of_n c) (int_of_n a)
                             (match st with CUnknown -> "UNKNOWN" | CSynchronizing -> "SYNCHRONIZING" | CSynchronized -> "SYNCHRONIZED" | CPersisted -> "PERSISTED")
                             (match m with None -> "-" | Some x -> sn x) (int_of_n tm) (int_of_n atm))) cfgl;
  Buffer.contents b

(* ------------------------------------------------------------------ classification *)
let find_tx w i = List.assoc_opt i (w_txs w)
let find_prop w k = List.assoc_opt k (w_props w)
let find_cfg w t = List.assoc_opt t (w_cfgs w)

(* the shape of an enabled controller id: which record state it is in and what it waits behind *)
let describe w c =
  match c with
  | CtlTx i ->
    (match find_tx w i with
     | Some t ->
       let prev = match find_tx w (n_of_int (int_of_n i - 1)) with
         | Some p -> Printf.sprintf " prevtx(%s,init=%s)" (sts p.t_state) (sph p.t_init) | None -> "" in
       Printf.sprintf "tx(%s init=%s validate=%s commit=%s apply=%s abort=%s%s)" (sts t.t_state) (sph t.t_init) (sph t.t_validate) (sph t.t_commit)
         (sph t.t_apply) (sph t.t_abort) prev
     | None -> "tx?")
  | CtlProp (t, i) ->
    (match find_prop w (t, i) with
     | Some p ->
       let prev = if int_of_n p.p_prev = 0 then "" else
           match find_prop w (t, p.p_prev) with
           | Some q -> Printf.sprintf " prev(validate=%s commit=%s apply=%s abort=%s)" (sph q.p_validate) (sph q.p_commit) (sph q.p_apply) (sph q.p_abort)
           | None -> " prev?" in
       Printf.sprintf "prop(init=%s validate=%s commit=%s apply=%s abort=%s%s)" (sph p.p_init) (sph p.p_validate) (sph p.p_commit) (sph p.p_apply) (sph p.p_abort) prev
     | None -> "prop?")
  | CtlCfg _ -> "cfg" | CtlMaster _ -> "master" | CtlConn _ -> "conn"

(* the family (finding signature) of an enabled controller id at an idle state *)
let is_ph o p = (o = Some p)
let family w c =
  match c with
  | CtlTx i ->
    (match find_tx w i with
     | Some t ->
       let prev = find_tx w (n_of_int (int_of_n i - 1)) in
       if t.t_validate = None && t.t_init = Some Doing && (match prev with Some p -> p.t_init = Some Failed | None -> false) then "initfail_successor"
       else if t.t_abort = None && t.t_apply = None &&
               ((t.t_init = Some Done && t.t_validate = None) || (t.t_validate = Some Done && t.t_commit = None) || (t.t_commit = Some Done)) then "serializable_gate"
       else "other_tx"
     | None -> "other_tx")
  | CtlProp (t, i) ->
    (match find_prop w (t, i) with
     | Some p ->
       let prev = if int_of_n p.p_prev = 0 then None else find_prop w (t, p.p_prev) in
       let prev_dead = match prev with Some q -> q.p_apply = Some Failed || (q.p_apply = None && q.p_abort = Some Done) | None -> false in
       let waiting = (p.p_apply = Some Doing) || (p.p_apply = None && p.p_abort = Some Doing) || (p.p_apply = None && p.p_abort = None && p.p_commit = None && p.p_validate = Some Doing) in
       if waiting && prev_dead then "dead_prev"
       else if p.p_apply = Some Doing then "sync_wakeup"
       else if p.p_apply = None && p.p_abort = None && p.p_commit = None && p.p_validate = Some Doing
               && (match prev with Some q -> q.p_commit = Some Done | None -> false) then "commit_hidden_by_apply"
       else "other_prop"
     | None -> "other_prop")
  | CtlCfg _ -> "other_cfg" | CtlMaster _ -> "other_master" | CtlConn _ -> "other_conn"

let families : (string, int * int) Hashtbl.t = Hashtbl.create 16

let tx_final (t : cmap txn) =
  match t.t_state with
  | TApplied -> true
  | TFailed -> (match t.t_apply, t.t_abort with Some Failed, _ -> true | _, Some Done -> true | _ -> false)
  | _ -> false

(* every target that has a configuration is connected with a live master in a synchronized term *)
let all_connected w =
  List.for_all (fun (t, (c : cmap config)) ->
      (match c.c_master with
       | Some m -> List.mem_assoc m (w_conns w) && (match List.assoc_opt m (w_rels w) with Some (t', true) -> t' = t | _ -> false)
       | None -> false)
      && int_of_n c.c_aterm >= int_of_n c.c_term && c.c_state <> CSynchronizing && List.mem_assoc t (w_targets w)) (w_cfgs w)

type hit = { mutable count : int; mutable stranded : int; mutable best : cmap qlabel list; mutable state : string; mutable who : string }
let shapes : (string, hit) Hashtbl.t = Hashtbl.create 64
let stats : (string, int) Hashtbl.t = Hashtbl.create 16
let stat k = Hashtbl.replace stats k (1 + try Hashtbl.find stats k with Not_found -> 0)

let check_idle (s : (cmap, cmap, req, dstate) qworld) (trace_rev : cmap qlabel list) =
  stat "idle_states";
  let w = s.qw in
  let en = q_enabled o_quiet w in
  let stranded = all_connected w && List.exists (fun (_, t) -> not (tx_final t)) (w_txs w) in
  if stranded then stat "idle_stranded";
  if en <> [] then begin
    stat "idle_not_fixpoint";
    List.iter (fun f -> let (a, b) = try Hashtbl.find families f with Not_found -> (0, 0) in
                Hashtbl.replace families f (a + 1, if stranded then b + 1 else b))
      (List.sort_uniq compare (List.map (family w) en));
    let key = String.concat "," (List.sort_uniq compare (List.map (family w) en)) ^ " :: " ^ String.concat " + " (List.sort_uniq compare (List.map (describe w) en)) in
    let tr = List.rev trace_rev in
    match Hashtbl.find_opt shapes key with
    | Some h ->
      h.count <- h.count + 1;
      if stranded then h.stranded <- h.stranded + 1;
      if List.length tr < List.length h.best then begin
        h.best <- tr; h.state <- summary_string w; h.who <- String.concat "," (List.map sctrl en) end
    | None ->
      Hashtbl.replace shapes key { count = 1; stranded = (if stranded then 1 else 0); best = tr; state = summary_string w;
                                   who = String.concat "," (List.map sctrl en) }
  end else if stranded then begin
    (* idle, a fixed point, everything connected, and still a transaction is not final: a deadlock (progress fails) *)
    stat "idle_fixpoint_but_stranded";
    let key = "DEADLOCK " ^ String.concat " + " (List.sort_uniq compare
                (List.filter_map (fun (i, t) -> if tx_final t then None else Some (describe w (CtlTx i))) (w_txs w))) in
    let tr = List.rev trace_rev in
    match Hashtbl.find_opt shapes key with
    | Some h -> h.count <- h.count + 1; h.stranded <- h.stranded + 1;
      if List.length tr < List.length h.best then begin h.best <- tr; h.state <- summary_string w end
    | None -> Hashtbl.replace shapes key { count = 1; stranded = 1; best = tr; state = summary_string w; who = "" }
  end

(* ------------------------------------------------------------------ random scenarios *)
let gen_scen (rng : Random.State.t) : scen =
  let nt = 1 + Random.State.int rng 2 in
  let ntx = 1 + Random.State.int rng 3 in
  let items = ref (List.init nt (fun t -> Target (t + 1))) in
  let reject = ref [] and fail = ref [] and noplugin = ref [] in
  (* connections: up from the start, or arriving somewhere in the script, perhaps going away and returning *)
  let conn_at = Array.init nt (fun _ -> Random.State.int rng (ntx + 2)) in
  let conn_id = ref 10 in
  let up t = incr conn_id; items := !items @ [ ConnUp (!conn_id, t) ] in
  for k = 0 to ntx do
    for t = 1 to nt do if conn_at.(t - 1) = k || (conn_at.(t - 1) > ntx && k = ntx) then up t done;
    if k < ntx then begin
      let idx = k + 1 in
      if k > 0 && Random.State.int rng 5 = 0 then
        items := !items @ [ Rollback (1 + Random.State.int rng (k + 2)) ]
      else begin
        let tg = if nt = 1 then [ 1 ] else (match Random.State.int rng 3 with 0 -> [ 1 ] | 1 -> [ 2 ] | _ -> [ 1; 2 ]) in
        items := !items @ [ Change (List.map (fun t -> (t, 10 * idx + t)) tg, (Sys.getenv_opt "C09_NOSER" = None) && Random.State.int rng 4 = 0) ];
        List.iter (fun t ->
            (match Random.State.int rng 8 with
             | 0 | 1 -> reject := (t, idx) :: !reject
             | 2 -> fail := (t, idx) :: !fail
             | 3 -> if Random.State.int rng 3 = 0 then noplugin := (t, idx) :: !noplugin
             | _ -> ())) tg
      end;
      if Random.State.int rng 6 = 0 then begin
        (* a connection flap: the current connection of a target goes away, a new one arrives *)
        let t = 1 + Random.State.int rng nt in
        let cur = List.fold_left (fun acc it -> match it with ConnUp (c, t') when t' = t -> Some c | ConnDown c when Some c = acc -> None | _ -> acc) None !items in
        match cur with Some c -> items := !items @ [ ConnDown c ]; up t | None -> ()
      end
    end
  done;
  { items = !items; reject = !reject; fail = !fail; noplugin = !noplugin }

(* two proposals that re-queue each other without doing anything: the work queue never drains *)
let check_cycle (sc : scen) (s : (cmap, cmap, req, dstate) qworld) (tr : cmap qlabel list) : bool =
  List.exists (fun c ->
      match c with
      | CtlProp k1 ->
        (match p2_reconcile (oracle_for sc c false) s.qw c with
         | ([], RRequeueProp k2) ->
           (match p2_reconcile (oracle_for sc (CtlProp k2) false) s.qw (CtlProp k2) with
            | ([], RRequeueProp k3) when k3 = k1 && q_enabled o_quiet s.qw = [] && all_connected s.qw ->
              (* permanent: no stored id has anything to do, every target is connected *)
              let key = "CYCLE " ^ describe s.qw c ^ " <-> " ^ describe s.qw (CtlProp k2) in
              let t = List.rev tr in
              (match Hashtbl.find_opt shapes key with
               | Some h -> h.count <- h.count + 1;
                 if List.length t < List.length h.best then begin h.best <- t; h.state <- summary_string s.qw; h.who <- sctrl c end
               | None -> Hashtbl.replace shapes key { count = 1; stranded = 0; best = t; state = summary_string s.qw; who = sctrl c });
              true
            | _ -> false)
         | _ -> false)
      | _ -> false) s.queue

let record_final = ref false
let max_steps = 3000


(* experiment (C09_INV=1): is the token invariant - every enabled id is reached from a pending id through effect-free
   re-queue results - an invariant of ALL reachable states, not only of the idle ones? *)
let check_tokens (sc : scen) (s : (cmap, cmap, req, dstate) qworld) =
  let w = s.qw in
  let step c = match p2_reconcile (oracle_for sc c false) w c with
    | ([], RRequeueTx i) -> Some (CtlTx i) | ([], RRequeueProp k) -> Some (CtlProp k)
    | (_, RRequeueTx i) when Sys.getenv_opt "C09_INV" = Some "2" -> Some (CtlTx i)
    | (_, RRequeueProp k) when Sys.getenv_opt "C09_INV" = Some "2" -> Some (CtlProp k)
    | _ -> None in
  let rec closure seen = function
    | [] -> seen
    | c :: rest -> if List.mem c seen then closure seen rest
      else closure (c :: seen) (match step c with Some c' -> c' :: rest | None -> rest) in
  let cov = closure [] s.queue in
  List.iter (fun c ->
      if (match p2_reconcile (oracle_for sc c false) w c with ([], _) -> false | _ -> true) && not (List.mem c cov) then begin
        stat "uncovered_enabled";
        let key = "UNCOVERED " ^ family w c ^ " / " ^ describe w c in
        match Hashtbl.find_opt shapes key with
        | Some h -> h.count <- h.count + 1
        | None -> Hashtbl.replace shapes key { count = 1; stranded = 0; best = []; state = summary_string w ^ " QUEUE " ^ String.concat "," (List.map sctrl s.queue); who = sctrl c }
      end) (q_all_ctrls w);
  (* wait (b): an enabled transaction at a gate is pending itself *)
  List.iter (fun (i, (t : cmap txn)) ->
      let gate_state = t.t_abort = None && t.t_apply = None &&
                       ((t.t_init = Some Done && t.t_validate = None) || (t.t_validate = Some Done && t.t_commit = None) || (t.t_commit = Some Done)) in
      if gate_state && (match p2_reconcile o_quiet w (CtlTx i) with ([], _) -> false | _ -> true) && not (List.mem (CtlTx i) s.queue) then begin
        stat "gate_enabled_not_pending";
        let key = "GATE-NOT-PENDING " ^ describe w (CtlTx i) in
        match Hashtbl.find_opt shapes key with
        | Some h -> h.count <- h.count + 1
        | None -> Hashtbl.replace shapes key { count = 1; stranded = 0; best = []; state = summary_string w ^ " QUEUE " ^ String.concat "," (List.map sctrl s.queue); who = sctrl (CtlTx i) }
      end) (w_txs w);
  stat "states_checked"

let inv_on = Sys.getenv_opt "C09_INV" <> None

let run_random (rng : Random.State.t) (sc : scen) =
  let s = ref q_init and env = ref sc.items and trace = ref [] and steps = ref 0 and go = ref true in
  while !go && !steps < max_steps do
    incr steps;
    if inv_on then check_tokens sc !s;
    let qlen = List.length !s.queue in
    if !env <> [] && (qlen = 0 || Random.State.int rng 4 = 0) then begin
      if qlen = 0 then check_idle !s !trace;
      let l = QEnv (label_of (List.hd !env)) in
      env := List.tl !env; s := q_step !s l; trace := l :: !trace
    end else if qlen = 0 then begin
      check_idle !s !trace;
      if !record_final then begin
        (* the end of a complete run: a regression example for the Coq side *)
        let w = !s.qw in
        let key = Printf.sprintf "FINAL %s %s" (if q_enabled o_quiet w = [] then "fixpoint" else "NOT-FIXPOINT")
            (if List.for_all (fun (_, t) -> tx_final t) (w_txs w) then "all-final" else "some-not-final") in
        let tr = List.rev !trace in
        match Hashtbl.find_opt shapes key with
        | Some h -> h.count <- h.count + 1;
          if List.length tr < List.length h.best then begin h.best <- tr; h.state <- summary_string w end
        | None -> Hashtbl.replace shapes key { count = 1; stranded = 0; best = tr; state = summary_string w; who = "" }
      end;
      go := false end
    else begin
      let n = Random.State.int rng qlen in
      let c = List.nth !s.queue n in
      let transient = Random.State.int rng 25 = 0 in
      let l = QDeliver (nat_of_int n, oracle_for sc c transient) in
      s := q_step !s l; trace := l :: !trace;
      if check_cycle sc !s !trace then begin stat "runs_cycle"; go := false end
      else begin
        (* livelock: the environment script is over and everything that is pending is a pair of proposals that do nothing
           but re-queue each other: every delivery order from here on leaves the world unchanged and the queue non-empty *)
        match List.sort_uniq compare !s.queue with
        | [ CtlProp k1; CtlProp k2 ] when !env = [] ->
          (match p2_reconcile (oracle_for sc (CtlProp k1) false) !s.qw (CtlProp k1), p2_reconcile (oracle_for sc (CtlProp k2) false) !s.qw (CtlProp k2) with
           | ([], RRequeueProp a), ([], RRequeueProp b) when a = k2 && b = k1 ->
             stat "runs_livelock";
             let key = "LIVELOCK " ^ describe !s.qw (CtlProp k1) ^ " <-> " ^ describe !s.qw (CtlProp k2) ^ (if all_connected !s.qw then " connected" else " not-connected") in
             let t = List.rev !trace in
             (match Hashtbl.find_opt shapes key with
              | Some h -> h.count <- h.count + 1;
                if List.length t < List.length h.best then begin h.best <- t; h.state <- summary_string !s.qw; h.who <- sctrl (CtlProp k1) end
              | None -> Hashtbl.replace shapes key { count = 1; stranded = 0; best = t; state = summary_string !s.qw; who = sctrl (CtlProp k1) });
             go := false
           | _ -> ())
        | _ -> ()
      end
    end
  done;
  if !steps >= max_steps then begin
    stat "runs_cut";
    (* a run that does not come to rest: which ids keep the queues busy, and are they doing anything *)
    let w = !s.qw in
    let busy = List.sort_uniq compare (List.map (fun c -> sctrl c ^ (if q_enabled o_quiet w <> [] && List.mem c (q_enabled o_quiet w) then "!" else "")) !s.queue) in
    let key = "BUSY " ^ String.concat "," (List.sort_uniq compare (List.map (fun c -> family w c ^ "/" ^ describe w c) !s.queue)) in
    (match Hashtbl.find_opt shapes key with
     | Some h -> h.count <- h.count + 1
     | None -> Hashtbl.replace shapes key { count = 1; stranded = 0; best = List.rev !trace; state = summary_string w; who = String.concat "," busy })
  end else stat "runs_to_idle"

(* ------------------------------------------------------------------ exhaustive delivery orders *)
let key_of (s : (cmap, cmap, req, dstate) qworld) (envpos : int) : string =
  let w = s.qw in
  Digest.string (Marshal.to_string (w_txs w, w_props w, w_cfgs w, w_targets w, w_rels w, w_conns w, List.length w.devlog, List.sort compare s.queue, envpos) [])

let run_exhaustive (sc : scen) (max_states : int) =
  let visited = Hashtbl.create 4096 in
  let items = Array.of_list sc.items in
  let q = Queue.create () in
  (* reduction: pending ids whose reconcile does nothing at all (no effect, no requeue) are delivered at once - the
     adversarial choice: delivering them later could only help.  The deliveries are recorded in the trace, so every
     witness is a genuine delivery order of the multiset model. *)
  let rec normalize (s : (cmap, cmap, req, dstate) qworld) tr =
    let rec find n = function
      | [] -> None
      | c :: rest ->
        let o = oracle_for sc c false in
        (match p2_reconcile o s.qw c with
         | ([], RDone) -> Some (n, o)
         | _ -> find (n + 1) rest) in
    match find 0 s.queue with
    | Some (n, o) -> let l = QDeliver (nat_of_int n, o) in normalize (q_step s l) (l :: tr)
    | None -> (s, tr) in
  Queue.add (q_init, 0, []) q;
  Hashtbl.replace visited (key_of q_init 0) ();
  let cut = ref false in
  while not (Queue.is_empty q) do
    let (s, envpos, tr) = Queue.pop q in
    if s.queue = [] then check_idle s tr;
    (* two proposals that re-queue each other without doing anything: the work queue never drains *)
    List.iter (fun c ->
        match c with
        | CtlProp k1 ->
          (match p2_reconcile (oracle_for sc c false) s.qw c with
           | ([], RRequeueProp k2) ->
             (match p2_reconcile (oracle_for sc (CtlProp k2) false) s.qw (CtlProp k2) with
              | ([], RRequeueProp k3) when k3 = k1 ->
                let key = "CYCLE " ^ describe s.qw c ^ " <-> " ^ describe s.qw (CtlProp k2) in
                let t = List.rev tr in
                (match Hashtbl.find_opt shapes key with
                 | Some h -> h.count <- h.count + 1
                 | None -> Hashtbl.replace shapes key { count = 1; stranded = 0; best = t; state = summary_string s.qw; who = sctrl c })
              | _ -> ())
           | _ -> ())
        | _ -> ()) s.queue;
    let succs = ref [] in
    if envpos < Array.length items then begin
      let l = QEnv (label_of items.(envpos)) in
      succs := (q_step s l, envpos + 1, l :: tr) :: !succs
    end;
    let seen = ref [] in
    List.iteri (fun n c ->
        if not (List.mem c !seen) then begin
          seen := c :: !seen;
          let l = QDeliver (nat_of_int n, oracle_for sc c false) in
          succs := (q_step s l, envpos, l :: tr) :: !succs
        end) s.queue;
    List.iter (fun (s', e', tr') ->
        let (s', tr') = normalize s' tr' in
        let k = key_of s' e' in
        if not (Hashtbl.mem visited k) then
          if Hashtbl.length visited < max_states then begin Hashtbl.replace visited k (); Queue.add (s', e', tr') q end
          else cut := true) !succs
  done;
  stat (if !cut then "exhaustive_cut" else "exhaustive_complete");
  Hashtbl.replace stats "exhaustive_states" (Hashtbl.length visited + (try Hashtbl.find stats "exhaustive_states" with Not_found -> 0))

(* hand-written small scopes: the shapes the random search is expected to meet, explored completely *)
let small_scopes : scen list =
  let base = { items = []; reject = []; fail = []; noplugin = [] } in
  [ (* two changes on one connected target, the first rejected by the plugin *)
    { base with items = [ Target 1; ConnUp (11, 1); Change ([ (1, 11) ], false); Change ([ (1, 21) ], false) ]; reject = [ (1, 1) ] };
    (* ... the first refused by the device *)
    { base with items = [ Target 1; ConnUp (11, 1); Change ([ (1, 11) ], false); Change ([ (1, 21) ], false) ]; fail = [ (1, 1) ] };
    (* a rollback of a missing index followed by a change *)
    { base with items = [ Target 1; ConnUp (11, 1); Rollback 7; Change ([ (1, 21) ], false) ] };
    (* a serializable change followed by a change *)
    { base with items = [ Target 1; ConnUp (11, 1); Change ([ (1, 11) ], true); Change ([ (1, 21) ], false) ] };
    (* a change committed while the device is away, then the device arrives *)
    { base with items = [ Target 1; Change ([ (1, 11) ], false); ConnUp (11, 1) ] };
    (* two targets, one rejected: the whole transaction aborts; then a change on the healthy target *)
    { base with items = [ Target 1; Target 2; ConnUp (11, 1); ConnUp (12, 2); Change ([ (1, 11); (2, 12) ], false); Change ([ (1, 21) ], false) ];
                reject = [ (2, 1) ] };
    (* rejected change while the device is away, then a change, then the device arrives *)
    { base with items = [ Target 1; Change ([ (1, 11) ], false); Change ([ (1, 21) ], false); ConnUp (11, 1) ]; reject = [ (1, 1) ] };
    (* a change and its rollback committed while the device is away, then the device arrives *)
    { base with items = [ Target 1; Change ([ (1, 11) ], false); Rollback 1; ConnUp (11, 1) ] };
    (* two targets, the device of the first refuses the change *)
    { base with items = [ Target 1; Target 2; ConnUp (11, 1); ConnUp (12, 2); Change ([ (1, 11); (2, 12) ], false); Change ([ (2, 22) ], false) ];
                fail = [ (1, 1) ] };
    (* a serializable change and a change committed while the device is away, then the device arrives *)
    { base with items = [ Target 1; Change ([ (1, 11) ], true); Change ([ (1, 21) ], false); ConnUp (11, 1) ] };
    (* two changes committed while the device is away, then the device arrives *)
    { base with items = [ Target 1; Change ([ (1, 11) ], false); Change ([ (1, 21) ], false); ConnUp (11, 1) ] };
    (* a serializable change and two changes on a connected target *)
    { base with items = [ Target 1; ConnUp (11, 1); Change ([ (1, 11) ], true); Change ([ (1, 21) ], false); Change ([ (1, 31) ], false) ] };
    (* a serializable change and two changes while the device stays away *)
    { base with items = [ Target 1; Change ([ (1, 11) ], true); Change ([ (1, 21) ], false); Change ([ (1, 31) ], false) ] };
    (* a serializable change on two targets with a different follower on each, committed while the devices are away *)
    { base with items = [ Target 1; Target 2; Change ([ (1, 11); (2, 12) ], true); Change ([ (1, 21) ], false); Change ([ (2, 32) ], false);
                          ConnUp (11, 1); ConnUp (12, 2) ] };
    (* a serializable change and its rollback committed while the device is away, then the device arrives *)
    { base with items = [ Target 1; Change ([ (1, 11) ], true); Rollback 1; ConnUp (11, 1) ] };
    (* change, rollback of it, change *)
    { base with items = [ Target 1; ConnUp (11, 1); Change ([ (1, 11) ], false); Rollback 1; Change ([ (1, 31) ], false) ] };
  ]

let () =
  let mode = if Array.length Sys.argv > 1 then Sys.argv.(1) else "both" in
  let seed = if Array.length Sys.argv > 2 then int_of_string Sys.argv.(2) else 1 in
  let n = if Array.length Sys.argv > 3 then int_of_string Sys.argv.(3) else 2000 in
  let maxst = if Array.length Sys.argv > 4 then int_of_string Sys.argv.(4) else 60000 in
  let rng = Random.State.make [| seed |] in
  if mode = "random" || mode = "both" then
    for _ = 1 to n do
      let sc = gen_scen rng in
      for _ = 1 to 4 do run_random rng sc done
    done;
  if mode = "scoperandom" then begin
    let i = int_of_string (Sys.getenv "C09_SCOPE") in
    record_final := true;
    for _ = 1 to n do run_random rng (List.nth small_scopes i) done
  end;
  if mode = "exhaustive" || mode = "both" then
    List.iteri (fun i sc -> match Sys.getenv_opt "C09_SCOPE" with
        | Some n when int_of_string n <> i -> ()
        | _ -> run_exhaustive sc maxst) small_scopes;
  let l = Hashtbl.fold (fun k h acc -> (k, h) :: acc) shapes [] in
  let l = List.sort (fun (_, a) (_, b) -> compare b.count a.count) l in
  List.iter (fun (k, h) -> Printf.printf "SHAPE\t%d\t%d\t%s\n" h.count h.stranded k) l;
  List.iter (fun (k, h) ->
      Printf.printf "WITNESS\t%s\t%d\t%s\n" k (List.length h.best) (coq_labels h.best);
      Printf.printf "STATE\t%s\t%s\t%s\n" k h.who h.state) l;
  Hashtbl.iter (fun k (a, b) -> Printf.printf "FAMILY\t%s\t%d\t%d\n" k a b) families;
  Hashtbl.iter (fun k v -> Printf.printf "STAT\t%s\t%d\n" k v) stats;
  Printf.printf "STAT\tshapes\t%d\n" (List.length l)

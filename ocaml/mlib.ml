(* shared helpers for the model-side drivers: decoding of harness lines into the extracted
   model's types (N stays the extracted inductive), bookkeeping, output protocol:
     MISMATCH \t id \t detail      model and implementation disagree
     SPECVIOL \t id \t signature \t detail    a property monitor fails on the implementation
     STAT \t key \t count
     SAMPLE \t text *)
module M = Model

let rec pos_of_int i =
  if i = 1 then M.XH else if i land 1 = 0 then M.XO (pos_of_int (i lsr 1)) else M.XI (pos_of_int (i lsr 1))
let n_of_int i = if i <= 0 then M.N0 else M.Npos (pos_of_int i)
let rec int_of_pos = function M.XH -> 1 | M.XO p -> 2 * int_of_pos p | M.XI p -> 2 * int_of_pos p + 1
let int_of_n = function M.N0 -> 0 | M.Npos p -> int_of_pos p


(* "-" encodes the empty string so that no field is ever empty *)
let unhex s =
  if s = "-" || s = "" then []
  else List.init (String.length s / 2) (fun i -> n_of_int (int_of_string ("0x" ^ String.sub s (2 * i) 2)))
let hex_of l = if l = [] then "-" else String.concat "" (List.map (fun c -> Printf.sprintf "%02x" (int_of_n c)) l)
let str_of l = String.concat "" (List.map (fun c -> String.make 1 (Char.chr (int_of_n c land 255))) l)
let bytes_of_string s = List.init (String.length s) (fun i -> n_of_int (Char.code s.[i]))

(* comma-separated list of hex strings; "." encodes the empty list *)
let unhex_list s = if s = "." then [] else List.map unhex (String.split_on_char ',' s)
let hex_list l = if l = [] then "." else String.concat "," (List.map hex_of l)

let stats : (string, int) Hashtbl.t = Hashtbl.create 64
let stat k = Hashtbl.replace stats k (1 + try Hashtbl.find stats k with Not_found -> 0)
let statn k n = Hashtbl.replace stats k (n + try Hashtbl.find stats k with Not_found -> 0)
let nmism = ref 0
let nviol = ref 0
let mismatch id detail =
  incr nmism;
  if !nmism <= 200 then Printf.printf "MISMATCH\t%s\t%s\n" id detail
let specviol id signature detail =
  incr nviol;
  stat ("viol:" ^ signature);
  if !nviol <= 2000 then Printf.printf "SPECVIOL\t%s\t%s\t%s\n" id signature detail
let nsamples = ref 0
let sample s = incr nsamples; if !nsamples <= 8 then Printf.printf "SAMPLE\t%s\n" s

let distinct : (string, unit) Hashtbl.t = Hashtbl.create 1024
let seen_distinct key = if not (Hashtbl.mem distinct key) then Hashtbl.replace distinct key ()

let each_line f =
  (try
     while true do
       let line = input_line stdin in
       if line <> "" then
         (try f (String.split_on_char '\t' line)
          with e -> incr nmism; Printf.printf "MISMATCH\t?\tdriver exception %s on line %s\n" (Printexc.to_string e)
                      (if String.length line > 200 then String.sub line 0 200 else line))
     done
   with End_of_file -> ());
  Hashtbl.iter (fun k v -> Printf.printf "STAT\t%s\t%d\n" k v) stats;
  Printf.printf "STAT\tdistinct\t%d\n" (Hashtbl.length distinct);
  Printf.printf "STAT\tmismatches\t%d\n" !nmism;
  Printf.printf "STAT\tspecviol\t%d\n" !nviol

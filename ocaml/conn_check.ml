(* conn driver: replays the scenarios observed by harness/cmd/conn on the REAL southbound connection manager through the
   extracted model (coq/Model/ConnMgr.v) and evaluates the manager's contract directly on the observation.

   Input line:  conn.scen \t id \t scenario \t target-index \t params \t phase \t phase ...
     phase := act=<action>;sd=<us>;ev=<A1.R1.A2|->;live=<ids|->;rpc=<id:cap:epoch:set,..|->;srv=<served>:<open>:<away>;to=<0|1>;ms=<n>

   MISMATCH: the Added / Removed sequence (with the ids renamed 1,2,.. in order of appearance - the model's ids are a
     counter, so equal sequences also mean "a fresh id every time") or the set of ids Get still answers for differs from
     what the model (the loop as it is in /repo, [current]; CONN_BEFORE_REPAIR=1 replays the loop before ac94f55) does
     with the channel states the action forces.  A goroutine that misses CONNECTING (samples IDLE READY) produces the
     same outputs as one that reads it, so there is no alternative replay any more.
   SPECVIOL (the contract, stated on the observation only):
     c10_conn_survived_channel_loss  a connection that was live before a loss is still handed out after the channel was
                                     re-established (or after the target went away / was disconnected)
     c10_conn_survived_fast_redial   the same, when the re-established transport was served within [fast_us] and the
                                     first attempt succeeded - the shape of finding F-CONN-1 (fixed by /repo ac94f55:
                                     a regression if it shows up)
     c10_conn_id_reused              an id is Added a second time (or delivered a third time)
     c10_two_live_connections        two ids of the target answer Get at a probe / Added while another one is live
     c10_unusable_connection_handed_out  a call through a handed-out connection fails, or arrives on an older transport
     c10_conn_not_reestablished      the device serves a new transport connection but no connection is handed out
     c10_conn_event_out_of_order     Removed of an id that is not the live one *)
open Model
open Mlib
open Mnat

let fast_us = 20000
let fx = (try Sys.getenv "CONN_BEFORE_REPAIR" <> "1" with Not_found -> true)

let kv s =
  List.filter_map (fun f -> match String.index_opt f '=' with
      | Some i -> Some (String.sub f 0 i, String.sub f (i + 1) (String.length f - i - 1))
      | None -> None) (String.split_on_char ';' s)

let split_dash c s = if s = "-" || s = "" then [] else String.split_on_char c s

type phase = { act : string; arg : string; sd : int; ev : (char * int) list; live : int list;
               rpc : (int * bool * int * bool) list; served : int; tmo : bool; raw : string }

let parse_phase s =
  let m = kv s in
  let g k = try List.assoc k m with Not_found -> "-" in
  let act, arg = match String.split_on_char ':' (g "act") with a :: r -> a, String.concat ":" r | [] -> "-", "" in
  let ev = List.map (fun e -> e.[0], int_of_string (String.sub e 1 (String.length e - 1))) (split_dash '.' (g "ev")) in
  let live = List.map int_of_string (split_dash '.' (g "live")) in
  let rpc = List.map (fun r -> match String.split_on_char ':' r with
      | [ id; c; e; st ] -> int_of_string id, c = "ok", int_of_string (String.sub e 1 (String.length e - 1)), st = "ok"
      | _ -> failwith ("rpc " ^ r)) (split_dash ',' (g "rpc")) in
  let served = match String.split_on_char ':' (g "srv") with a :: _ -> int_of_string a | [] -> 0 in
  { act; arg; sd = (try int_of_string (g "sd") with _ -> 0); ev; live; rpc; served; tmo = g "to" = "1"; raw = s }

(* ---- the model side *)
let cycle_ok = [ Idle; Connecting; Ready ]
let failed_attempt = [ TransientFailure; Idle; Connecting ]

let rec repeat n l = if n <= 0 then [] else l @ repeat (n - 1) l

(* events the action forces, for goroutine g of target t *)
let events_of p t g =
  let s l = List.map (fun x -> ESample (nat_of_int g, x)) l in
  match p.act with
  | "connect" -> [ EConnect t ] @ s [ Connecting; Ready ]
  | "cut" -> s cycle_ok
  | "restart" -> s ([ Idle; Connecting ] @ failed_attempt @ [ Ready ])
  | "refuse" -> s ([ Idle; Connecting ] @ repeat (int_of_string p.arg) failed_attempt @ [ Ready ])
  | "down" -> s [ Idle; Connecting; TransientFailure ]
  | "disconnect" -> [ EDisconnect t ] @ s [ Shutdown ]
  | "burst" -> s (repeat (List.length (List.filter (fun (k, _) -> k = 'A') p.ev)) cycle_ok)
  | _ -> []

let run_events m evs =
  List.fold_left (fun (m, os) e -> let m', o = step fx m e in (m', os @ o)) (m, []) evs

let show_outs os =
  String.concat "." (List.filter_map (function
      | Added (_, _, id) -> Some (Printf.sprintf "A%d" (int_of_n id))
      | Removed (_, _, id) -> Some (Printf.sprintf "R%d" (int_of_n id))
      | _ -> None) os)

let show_ev ev = String.concat "." (List.map (fun (k, i) -> Printf.sprintf "%c%d" k i) ev)
let show_ints l = String.concat "." (List.map string_of_int l)

let model_live m t = List.sort compare (List.filter_map (fun (id, t') -> if t' = t then Some (int_of_n id) else None) m.m_conns)

let () =
  each_line (function
    | "conn.scen" :: id :: scen :: ti :: params :: phases ->
      stat "conn.scen"; stat ("scenario." ^ scen);
      let phases = List.map parse_phase phases in
      (* the manager's ids are numbered per manager; rename per line in order of appearance *)
      let names = Hashtbl.create 8 in
      let rn i = match Hashtbl.find_opt names i with Some j -> j | None -> let j = Hashtbl.length names + 1 in Hashtbl.replace names i j; j in
      let phases = List.map (fun p ->
          let ev = List.map (fun (k, i) -> k, rn i) p.ev in
          let live = List.map rn p.live in
          { p with ev; live = List.sort compare live; rpc = List.map (fun (i, a, b, c) -> rn i, a, b, c) p.rpc }) phases in
      let t = n_of_int (7 + int_of_string ti) in
      let m = ref (init (n_of_int 1)) in
      let g = ref (-1) in
      let cur = ref None and ever = Hashtbl.create 8 in
      let prev_live = ref [] and prev_served = ref 0 in
      let where p = Printf.sprintf "scenario %s (%s) target %s, phase {%s}" scen params ti p.raw in
      List.iter (fun p ->
          stat ("act." ^ p.act);
          if p.tmo then stat "phase_timed_out";
          seen_distinct (scen ^ "|" ^ p.act ^ ":" ^ p.arg ^ "|" ^ string_of_int p.sd);
          (* ---------- replay through the extracted model *)
          if p.act = "connect" then incr g;
          let first_attempt_ok = p.act = "cut" in
          let m1, os1 = run_events !m (events_of p t !g) in
          let ok1 = show_outs os1 = show_ev p.ev && model_live m1 t = p.live in
          if not ok1 then
            mismatch id (Printf.sprintf "%s: model events %s live %s, implementation events %s live %s"
                           (where p) (show_outs os1) (show_ints (model_live m1 t)) (show_ev p.ev) (show_ints p.live));
          m := m1;
          (* ---------- the contract, on the observation *)
          List.iter (fun (k, i) ->
              match k with
              | 'A' ->
                if Hashtbl.mem ever i then specviol id "c10_conn_id_reused" (Printf.sprintf "%s: id %d is Added again" (where p) i);
                (match !cur with
                 | Some j -> specviol id "c10_two_live_connections" (Printf.sprintf "%s: %d Added while %d is live" (where p) i j)
                 | None -> ());
                Hashtbl.replace ever i (); cur := Some i
              | 'R' ->
                if !cur = Some i then cur := None
                else specviol id "c10_conn_event_out_of_order" (Printf.sprintf "%s: Removed %d, live is %s" (where p) i
                                                                  (match !cur with Some j -> string_of_int j | None -> "none"))
              | _ -> specviol id "c10_conn_id_reused" (Printf.sprintf "%s: id %d delivered a third time" (where p) i)) p.ev;
          if List.length p.live >= 2 then
            specviol id "c10_two_live_connections" (Printf.sprintf "%s: Get answers for %s" (where p) (show_ints p.live));
          let survivors = List.filter (fun i -> List.mem i !prev_live && not (List.mem ('R', i) p.ev)) p.live in
          let rpc_of i = List.find_opt (fun (j, _, _, _) -> j = i) p.rpc in
          let usable_check () =
            List.iter (fun i -> match rpc_of i with
                | Some (_, capok, ep, setok) ->
                  if not (capok && setok) then
                    specviol id "c10_unusable_connection_handed_out" (Printf.sprintf "%s: call through connection %d fails" (where p) i)
                  else if ep <> p.served then
                    specviol id "c10_unusable_connection_handed_out"
                      (Printf.sprintf "%s: call through connection %d arrived on transport %d, the device serves %d" (where p) i ep p.served)
                | None -> ()) p.live in
          (match p.act with
           | "connect" ->
             if p.live = [] then specviol id "c10_conn_not_reestablished" (Printf.sprintf "%s: no connection after Connect" (where p));
             usable_check ()
           | "cut" | "restart" | "refuse" | "burst" ->
             let renewed = p.served > !prev_served in
             List.iter (fun i ->
                 let ep = match rpc_of i with Some (_, true, ep, _) -> ep | _ -> 0 in
                 let sg = if first_attempt_ok && p.sd < fast_us then "c10_conn_survived_fast_redial" else "c10_conn_survived_channel_loss" in
                 specviol id sg
                   (Printf.sprintf "%s: connection %d was live before the loss and is still handed out; the device served transport %d before and %d now, a call through %d arrives on transport %d; no Removed, no new id"
                      (where p) i !prev_served p.served i ep)) survivors;
             if p.live = [] && renewed then
               specviol id "c10_conn_not_reestablished" (Printf.sprintf "%s: the device serves transport %d, no connection is handed out" (where p) p.served);
             if survivors = [] then usable_check ()
           | "down" | "disconnect" ->
             List.iter (fun i ->
                 specviol id "c10_conn_survived_channel_loss"
                   (Printf.sprintf "%s: connection %d is still handed out after the target %s" (where p) i
                      (if p.act = "down" then "went away" else "was disconnected"));
                 match rpc_of i with
                 | Some (_, capok, _, setok) when not (capok && setok) ->
                   specviol id "c10_unusable_connection_handed_out" (Printf.sprintf "%s: call through connection %d fails" (where p) i)
                 | _ -> ()) p.live
           | _ -> if !prev_live <> p.live then
               specviol id "c10_conn_event_out_of_order" (Printf.sprintf "%s: live set changed without an action on the target" (where p)));
          prev_live := p.live; prev_served := p.served) phases;
      sample (Printf.sprintf "%s %s target %s: %s" scen params ti
                (String.concat " | " (List.map (fun p -> Printf.sprintf "%s:%s ev=%s live=%s" p.act p.arg (show_ev p.ev) (show_ints p.live)) phases)))
    | _ -> stat "ignored")

(* C16 driver: replays the harness observations of the path codec (StrPath, SplitPath,
   ParseGNMIElements, GetParentPath, CheckPathIndexIsValid, IsPathValid, PathValuesToGnmiChange,
   Get PROTO's createUpdate, the gNMI Set handler) on the extracted model and evaluates the
   property on the implementation's own answers. *)
open Model
open Mlib

(* ---- gpath <-> line encoding (same as the harness: elements ';', keys '|k=v', hex fields) ---- *)
let dec_elem s =
  match String.split_on_char '|' s with
  | [] -> failwith "elem"
  | n :: kvs ->
    { e_name = unhex n;
      e_keys = List.map (fun kv -> match String.split_on_char '=' kv with
          | [ k; v ] -> (unhex k, unhex v)
          | _ -> failwith "kv") kvs }
let dec_gpath s = if s = "." then [] else List.map dec_elem (String.split_on_char ';' s)
let enc_elem e = String.concat "|" (hex_of e.e_name :: List.map (fun (k, v) -> hex_of k ^ "=" ^ hex_of v) e.e_keys)
let enc_gpath p = if p = [] then "." else String.concat ";" (List.map enc_elem p)
let dec_paths s = if s = "." then [] else List.map dec_gpath (String.split_on_char '+' s)
let enc_paths ps = if ps = [] then "." else String.concat "+" (List.sort compare (List.map enc_gpath ps))

let kind_of = function
  | ENoElemName -> "elemname" | ENoOpen -> "open" | ENoEq -> "eq" | ENoKeyName -> "keyname"
  | ENoClose -> "close" | ENoKeyValue -> "keyvalue"
let res_str = function
  | ROk p -> "ok:" ^ enc_gpath p
  | RErr e -> "err:" ^ kind_of e
  | RPanic -> "panic"
  | RFuel -> "fuel"

let show_str l = String.escaped (str_of l)
let show_gpath p = String.escaped (str_of (str_path_elem p))
let c_slash = n_of_int 47
let has_slash l = List.mem c_slash l
let starts_with s pre = String.length s >= String.length pre && String.sub s 0 (String.length pre) = pre

(* text -> canonical encoding of the first well-formed gpath seen with it (injectivity monitor) *)
let texts : (string, string) Hashtbl.t = Hashtbl.create 4096

let split2 c s = match String.index_opt s c with
  | Some i -> (String.sub s 0 i, String.sub s (i + 1) (String.length s - i - 1))
  | None -> (s, "")

let () =
  each_line (function
    | [ "path.str"; id; gp; element; text ] ->
      stat "path.str";
      let p = dec_gpath gp and el = unhex_list element in
      seen_distinct ("s" ^ gp ^ "|" ^ element);
      let m = str_path_msg p el in
      if hex_of m <> text then mismatch id (Printf.sprintf "StrPath elems=%s element=%s model=%s impl=%s" gp element (hex_of m) text)
    | [ "path.det"; id; gp; texts ] ->
      stat "path.det";
      let p = dec_gpath gp in
      seen_distinct ("d" ^ gp);
      let ts = unhex_list texts in
      if List.exists (fun e -> List.length e.e_keys >= 3) p then stat "det.three_keys";
      (* the text of one gNMI path is the same at every conversion *)
      if List.length ts <> 1 then
        specviol id "c16_text_not_deterministic"
          (Printf.sprintf "path %s was rendered as %s in repeated conversions" gp
             (String.concat " and " (List.map (fun t -> Printf.sprintf "%S" (show_str t)) ts)));
      List.iter (fun t -> if t <> str_path p then mismatch id (Printf.sprintf "StrPath elems=%s model=%S impl=%S" gp (show_str (str_path p)) (show_str t))) ts
    | [ "path.unexpected"; id; domain; input; what ] ->
      stat "path.unexpected";
      specviol id "c16_unexpected_answer" (Printf.sprintf "observation %s on input %s could not be completed: %s" domain input (show_str (unhex what)))
    | [ "path.rt"; id; gp; text; parsed; parent; inittext ] ->
      stat "path.rt";
      let p = dec_gpath gp in
      seen_distinct ("r" ^ gp);
      let mt = str_path p in
      if hex_of mt <> text then mismatch id (Printf.sprintf "StrPath elems=%s model=%s impl=%s" gp (hex_of mt) text);
      let mp = res_str (parse_path (unhex text)) in
      if mp <> parsed then mismatch id (Printf.sprintf "parse of %S model=%s impl=%s" (show_str (unhex text)) mp parsed);
      (* the property on the implementation: a well-formed path is parsed back unchanged ... *)
      let wf = wf_gpath p in
      if wf then begin
        stat "rt.wellformed";
        if List.exists (fun e -> e.e_keys <> []) p then stat "rt.wellformed.with_keys";
        if parsed <> "ok:" ^ gp then
          specviol id "c16_roundtrip_differs" (Printf.sprintf "path %S (%s) came back as %s" (show_gpath p) gp parsed);
        (* ... and no two well-formed paths share a text *)
        (match Hashtbl.find_opt texts text with
         | Some g0 when g0 <> gp -> specviol id "c16_two_paths_one_text" (Printf.sprintf "text %S is shared by %s and %s" (show_str (unhex text)) g0 gp)
         | Some _ -> ()
         | None -> Hashtbl.replace texts text gp)
      end else begin
        stat "rt.outside_wf";
        (* wf_gpath is claimed to be the weakest condition: nothing outside it comes back unchanged *)
        if parsed = "ok:" ^ gp then
          mismatch id (Printf.sprintf "path %S (%s) is outside wf_gpath but is parsed back unchanged" (show_gpath p) gp)
      end;
      (* the parent of a path is that path without its last element (for a last element without '/') *)
      (match List.rev p with
       | last :: _ when slash_free last ->
         stat "parent.slashfree_last";
         if parent <> inittext then
           specviol id "c16_parent_differs" (Printf.sprintf "parent of %S is %S, the path without its last element is %S"
                                               (show_gpath p) (show_str (unhex parent)) (show_str (unhex inittext)))
       | _ :: _ -> stat "parent.slash_in_last"; if wf && parent <> inittext then stat "parent.slash_in_last.wrong_parent"
       | [] -> ())
    | [ "path.parse"; id; text; tokens; parsed ] ->
      stat "path.parse";
      let t = unhex text in
      seen_distinct ("p" ^ text);
      let mtoks = split_path t in
      if hex_list mtoks <> tokens then mismatch id (Printf.sprintf "SplitPath %S model=%s impl=%s" (show_str t) (hex_list mtoks) tokens);
      let mp = res_str (parse_path t) in
      if mp <> parsed then mismatch id (Printf.sprintf "ParseGNMIElements(SplitPath %S) model=%s impl=%s" (show_str t) mp parsed);
      if starts_with parsed "ok" then stat "parse.ok" else stat ("parse." ^ parsed);
      (* splitting loses nothing: the tokens joined by '/' are the text without its leading '/' and without one trailing '/' *)
      let s = str_of t in
      let s = if s <> "" && s.[0] = '/' then String.sub s 1 (String.length s - 1) else s in
      let j = String.concat "/" (List.map str_of (unhex_list tokens)) in
      if not (j = s || j ^ "/" = s) then
        specviol id "c16_split_loses_text" (Printf.sprintf "SplitPath %S = %s" (String.escaped (str_of t)) tokens)
    | [ "path.parent"; id; text; parent ] ->
      stat "path.parent";
      let t = unhex text in
      seen_distinct ("q" ^ text);
      let m = get_parent t in
      if hex_of m <> parent then mismatch id (Printf.sprintf "GetParentPath %S model=%S impl=%S" (show_str t) (show_str m) (show_str (unhex parent)))
    | [ "path.idx"; id; text; r ] ->
      stat "path.idx";
      seen_distinct ("i" ^ text);
      let m = index_allowed (unhex text) in
      if m then stat "idx.accepted" else stat "idx.refused";
      if m <> (r = "1") then mismatch id (Printf.sprintf "CheckPathIndexIsValid %S model=%b impl=%s" (show_str (unhex text)) m r)
    | [ "path.valid"; id; text; r ] ->
      stat "path.valid";
      seen_distinct ("v" ^ text);
      let m = is_path_valid (unhex text) in
      if m then stat "valid.accepted" else stat "valid.refused";
      if m <> (r = "1") then mismatch id (Printf.sprintf "IsPathValid %S model=%b impl=%s" (show_str (unhex text)) m r)
    | [ "path.chg"; id; text; del; parsed ] ->
      stat "path.chg";
      seen_distinct ("c" ^ del ^ text);
      let mp = res_str (parse_path (unhex text)) in
      if mp <> parsed then mismatch id (Printf.sprintf "PathValuesToGnmiChange path %S (delete=%s) model=%s impl=%s" (show_str (unhex text)) del mp parsed)
    | [ "path.cu"; id; text; result ] ->
      stat "path.cu";
      let t = unhex text in
      seen_distinct ("u" ^ text);
      (* Get's filter for the root query: ^(?:$|[/\[]) *)
      let matches = match t with [] -> true | c :: _ -> int_of_n c = 47 || int_of_n c = 91 in
      let m = create_update_path t in
      let exp = if not matches then "nomatch" else (match m with ROk p -> "ok:" ^ enc_gpath p | RErr _ -> "err" | RPanic -> "panic" | RFuel -> "fuel") in
      let got = if starts_with result "err:" then "err" else result in
      if starts_with result "ok" then stat "cu.ok" else stat ("cu." ^ result);
      if starts_with result "unexpected:" then specviol id "c16_unexpected_answer" (Printf.sprintf "stored path %S: %s" (show_str t) result);
      if exp <> got then mismatch id (Printf.sprintf "Get PROTO of stored path %S model=%s impl=%s" (show_str t) exp result);
      (* both re-parsers agree on what the Set handler accepts *)
      (match parse_path t with
       | ROk p when accepted_gpath p && hex_of (str_path_elem p) = text ->
         stat "cu.accepted_text";
         if result <> "ok:" ^ enc_gpath p then
           specviol id "c16_get_proto_path_differs" (Printf.sprintf "stored %S is reported by Get PROTO as %s" (show_str t) result)
       | _ -> ())
    | [ "path.e2e"; id; kind; prefix; paths; dels; code; resp; stored; get; sb ] ->
      stat "path.e2e";
      stat ("e2e." ^ kind ^ "." ^ code);
      let pre = dec_gpath prefix in
      let ups = dec_paths paths and ds = dec_paths dels in
      seen_distinct ("e" ^ prefix ^ "|" ^ paths ^ "|" ^ dels);
      let rel p = (* the path as the client sent it, relative to the prefix *)
        let rec drop n l = if n = 0 then l else match l with _ :: t -> drop (n - 1) t | [] -> [] in
        drop (List.length pre) p in
      let all_values = List.concat_map (fun p -> List.concat_map (fun e -> List.map snd e.e_keys) p) in
      let bad_update = List.exists (fun v -> not (index_allowed v)) (all_values ups) in
      let slash_update = List.exists has_slash (all_values ups) in
      let slash_delete = List.exists has_slash (all_values ds) in
      if code = "OK" then begin
        (* model of the acceptance gate for plain updates: every index value over IndexAllowedChars *)
        if bad_update then mismatch id (Printf.sprintf "Set accepted an update with an index value outside IndexAllowedChars: %s" paths);
        if slash_update then specviol id "c16_update_slash_key_accepted" (Printf.sprintf "Set accepted update paths %s" paths);
        if slash_delete then
          specviol id "c16_delete_slash_key_accepted"
            (Printf.sprintf "Set accepted the delete of %s: the stored text's GetParentPath is not its parent"
               (String.concat " " (List.map (fun p -> Printf.sprintf "%S" (show_gpath p)) ds)));
        (* model of the stored texts: StrPath(prefix) ++ StrPath(path) *)
        let mtexts = List.sort compare (List.map (fun p -> "u" ^ hex_of (set_path_text pre (rel p))) ups
                                        @ List.map (fun p -> "d" ^ hex_of (set_path_text pre (rel p))) ds) in
        let stexts = if stored = "." then [] else List.sort compare (String.split_on_char ',' stored) in
        if mtexts <> stexts then mismatch id (Printf.sprintf "stored texts model=%s impl=%s" (String.concat "," mtexts) stored);
        (* the property: the path the client named is the path reported back, read back and sent south *)
        let want = enc_paths ups ^ "!" ^ enc_paths ds in
        if resp <> want then specviol id "c16_setresponse_path_differs" (Printf.sprintf "client named %s, SetResponse reports %s" want resp);
        if get <> enc_paths ups then specviol id "c16_get_path_differs" (Printf.sprintf "client set %s, Get PROTO returns %s" (enc_paths ups) get);
        if sb <> want then specviol id "c16_southbound_path_differs" (Printf.sprintf "client named %s, the device request carries %s" want sb);
        (* and the model's re-parsers agree on every stored text *)
        List.iter (fun p ->
            let t = set_path_text pre (rel p) in
            if parse_path t <> ROk p then mismatch id (Printf.sprintf "model parse_path of stored %S is not the client's path" (show_str t));
            if not (List.exists has_slash (all_values [ p ])) && create_update_path t <> ROk p then
              mismatch id (Printf.sprintf "model create_update_path of stored %S is not the client's path" (show_str t))) (ups @ ds);
        sample (Printf.sprintf "Set %s prefix=%S updates=[%s] deletes=[%s] -> OK, Get PROTO and SetResponse agree" kind (show_gpath pre)
                  (String.concat " " (List.map show_gpath ups)) (String.concat " " (List.map show_gpath ds)))
      end else begin
        if kind = "clean" then mismatch id (Printf.sprintf "a Set over the accepted alphabet was refused with %s: %s" code paths);
        (* a path that was stored must have been reported back *)
        if stored <> "." then begin
          (* known shape: a delete whose key value is EMPTY is accepted and stored, then the SetResponse cannot be built
             from the stored text (parseKey: no key value); anything else is a new violation *)
          let empty_delete_key = List.exists (fun v -> v = []) (all_values ds) in
          let only_empty_is_odd = List.for_all (fun v -> v = [] || index_allowed v) (all_values ds) && not bad_update in
          specviol id (if empty_delete_key && only_empty_is_odd then "c16_delete_empty_key_stored_unreported" else "c16_stored_but_not_reported")
            (Printf.sprintf "Set answered %s although it stored %s (updates %s deletes %s)" code stored paths dels)
        end;
        if code = "PANIC" then mismatch id "Set panicked";
        if kind = "delete" && not bad_update then stat "e2e.delete.refused"
      end
    | _ -> stat "ignored")

(* C15 driver: replays the harness histories (real v2/v3 stores) on the extracted Store.v / Watch.v models,
   and evaluates the property - stated independently of the model - on the implementation's observations:
   per-record compare-and-set register, growing versions / indexes, refused writes change nothing,
   watchers are shown the latest state at quiescence, cancellation disturbs nobody. *)
open Model
open Mlib

let kind_of = function "tx2" -> TxV2 | "prop2" -> PropV2 | "cfg2" -> CfgV2 | "tx3" -> TxV3 | "cfg3" -> CfgV3 | s -> failwith ("kind " ^ s)
let is_cfg k = k = "cfg2" || k = "cfg3"
let is_tx k = k = "tx2" || k = "tx3"
let log_of kind key = if kind = "tx3" then (if key = "k0" || key = "k1" then bytes_of_string "ta" else bytes_of_string "tb") else []
let keys = [ "k0"; "k1"; "k2"; "k3"; "kw" ]
let keycode k = if k = "kw" then n_of_int 9 else n_of_int (int_of_string (String.sub k 1 (String.length k - 1)))
let code_str = function COk -> "ok" | CInvalid -> "invalid" | CNotFound -> "notfound" | CExists -> "exists" | CConflict -> "conflict"
let ios = int_of_string

(* path values: "p=val/idx/del+..." or "-" *)
let parse_vals s =
  if s = "-" then []
  else List.map (fun e -> match String.split_on_char '=' e with
      | [ p; r ] -> (match String.split_on_char '/' r with
          | [ v; i; d ] -> (p, (ios v, ios i, d = "1"))
          | _ -> failwith "pv")
      | _ -> failwith "pv") (String.split_on_char '+' s)
let model_vals l = List.map (fun (p, (v, i, d)) -> (bytes_of_string p, { pv_val = n_of_int v; pv_idx = n_of_int i; pv_del = d })) l
let show_vals l = String.concat "+" (List.map (fun (p, (v, i, d)) -> Printf.sprintf "%s=%d/%d/%b" p v i d) l)
let vals_of_model l = List.sort compare (List.map (fun (p, v) -> (str_of p, (int_of_n v.pv_val, int_of_n v.pv_idx, v.pv_del))) l)

(* dump: "key:ver:rev:idx:payload:vals;..." or "-" *)
type drec = { dk : string; dver : int; drev : int; didx : int; dpay : int; dvals : (string * (int * int * bool)) list; davals : (string * (int * int * bool)) list }
let parse_rec s = match String.split_on_char ':' s with
  | [ k; v; r; i; p; vs; avs ] -> { dk = k; dver = ios v; drev = ios r; didx = ios i; dpay = ios p; dvals = parse_vals vs; davals = parse_vals avs }
  | [ k; v; r; i; p ] -> { dk = k; dver = ios v; drev = ios r; didx = ios i; dpay = ios p; dvals = []; davals = [] }
  | _ -> failwith ("rec " ^ s)
let parse_dump s = if s = "-" || s = "." then [] else List.map parse_rec (String.split_on_char ';' s)

(* ---- per-history state *)
type wat = { wid : int; wreplay : bool; wkey : string option; wreg : int (* events published before Watch returned *);
             wstep : int; mutable wcancelled : bool; mutable wsince : string list }
type h = {
  mutable kind : string;
  mutable st : sstate;
  v2m : (string * int, int) Hashtbl.t; m2v : (string * int, int) Hashtbl.t;   (* implementation version <-> model version *)
  reg : (string, int * int) Hashtbl.t;                       (* monitor: record -> (version, payload) of the last accepted write *)
  maxver : (string, int) Hashtbl.t;
  idxs : (string, int) Hashtbl.t;                            (* log -> highest index handed out *)
  mutable prev : drec list;
  mutable events : (string * int) list;                      (* accepted writes, oldest first: (record, implementation version) *)
  mutable snaps : (int * (string * int) list) list;          (* (number of events so far, record -> version) after every step, newest first *)
  mutable ws : wat list;
  mutable nstep : int;
}
let cur = { kind = ""; st = init; v2m = Hashtbl.create 64; m2v = Hashtbl.create 64; reg = Hashtbl.create 8; maxver = Hashtbl.create 8; idxs = Hashtbl.create 4;
            prev = []; events = []; snaps = []; ws = []; nstep = 0 }
let reset kind =
  cur.kind <- kind; cur.st <- init; Hashtbl.reset cur.v2m; Hashtbl.reset cur.m2v; Hashtbl.reset cur.reg; Hashtbl.reset cur.maxver;
  Hashtbl.reset cur.idxs; cur.prev <- []; cur.events <- []; cur.snaps <- [ (0, []) ]; cur.ws <- []; cur.nstep <- 0

(* versions are comparable per record only (the test cluster numbers them per partition) *)
let to_model k v = if v = 0 then 0 else try Hashtbl.find cur.v2m (k, v) with Not_found -> 900000 + (v mod 1000)
let bind id k iv mv =
  if iv = 0 || mv = 0 then (if iv <> mv then mismatch id (Printf.sprintf "version: impl %d model %d" iv mv))
  else begin
    (match Hashtbl.find_opt cur.v2m (k, iv) with
     | Some m when m <> mv -> mismatch id (Printf.sprintf "implementation version %d stands for model version %d and %d" iv m mv)
     | Some _ -> ()
     | None ->
       (match Hashtbl.find_opt cur.m2v (k, mv) with
        | Some i when i <> iv -> mismatch id (Printf.sprintf "model version %d stands for implementation versions %d and %d" mv i iv)
        | _ -> ());
       Hashtbl.replace cur.v2m (k, iv) mv; Hashtbl.replace cur.m2v (k, mv) iv)
  end
let same_version id k what iv mv = if to_model k iv <> mv then mismatch id (Printf.sprintf "%s: impl version %d (model %d) vs model %d" what iv (to_model k iv) mv)

let model_dump () =
  List.filter_map (fun k -> match get (kind_of cur.kind) (log_of cur.kind k) (bytes_of_string k) cur.st with
      | None -> None
      | Some o -> Some (k, int_of_n o.o_version, int_of_n o.o_revision, int_of_n o.o_index, int_of_n o.o_payload,
                        (match o.o_vals with Some l -> vals_of_model l | None -> []), (match o.o_avals with Some l -> vals_of_model l | None -> []))) keys

let compare_dump id dump =
  let md = model_dump () in
  if List.length md <> List.length dump then mismatch id (Printf.sprintf "store contents: model has %d records, implementation %d" (List.length md) (List.length dump))
  else List.iter2 (fun (k, v, r, i, p, vs, avs) d ->
      if avs <> List.sort compare d.davals then mismatch id (Printf.sprintf "record %s: applied values: model %s, implementation %s" k (show_vals avs) (show_vals (List.sort compare d.davals)));
      if k <> d.dk || r <> d.drev || p <> d.dpay || (is_tx cur.kind && i <> d.didx) || vs <> List.sort compare d.dvals then
        mismatch id (Printf.sprintf "record %s: model rev=%d idx=%d payload=%d vals=%s, implementation %s rev=%d idx=%d payload=%d vals=%s" k r i p (show_vals vs) d.dk d.drev d.didx d.dpay (show_vals (List.sort compare d.dvals)));
      same_version id k ("record " ^ k) d.dver v) md dump

let only_vals_differ a b =
  List.length a = List.length b && List.for_all2 (fun x y -> x.dk = y.dk && x.dver = y.dver && x.drev = y.drev && x.didx = y.didx && x.dpay = y.dpay) a b

(* ---- the watch part: is the stream one that Watch.v can produce? *)
let ev_of ord k = { ev_key = keycode k; ev_ver = n_of_int ord }
let in_scope = ref (fun (_ : string) -> true)
let model_stream w p ts_events =
  (* one-watcher world: p events are consumed by the loop before Watch, the replay snapshot is taken when ts_events writes exist *)
  let n = List.length cur.events in
  let writes a b = List.filteri (fun i _ -> i >= a && i < b) cur.events |> List.map (fun (k, _) -> SWrite (keycode k)) in
  (* the stream is validated per ORDERED SOURCE (see check_watcher): writes outside the source in scope are left out of the
     model run, which renumbers the versions *)
  let writes a b = if true then List.filter (function SWrite k -> !in_scope (if int_of_n k = 9 then "kw" else "k" ^ string_of_int (int_of_n k)) | _ -> true) (writes a b) else writes a b in
  let takes c = List.init c (fun _ -> STake) in
  let filt = match w.wkey with Some k -> Some (keycode k) | None -> None in
  let ls = writes 0 w.wreg @ takes p @ [ SOpen (n_of_int 1, filt, w.wreplay) ] @ writes w.wreg ts_events @ [ SSnap (n_of_int 1) ] @ writes ts_events n in
  let g = settle true (4 * n + 20 |> fun x -> let rec nat i = if i = 0 then O else S (nat (i - 1)) in nat (min x 400)) (wrun true false w0 ls) in
  match g.g_ws with
  | [ mw ] -> Some (List.map (fun e -> (int_of_n e.ev_key, int_of_n e.ev_ver)) mw.w_delivered, quiescent g, watch_ok g)
  | _ -> None

let check_watcher id w evs dump =
  (* the property, directly on the observation *)
  let closed = List.mem "X" evs in
  let evs = List.filter (fun e -> e <> "X" && e <> ".") evs |> List.map (fun e -> match String.split_on_char '.' e with
      | [ t; k; v ] -> (t, k, ios v) | _ -> failwith ("event " ^ e)) in
  if w.wcancelled then begin
    stat "watch.cancelled";
    if (not closed) && cur.kind <> "prop2" then specviol id "c15_cancelled_watch_never_closed" (Printf.sprintf "watcher %d" w.wid)
  end else begin
    stat "watch.checked";
    if closed then specviol id "c15_watch_closed_without_cancel" (Printf.sprintf "watcher %d" w.wid);
    List.iter (fun d ->
        let mine = (match w.wkey with Some k -> k = d.dk | None -> true) in
        if mine && (w.wreplay || List.mem d.dk w.wsince) then begin
          let last = List.fold_left (fun acc (_, k, v) -> if k = d.dk then Some v else acc) None evs in
          if last <> Some d.dver then
            specviol id "c15_watch_missed_latest" (Printf.sprintf "%s watcher %d (replay=%b, id=%s): record %s is at version %d, last shown %s" cur.kind w.wid w.wreplay
                                                     (match w.wkey with Some k -> k | None -> "*") d.dk d.dver (match last with Some v -> string_of_int v | None -> "never"))
        end) dump;
    List.iter (fun (_, k, _) -> match w.wkey with Some x when x <> k -> specviol id "c15_watch_foreign_record" (Printf.sprintf "watcher %d for %s was shown %s" w.wid x k) | _ -> ()) evs;
    (* correspondence with Watch.v: some admissible schedule (events still queued at Watch time, time of the replay snapshot) explains the stream *)
    (* Which events reach a watcher in a fixed relative order?  Those of one Atomix event stream of one partition:
       - v2 transactions: one indexed map = one partition: the whole stream is ordered;
       - v3 transactions: one indexed map (and one event loop) per target: ordered per target log;
       - proposals, v2/v3 configurations: a plain Atomix map is spread over the partitions of the cluster and its Events
         stream is the merge of one stream per partition (rsm client map/v1 Events: one goroutine per partition): only the
         events of ONE record (one key = one partition) keep their order; records of different partitions interleave freely.
       Watch.v's single totally ordered event stream is therefore validated on the projection onto each ordered source.
       What holds across sources and is checked on the whole stream: the replayed events precede every live event. *)
    let logs = (match cur.kind with
        | "tx2" -> [ (fun _ -> true) ]
        | "tx3" -> [ (fun k -> k = "k0" || k = "k1"); (fun k -> not (k = "k0" || k = "k1")) ]
        | _ -> List.map (fun key -> (fun k -> k = key)) keys) in
    let logs = (match w.wkey with Some key -> List.filter (fun sc -> sc key) logs | None -> logs) in
    (let rec live_seen seen = function
        | [] -> ()
        | ("R", k, _) :: r -> if seen then mismatch id (Printf.sprintf "%s watcher %d: replayed event for %s after a live event" cur.kind w.wid k); live_seen seen r
        | _ :: r -> live_seen true r in live_seen false evs);
    let found = ref true in
    let ord k v = let rec f i = function [] -> -1 | (k', x) :: r -> if not (!in_scope k') then f i r else if x = v && k' = k then i else f (i + 1) r in f 1 cur.events in
    List.iter (fun scope ->
        in_scope := scope;
        let evs = List.filter (fun (_, k, _) -> scope k) evs in
        let nrep = let rec c = function ("R", _, _) :: r -> 1 + c r | _ -> 0 in c evs in
        let norm l = let rec split i = function x :: r when i > 0 -> let (a, b) = split (i - 1) r in (x :: a, b) | r -> ([], r) in
          let (a, b) = split nrep l in List.sort compare a @ b in
        let impl = norm (List.map (fun (_, k, v) -> (int_of_n (keycode k), ord k v)) evs) in
        let n = List.length cur.events in
        let ok = ref false in
        let base = List.length (List.filteri (fun i (k, _) -> i < w.wreg && scope k) cur.events) in
        let p = ref base in
        while (not !ok) && !p >= max 0 (base - 4) do
          let ts = ref w.wreg in
          while (not !ok) && !ts <= n do
            (match model_stream w !p !ts with
             | Some (m, q, good) -> if norm m = impl then begin ok := true; if not (q && good) then mismatch id "Watch.v: matching schedule is not quiescent / not ok" end
             | None -> ());
            if w.wreplay then incr ts else ts := n + 1
          done;
          decr p
        done;
        if not !ok then found := false) logs;
    in_scope := (fun _ -> true);
    let ord k v = let rec f i = function [] -> -1 | (k', x) :: r -> if x = v && k' = k then i else f (i + 1) r in f 1 cur.events in
    if not !found then mismatch id (Printf.sprintf "%s watcher %d (replay=%b): no schedule of Watch.v yields the observed stream [%s]" cur.kind w.wid w.wreplay
                                      (String.concat "," (List.map (fun (t, k, v) -> Printf.sprintf "%s.%s.#%d" t k (ord k v)) evs)))
  end

let () =
  each_line (function
    | [ "c15.stall"; step; secs ] ->
      (* the harness's watchdog: a call of the store under test did not return (cancel_isolated / no_dead_listener: cancelling
         a watch, a slow watcher or a departed one never blocks the store or the other watchers) *)
      specviol step "c15_store_call_blocked" (Printf.sprintf "no step finished for %s s: the store call of step [%s] never returned (the run was cut there)" secs step)
    | [ "c15.begin"; _; kind ] -> stat "histories"; stat ("hist." ^ kind); reset kind
    | [ "c15.op"; id; kind; op; _client; key; flags; inver; inrev; inidx; payload; vals; code; outver; outrev; outidx; result; dump ] ->
      stat ("op." ^ op); stat ("code." ^ code); stat ("kind." ^ kind);
      cur.nstep <- cur.nstep + 1;
      let inver = ios inver and inrev = ios inrev and outver = ios outver and outrev = ios outrev and outidx = ios outidx and payload = ios payload in
      let dump = parse_dump dump in
      seen_distinct (String.concat "|" [ kind; op; key; flags; code; string_of_int (List.length dump); (if vals = "-" then "n" else "v") ]);
      (match op with
       | "get" ->
         (match get (kind_of kind) (log_of kind key) (bytes_of_string key) cur.st, code with
          | None, "notfound" -> ()
          | Some o, "ok" ->
            let d = parse_rec result in
            if int_of_n o.o_revision <> d.drev || int_of_n o.o_payload <> d.dpay || (is_tx kind && int_of_n o.o_index <> d.didx)
               || (is_cfg kind && (match o.o_vals with Some l -> vals_of_model l | None -> []) <> List.sort compare d.dvals)
               || (is_cfg kind && (match o.o_avals with Some l -> vals_of_model l | None -> []) <> List.sort compare d.davals) then
              mismatch id (Printf.sprintf "Get %s: model rev=%d payload=%d, implementation rev=%d payload=%d" key (int_of_n o.o_revision) (int_of_n o.o_payload) d.drev d.dpay);
            same_version id key ("Get " ^ key) d.dver (int_of_n o.o_version);
            (match Hashtbl.find_opt cur.reg key with
             | Some (v, p) -> if v <> d.dver || p <> d.dpay then specviol id "c15_lost_update" (Printf.sprintf "%s Get %s returns version %d payload %d, last accepted write was version %d payload %d" kind key d.dver d.dpay v p)
             | None -> specviol id "c15_get_of_unwritten_record" key)
          | m, c -> mismatch id (Printf.sprintf "Get %s: model %s, implementation %s" key (if m = None then "notfound" else "ok") c))
       | "list" ->
         let impl = List.sort compare (List.map (fun d -> (d.dk, to_model d.dk d.dver, d.drev, (if is_tx kind then d.didx else 0), d.dpay)) (parse_dump result)) in
         let ml log = List.sort compare (List.map (fun o -> (str_of o.o_key, int_of_n o.o_version, int_of_n o.o_revision, (if is_tx kind then int_of_n o.o_index else 0), int_of_n o.o_payload))
                                          (list_log (kind_of kind) log cur.st)) in
         let cands = if kind = "tx3" then [ ml (bytes_of_string "ta"); ml (bytes_of_string "tb"); [] ] else [ ml [] ] in
         if code <> "ok" || not (List.mem impl cands) then mismatch id (Printf.sprintf "List: %s, %d records, not what the model lists" code (List.length impl))
       | _ ->
         let mop = (match op with "create" -> OCreate | "update" -> OUpdate | _ -> OStatus) in
         let pvals = if vals = "-" then [] else parse_vals vals in
         let mk last = { o_key = bytes_of_string key; o_log = log_of kind key; o_idok = flags.[0] = '1'; o_tgtok = flags.[1] = '1'; o_txok = flags.[2] = '1';
                   o_version = n_of_int (to_model key inver); o_revision = n_of_int inrev; o_index = n_of_int (ios inidx); o_payload = n_of_int payload;
                   o_vals = (if vals = "-" then None else Some (model_vals pvals)); o_avals = None; o_last = bytes_of_string last } in
         (* v3 configurations: which path Go's map iteration visited last is read off the observation and must be one of the paths written *)
         let fits last =
           let (((st2, _), _), _) = step (kind_of kind) mop (mk last) cur.st in
           (match get (kind_of kind) (log_of kind key) (bytes_of_string key) st2, List.find_opt (fun d -> d.dk = key) dump with
            | Some { o_vals = Some l; o_avals = Some la }, Some d -> vals_of_model l = List.sort compare d.dvals && vals_of_model la = List.sort compare d.davals
            | _ -> true) in
         let last = if kind = "cfg3" && List.length pvals > 1 then (stat "cfg3.multi-path"; match List.find_opt fits (List.map fst pvals @ [ "" ]) with Some p -> (if p = "" then stat "cfg3.multi-path.unaliased"); p | None -> fst (List.hd pvals)) else "" in
         let o = mk last in
         let (((st', mc), o'), published) = step (kind_of kind) mop o cur.st in
         cur.st <- st';
         if code_str mc <> code then mismatch id (Printf.sprintf "%s %s %s (read version %d): model %s, implementation %s" kind op key inver (code_str mc) code)
         else begin
           if int_of_n o'.o_revision <> outrev then mismatch id (Printf.sprintf "%s %s: caller's revision afterwards: model %d, implementation %d" op key (int_of_n o'.o_revision) outrev);
           if is_tx kind && int_of_n o'.o_index <> outidx then mismatch id (Printf.sprintf "%s %s: index model %d, implementation %d" op key (int_of_n o'.o_index) outidx);
           if code = "ok" then bind id key outver (int_of_n o'.o_version) else same_version id key (op ^ " refused") outver (int_of_n o'.o_version)
         end;
         (* ---- the property on the implementation's answers: compare-and-set register per record *)
         let r = Hashtbl.find_opt cur.reg key in
         (match code, op with
          | "ok", "create" ->
            if r <> None then specviol id "c15_create_overwrote_record" (Printf.sprintf "%s %s" kind key)
          | "ok", _ ->
            (match r with
             | Some (v, _) when v = inver -> ()
             | Some (v, _) -> specviol id "c15_cas_stale_write_accepted" (Printf.sprintf "%s %s %s read version %d but the record was at version %d: an update is lost" kind op key inver v)
             | None -> specviol id "c15_cas_write_to_missing_record" (Printf.sprintf "%s %s %s" kind op key))
          | "conflict", _ -> (match r with Some (v, _) when v = inver -> specviol id "c15_cas_spurious_conflict" (Printf.sprintf "%s %s %s at the current version %d" kind op key v) | _ -> ())
          | "notfound", _ -> if r <> None then specviol id "c15_cas_spurious_notfound" key
          | "exists", _ -> if r = None then specviol id "c15_cas_spurious_exists" key
          | _ -> ());
         if code = "ok" then begin
           let mx = (try Hashtbl.find cur.maxver key with Not_found -> 0) in
           if outver <= mx then specviol id "c15_version_not_growing" (Printf.sprintf "%s %s %s obtained version %d, not above %d" kind op key outver mx);
           Hashtbl.replace cur.maxver key (max mx outver);
           Hashtbl.replace cur.reg key (outver, payload);
           if published then cur.events <- cur.events @ [ (key, outver) ];
           List.iter (fun w -> w.wsince <- key :: w.wsince) cur.ws;
           if is_tx kind && op = "create" then begin
             let lg = str_of (log_of kind key) in
             let last = try Hashtbl.find cur.idxs lg with Not_found -> 0 in
             if outidx <= last then specviol id "c15_index_reused" (Printf.sprintf "%s create %s got index %d, log already handed out %d" kind key outidx last);
             Hashtbl.replace cur.idxs lg (max last outidx)
           end
         end else if dump <> cur.prev then begin
           (* a refused write must change nothing *)
           if is_cfg kind && vals <> "-" && only_vals_differ dump cur.prev then
             specviol id (if op = "create" then "c15_f08_refused_create_rewrites_values" else "c15_f08_refused_update_rewrites_values")
               (Printf.sprintf "%s %s %s refused (%s) but the path values of the record changed" kind op key code)
           else specviol id "c15_refused_write_changed_state" (Printf.sprintf "%s %s %s refused (%s)" kind op key code)
         end);
      (* path values of an accepted configuration write: every path whose Index differs from the stored one now carries the value written *)
      if is_cfg kind && vals <> "-" && (op = "create" || op = "update" || op = "status") then begin
        let pvals = parse_vals vals in
        match List.find_opt (fun d -> d.dk = key) dump with
        | Some d ->
          let pick x = if op = "status" then x.davals else x.dvals in
          let before = (match List.find_opt (fun p -> p.dk = key) cur.prev with Some p -> pick p | None -> []) in
          if code <> "invalid" && List.exists (fun p -> p.dk = key) cur.prev then
            List.iter (fun (p, (v, i, dl)) ->
                let written = (match List.assoc_opt p before with Some (_, i0, _) -> i0 <> i | None -> true) in
                if written then
                  (match List.assoc_opt p (pick d) with
                   | Some x when x = (v, i, dl) -> ()
                   | Some x when kind = "cfg3" && List.exists (fun (_, y) -> y = x) pvals ->
                     specviol id "c15_v3cfg_multi_path_write_aliases_values" (Printf.sprintf "cfg3 %s %s wrote %s but path %s now holds another path's value %d/%d" op key vals p (let (a, _, _) = x in a) (let (_, b, _) = x in b))
                   | _ -> specviol id "c15_values_not_stored" (Printf.sprintf "%s %s %s wrote %s, path %s not stored as written" kind op key vals p))) pvals
        | None -> ()
      end;
      (* every step: contents equal the model's; versions and indexes of the records only grow; the register's value is what Get shows *)
      compare_dump id dump;
      List.iter (fun d ->
          (match List.find_opt (fun p -> p.dk = d.dk) cur.prev with
           | Some p -> if d.dver < p.dver then specviol id "c15_version_not_growing" (Printf.sprintf "%s record %s went from version %d to %d" kind d.dk p.dver d.dver);
             if is_tx kind && d.didx <> p.didx then specviol id "c15_index_changed" (Printf.sprintf "%s record %s index %d -> %d" kind d.dk p.didx d.didx)
           | None -> ());
          (match Hashtbl.find_opt cur.reg d.dk with
           | Some (v, p) -> if v <> d.dver || p <> d.dpay then specviol id "c15_lost_update" (Printf.sprintf "%s record %s is at version %d payload %d, last accepted write was version %d payload %d" kind d.dk d.dver d.dpay v p)
           | None -> specviol id "c15_record_from_nowhere" d.dk)) dump;
      List.iter (fun p -> if not (List.exists (fun d -> d.dk = p.dk) dump) then specviol id "c15_record_vanished" p.dk) cur.prev;
      cur.prev <- dump;
      cur.snaps <- (List.length cur.events, List.map (fun d -> (d.dk, d.dver)) dump) :: cur.snaps
    | [ "c15.watch"; _; _; w; replay; idkey ] ->
      stat "watch.open"; stat (if replay = "1" then "watch.replay" else "watch.live"); stat (if idkey = "-" then "watch.all" else "watch.one");
      cur.ws <- cur.ws @ [ { wid = ios w; wreplay = replay = "1"; wkey = (if idkey = "-" then None else Some idkey); wreg = List.length cur.events; wstep = cur.nstep;
                             wcancelled = false; wsince = [] } ]
    | [ "c15.cancel"; _; _; w ] -> stat "watch.cancel"; List.iter (fun x -> if x.wid = ios w then x.wcancelled <- true) cur.ws
    | [ "c15.watcherr"; id; kind; c ] -> mismatch id (kind ^ " Watch failed: " ^ c)
    | [ "c15.drain"; id; kind; wss; dump ] ->
      stat "drain";
      let dump = parse_dump dump in
      if dump <> cur.prev then specviol id "c15_watch_or_cancel_changed_store" kind;
      if wss <> "." then
        List.iter (fun s -> match String.split_on_char '=' s with
            | [ w; evs ] -> (match List.find_opt (fun x -> x.wid = ios w) cur.ws with
                | Some x -> check_watcher id x (String.split_on_char ',' evs) dump
                | None -> mismatch id ("unknown watcher " ^ w))
            | _ -> failwith "drain") (String.split_on_char '|' wss)
    | [ "c15.probe"; id; kind; name; res ] ->
      stat ("probe." ^ name ^ "." ^ res); seen_distinct ("probe" ^ kind ^ name);
      (match name, res with
       | _, "served" -> ()
       | "cancel-in-replay", "blocked" -> specviol id "c15_f10_cancel_in_replay_blocks_event_loop" (Printf.sprintf "%s store: a watch cancelled while replaying returned without draining; the event loop is blocked and an innocent watcher is starved" kind)
       | "write-during-replay", r -> specviol id "c15_watch_missed_latest" (Printf.sprintf "%s store, forced schedule (update while the replay is parked / right after Watch returned): %s" kind r)
       | _, "panic-close-of-closed-channel" when kind = "tx3" -> specviol id "c15_v3tx_cancel_closes_channel_twice" "v3 transaction store: cancelling a watch panics (close of closed channel) and takes the process down"
       | _, _ -> specviol id "c15_cancel_disturbs_others" (Printf.sprintf "%s %s: %s" kind name res))
    | [ "c15.stress"; id; kind; log; final; wss ] ->
      stat "stress";
      (* no schedule: compare-and-set on the successes, latest state at every watcher *)
      let ops = List.map (fun s -> match String.split_on_char '.' s with
          | [ k; rd; nv; c; p ] -> (k, ios rd, ios nv, c, ios p) | _ -> failwith "stress op") (if log = "" then [] else String.split_on_char ',' log) in
      let wins = Hashtbl.create 64 in
      List.iter (fun (k, rd, nv, c, _) ->
          statn ("stress." ^ c) 1;
          if c = "ok" then begin
            if Hashtbl.mem wins (k, rd) then specviol id "c15_cas_two_winners" (Printf.sprintf "%s: two updates of %s that read version %d both succeeded" kind k rd);
            Hashtbl.replace wins (k, rd) nv;
            if nv <= rd then specviol id "c15_version_not_growing" (Printf.sprintf "%s %s %d -> %d" kind k rd nv)
          end else if c <> "conflict" then specviol id "c15_stress_unexpected_error" c) ops;
      let finals = List.map (fun s -> match String.split_on_char '.' s with [ k; v; p ] -> (k, ios v, ios p) | _ -> failwith "final") (String.split_on_char ',' final) in
      List.iter (fun (k, v, p) ->
          (* the final state is the last link of the chain of successes *)
          let okw = List.filter (fun (k', _, _, c, _) -> k' = k && c = "ok") ops in
          if okw <> [] then begin
            let newest = List.fold_left (fun (bv, bp) (_, _, nv, _, p) -> if nv > bv then (nv, p) else (bv, bp)) (0, 0) okw in
            if newest <> (v, p) then specviol id "c15_lost_update" (Printf.sprintf "%s %s ends at version %d payload %d, newest accepted write is version %d payload %d" kind k v p (fst newest) (snd newest))
          end) finals;
      List.iter (fun s -> match String.split_on_char '=' s with
          | [ hd; evs ] ->
            let idk = (match String.split_on_char ':' hd with [ _; "-" ] -> None | [ _; k ] -> Some k | _ -> None) in
            let evs = if evs = "" then [] else List.map (fun e -> match String.split_on_char '.' e with [ _; k; v ] -> (k, ios v) | _ -> failwith "sev") (String.split_on_char ',' evs) in
            List.iter (fun (k, v, _) ->
                if idk = None || idk = Some k then begin
                  let last = List.fold_left (fun acc (k', v') -> if k' = k then Some v' else acc) None evs in
                  if last <> Some v then specviol id "c15_watch_missed_latest" (Printf.sprintf "%s stress: record %s ends at version %d, watcher (%s) last saw %s" kind k v hd (match last with Some x -> string_of_int x | None -> "nothing"))
                end) finals
          | _ -> ()) (String.split_on_char '|' wss)
    | _ -> stat "ignored")

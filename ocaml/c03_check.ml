(* C03 driver.
   - replays AddDeleteChildren / PrunePathValues / MatchWildcardRegexp / configuration-store writes / the proposal
     reconciler's commit step on the extracted model (Model/Merge.v, CfgStore.v, Wildcard.v); Go map iteration
     order is not observable, so order-dependent results are checked for membership in the model's outcome set
   - THE PROPERTY MONITOR: after every acknowledged Set of an end-to-end history the answers of the real Get are
     compared with the reference semantics Spec/Gnmi.v (extracted, run on paths parsed here into steps - it shares
     nothing with the merge model) *)
open Model
open Mlib

(* ------------------------------------------------------------------ decoding *)
let split c s = if s = "." then [] else String.split_on_char c s

let pv_of_item it =
  match String.split_on_char ':' it with
  | [ p; v; d; i ] -> let p = unhex p in (p, { pv_path = p; pv_val = unhex v; pv_deleted = (d = "1"); pv_index = n_of_int (int_of_string i) })
  | [ p; v; d; i; k ] -> (unhex k, { pv_path = unhex p; pv_val = unhex v; pv_deleted = (d = "1"); pv_index = n_of_int (int_of_string i) })
  | _ -> failwith ("bad pv item " ^ it)

let cfgmap_of s : cfgmap = List.map pv_of_item (split ',' s)

let canon_pv (k, pv) =
  Printf.sprintf "%s|%s|%s|%b|%d" (str_of k) (str_of pv.pv_path) (str_of pv.pv_val) pv.pv_deleted (int_of_n pv.pv_index)
let canon (m : cfgmap) = String.concat "\n" (List.sort compare (List.map canon_pv m))
let canon_list (l : path_value list) = String.concat "\n" (List.map (fun pv -> canon_pv (pv.pv_path, pv)) l)
let show s = String.concat " ; " (String.split_on_char '\n' s)

(* all permutations, lazily, with a cap *)
let rec insert_all x = function [] -> [ [ x ] ] | y :: l as yl -> (x :: yl) :: List.map (fun r -> y :: r) (insert_all x l)
let rec perms = function [] -> [ [] ] | x :: l -> List.concat_map (insert_all x) (perms l)
let perms_capped cap l = if List.length l <= cap then perms l else [ l; List.rev l ]

exception Found

(* ------------------------------------------------------------------ paths as steps (independent parser) *)
let parse_steps (t : string) : step list =
  (* canonical text over the restricted alphabet: /name[k=v][k=v]/name... *)
  let res = ref [] in
  List.iter (fun part ->
      if part <> "" then begin
        match String.index_opt part '[' with
        | None -> res := SName (bytes_of_string part) :: !res
        | Some i ->
          res := SName (bytes_of_string (String.sub part 0 i)) :: !res;
          let ks = String.sub part (i + 1) (String.length part - i - 2) in
          List.iter (fun kv ->
              match String.index_opt kv '=' with
              | Some j -> res := SKey (bytes_of_string (String.sub kv 0 j), bytes_of_string (String.sub kv (j + 1) (String.length kv - j - 1))) :: !res
              | None -> failwith ("bad key " ^ kv)) (Str.split (Str.regexp_string "][") ks)
      end) (String.split_on_char '/' t);
  List.rev !res

let render_steps (p : step list) =
  String.concat "" (List.map (function SName n -> "/" ^ str_of n | SKey (k, v) -> "[" ^ str_of k ^ "=" ^ str_of v ^ "]") p)

let parse_query (t : string) : qstep list =
  List.map (function
      | SName n when str_of n = "*" -> QAnyName
      | SName n when str_of n = "..." -> QDeep
      | SName n -> QName n
      | SKey (k, v) when str_of v = "*" -> QAnyKey k
      | SKey (k, v) -> QKey (k, v)) (parse_steps t)

(* a key leaf: the last step is a name equal to one of the key names of the element that contains it *)
let is_key_leaf (p : step list) =
  match List.rev p with
  | SName n :: rest ->
    let rec keys = function SKey (k, _) :: r -> k :: keys r | _ -> [] in
    List.mem n (keys rest)
  | _ -> false

let rec is_sprefix d p = match d, p with [], _ -> true | x :: d', y :: p' -> x = y && is_sprefix d' p' | _ -> false

(* ------------------------------------------------------------------ per-history state *)
type hist = {
  mutable spec : (step list * str) list;                 (* Spec/Gnmi.v configuration *)
  mutable raw : cfg_state;                               (* last dump of the stored state *)
  mutable sets : (step list list * step list list) list; (* acknowledged Sets so far, latest first: (deletes, updated paths) *)
}
let hists : (string, hist) Hashtbl.t = Hashtbl.create 64
let pending : (string, cfgmap * n) Hashtbl.t = Hashtbl.create 16
let hist_of h = match Hashtbl.find_opt hists h with Some x -> x | None -> let x = { spec = []; raw = { cs_map = []; cs_amap = []; cs_ev = []; cs_ea = [] }; sets = [] } in Hashtbl.replace hists h x; x

(* shape of a leaf that the implementation got wrong, relative to the history: narrow signatures *)
let classify (hs : hist) (p : step list) =
  (* the latest Set that updated p *)
  let rec go = function
    | [] -> "none"
    | (dels, upds) :: earlier ->
      if List.mem p upds then
        if List.exists (fun d -> is_sprefix d p) dels then "overlap"
        else if List.exists (fun (dels', _) -> List.exists (fun d -> d <> p && is_sprefix d p) dels') earlier then "recreate"
        else "plain"
      else go earlier
  in
  go hs.sets

let canon_state (s : cfg_state) = canon s.cs_map ^ "\n-- applied map:\n" ^ canon s.cs_amap ^ "\n-- inline values:\n" ^ canon s.cs_ev ^ "\n-- inline applied:\n" ^ canon s.cs_ea
let state_of m a ev ea = { cs_map = cfgmap_of m; cs_amap = cfgmap_of a; cs_ev = cfgmap_of ev; cs_ea = cfgmap_of ea }

(* deterministic shuffles for large maps *)
let shuffles k l =
  let st = Random.State.make [| 42; List.length l |] in
  List.init k (fun _ -> List.map snd (List.sort compare (List.map (fun x -> (Random.State.bits st, x)) l)))
let orders cap l = if List.length l <= cap then perms l else l :: List.rev l :: shuffles 400 l

let outcomes_commit (pre : cfg_state) (idx : n) (ch : cfgmap) (want : string) =
  (* is `want` among the results of commit + store over the iteration orders of the change map and of the updated map *)
  let found = ref false and first = ref "" and n = ref 0 in
  let v = view_values pre in
  (try
     List.iter (fun chp ->
         let upd, st = add_delete_children idx chp v in
         List.iter (fun updp ->
             incr n;
             let post = canon_state (cfg_update pre (apply_all st updp)) in
             if !first = "" then first := post;
             if post = want then (found := true; raise Found)) (orders 6 upd)) (perms_capped 4 ch)
   with Found -> ());
  statn "commit.orders_tried" !n;
  (!found, !first)

let has_wild t = let n = String.length t in let r = ref false in String.iteri (fun i c -> if c = '*' || (c = '.' && i + 2 < n && t.[i+1] = '.' && t.[i+2] = '.') then r := true) t; !r
let item_strings s = List.sort compare (List.map (fun h -> str_of (unhex h)) (split ',' s))

let () =
  each_line (function
    | [ "c03.adc"; id; index; ch; st; upd; st' ] ->
      stat "adc";
      let idx = n_of_int (int_of_string index) and chm = cfgmap_of ch and stm = cfgmap_of st in
      let want = canon (cfgmap_of upd) ^ "\n--\n" ^ canon (cfgmap_of st') in
      seen_distinct ("a" ^ ch ^ st);
      let ok = List.exists (fun chp -> let u, s = add_delete_children idx chp stm in canon u ^ "\n--\n" ^ canon s = want) (perms_capped 5 chm) in
      if List.exists (fun (_, pv) -> pv.pv_deleted) chm then stat "adc.with_delete";
      if not ok then
        (let u, s = add_delete_children idx chm stm in
         mismatch id (Printf.sprintf "AddDeleteChildren index=%s change=[%s] store=[%s]: impl upd=[%s] store=[%s]; model upd=[%s] store=[%s]" index (show (canon chm)) (show (canon stm))
                        (show (canon (cfgmap_of upd))) (show (canon (cfgmap_of st'))) (show (canon u)) (show (canon s))))
    | [ "c03.prune"; id; leave; l; res ] ->
      stat "prune";
      let lst = List.map snd (cfgmap_of l) in
      let m = prune_path_values lst (leave = "1") in
      seen_distinct ("p" ^ leave ^ l);
      if canon_list m <> canon_list (List.map snd (cfgmap_of res)) then
        mismatch id (Printf.sprintf "PrunePathValues leave=%s [%s]: impl [%s] model [%s]" leave (show (canon_list lst)) (show (canon_list (List.map snd (cfgmap_of res)))) (show (canon_list m)))
    | [ "c03.wild"; id; q; exact; p; res ] ->
      stat "wild";
      let m = match_wildcard (unhex q) (exact = "1") (unhex p) in
      seen_distinct ("w" ^ q ^ exact ^ p);
      if m then stat "wild.match";
      let ms = if m then "1" else "0" in
      if ms <> res then mismatch id (Printf.sprintf "MatchWildcardRegexp(%S, %s).MatchString(%S): impl %s model %s" (str_of (unhex q)) exact (str_of (unhex p)) res ms)
    | [ "c03.store"; id; _target; pm; pa; pev; pea; _pidx; values; qm; qa; qev; qea; _qidx ] ->
      stat "store";
      let pre = state_of pm pa pev pea in
      let m = cfg_update pre (cfgmap_of values) in
      seen_distinct ("s" ^ pm ^ pev ^ pea ^ values);
      let post = state_of qm qa qev qea in
      if canon_state m <> canon_state post then
        mismatch id (Printf.sprintf "configurations.Update: state=[%s] values=[%s]: impl [%s] model [%s]" (show (canon_state pre)) (show (canon (cfgmap_of values))) (show (canon_state post)) (show (canon_state m)))
    | [ "c03.commit"; id; _target; index; pm; pa; pev; pea; _pidx; ch; qm; qa; qev; qea; qidx ] ->
      stat "commit";
      seen_distinct ("c" ^ pm ^ pev ^ pea ^ ch);
      let pre = state_of pm pa pev pea and post = state_of qm qa qev qea in
      if qidx <> index then mismatch id ("committed index " ^ qidx ^ " after committing " ^ index);
      let ok, first = outcomes_commit pre (n_of_int (int_of_string index)) (cfgmap_of ch) (canon_state post) in
      if not ok then
        mismatch id (Printf.sprintf "reconcileCommit index=%s state=[%s] change=[%s]: impl [%s] is not a model outcome (e.g. [%s])" index (show (canon_state pre)) (show (canon (cfgmap_of ch))) (show (canon_state post)) (show first))
    | [ "c03.set"; id; h; _step; kind; code; dels; upds; index ] ->
      stat "e2e.set"; stat ("e2e.set." ^ kind);
      let hs = hist_of h in
      let dels = item_strings dels and upds = List.map (fun s -> match String.index_opt s '\000' with
          | Some i -> (String.sub s 0 i, String.sub s (i + 1) (String.length s - i - 1)) | None -> (s, "")) (item_strings upds) in
      statn "e2e.deletes" (List.length dels); statn "e2e.updates" (List.length upds);
      if code <> "OK" then (stat ("e2e.set.refused." ^ code); mismatch id ("well-formed Set refused: " ^ code))
      else begin
        let dsteps = List.map parse_steps dels and usteps = List.map (fun (p, v) -> (parse_steps p, bytes_of_string v)) upds in
        hs.spec <- gnmi_apply hs.spec { g_deletes = dsteps; g_updates = usteps };
        hs.sets <- (dsteps, List.map fst usteps) :: hs.sets;
        (* model side of the stored map: what the change map and the commit produce from the previous dump *)
        let ch = with_index (n_of_int (int_of_string index)) (compute_change (List.map (fun (p, v) -> (bytes_of_string p, bytes_of_string v)) upds) (List.map bytes_of_string dels)) in
        Hashtbl.replace pending h (ch, n_of_int (int_of_string index))
      end;
      seen_distinct ("e" ^ h ^ id)
    | [ "c03.raw"; id; h; _step; m; a; ev; ea; committed ] ->
      stat "e2e.raw";
      let hs = hist_of h in
      let post = state_of m a ev ea in
      (match Hashtbl.find_opt pending h with
       | Some (ch, idx) ->
         Hashtbl.remove pending h;
         if int_of_n idx <> int_of_string committed then mismatch id (Printf.sprintf "committed index %s after the Set of transaction %d" committed (int_of_n idx));
         let ok, first = outcomes_commit (status_update hs.raw) idx ch (canon_state post) in
         if not ok then
           mismatch id (Printf.sprintf "stored state after Set %d: before=[%s] change=[%s]: impl [%s] is not a model outcome (e.g. [%s])" (int_of_n idx) (show (canon_state hs.raw)) (show (canon ch)) (show (canon_state post)) (show first))
       | None -> ());
      hs.raw <- post
    | [ "c03.get"; id; h; _step; enc; form; q; pfx; res ] ->
      stat "e2e.get"; stat ("e2e.get." ^ enc); stat ("e2e.get.form." ^ form);
      let hs = hist_of h in
      let qt = str_of (unhex q) in
      let qs = parse_query qt in
      if List.mem QDeep qs then stat "e2e.get.ellipsis"
      else if List.exists (function QAnyName | QAnyKey _ -> true | _ -> false) qs then stat "e2e.get.star"
      else if qs = [] then stat "e2e.get.root" else stat "e2e.get.literal";
      let json = enc = "JSON" in
      if String.length res >= 4 && String.sub res 0 4 = "ERR:" then
        specviol id "c03_get_failed" (Printf.sprintf "Get %s %S failed: %s" enc qt res)
      else begin
        let got = item_strings res in
        let keep p = not (json && is_key_leaf p) in
        (* reference semantics *)
        let want = List.sort compare (List.filter_map (fun (p, v) -> if keep p then Some (render_steps p ^ "\000" ^ str_of v) else None) (gnmi_get hs.spec qs)) in
        statn "e2e.get.leaves" (List.length got);
        if got <> [] then stat "e2e.get.nonempty";
        (* model of the Get filter on the dumped map *)
        let mres = List.sort compare (List.filter_map (fun (p, v) -> if keep (parse_steps (str_of p)) then Some (str_of p ^ "\000" ^ str_of v) else None) (get_leaves (view_values hs.raw) (unhex q))) in
        let pr l = String.concat ", " (List.map (fun s -> String.concat "=" (String.split_on_char '\000' s)) l) in
        if mres <> got then mismatch id (Printf.sprintf "Get %s %S on stored [%s]: impl {%s} model {%s}" enc qt (show (canon_state hs.raw)) (pr got) (pr mres));
        if want <> got then begin
          let path_of s = match String.index_opt s '\000' with Some i -> String.sub s 0 i | None -> s in
          let gotp = List.map path_of got and wantp = List.map path_of want in
          let report kind s =
            let p = parse_steps (path_of s) in
            let sg = match kind, classify hs p with
              | "missing", _ when (not json) && has_wild (str_of (unhex pfx)) && String.length (str_of (unhex pfx)) > String.length (path_of s)
                                  && List.exists (fun (sp, _) -> str_of sp = path_of s) (get_leaves (view_values hs.raw) (unhex q)) -> "c03_get_wildcard_prefix_short_path"
              | "missing", "recreate" -> "c03_recreate_under_deleted_ancestor"
              | ("missing" | "value"), "overlap" -> "c03_delete_update_overlap"
              | "missing", _ -> "c03_leaf_missing"
              | "extra", _ -> "c03_leaf_extra"
              | _, _ -> "c03_value_differs" in
            specviol id sg (Printf.sprintf "history %s, Get %s %S: leaf %s %s; implementation {%s} reference {%s}" h enc qt (path_of s) kind (pr got) (pr want)) in
          List.iter (fun s -> if not (List.mem s got) then report (if List.mem (path_of s) gotp then "value" else "missing") s) want;
          List.iter (fun s -> if not (List.mem (path_of s) wantp) then report "extra" s) got
        end;
        sample (Printf.sprintf "history %s Get %s %S -> {%s}" h enc qt (pr got))
      end
    | _ -> stat "ignored")

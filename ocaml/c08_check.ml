(* C08 driver: replays the harness observations of the Set / RollbackTransaction handlers and of the
   transaction store's Watch on the extracted model (Handler.v, Watch2.v, Gen/Tables.v) and evaluates the
   property directly on what the implementation did. *)
open Model
open Mlib
open Mnat

let split c s = if s = "." || s = "" then [] else String.split_on_char c s
let ios s = try int_of_string s with _ -> failwith ("bad integer " ^ s)

let failure_of_string s =
  if s = "-" then None
  else
    let i = ios s in
    Some (if i < 0 || i > 11 then failure_of_N (n_of_int 99) else failure_of_N (n_of_int i))

let state_of_int i = match state_of_N (n_of_int i) with Some s -> s | None -> failwith "state out of range"
let sync_of_int i = match sync_of_N (n_of_int i) with Some s -> s | None -> failwith "synchronicity out of range"

let code_str c = string_of_int (int_of_n (n_of_code c))

(* ---- the property's own vocabulary, written independently of the Coq development ---- *)
(* gRPC code that stands for each failure class (failure type number -> code number) *)
let spec_code_of_failure = function
  | None -> 2
  | Some f ->
    (match f with
     | 0 -> 2 (* UNKNOWN -> Unknown *) | 1 -> 1 (* CANCELED -> Canceled *) | 2 -> 5 (* NOT_FOUND -> NotFound *)
     | 3 -> 6 (* ALREADY_EXISTS *) | 4 -> 16 (* UNAUTHORIZED -> Unauthenticated *) | 5 -> 7 (* FORBIDDEN -> PermissionDenied *)
     | 6 -> 9 (* CONFLICT -> FailedPrecondition *) | 7 -> 3 (* INVALID -> InvalidArgument *) | 8 -> 14 (* UNAVAILABLE *)
     | 9 -> 12 (* NOT_SUPPORTED -> Unimplemented *) | 10 -> 4 (* TIMEOUT -> DeadlineExceeded *) | 11 -> 13 (* INTERNAL *)
     | _ -> 2)
let spec_awaited sync state = if sync = 1 then state = 3 else state = 2 || state = 3
let spec_terminal state = state = 3 || state = 4
let int_failure s = if s = "-" then None else Some (ios s)

(* ---- rows ---- *)
let parse_rows s =
  List.map (fun r -> match String.split_on_char ':' r with
      | [ t; p; o ] -> (unhex t, unhex p, o = "D")
      | _ -> failwith ("bad row " ^ r)) (split ',' s)

let change_map_of rows : change_map =
  let targets = List.sort_uniq compare (List.map (fun (t, _, _) -> t) rows) in
  List.map (fun t -> (t, List.filter_map (fun (t', p, d) -> if t' = t then Some (p, d) else None) rows)) targets

let row_str ((t, p), o) = hex_of t ^ ":" ^ hex_of p ^ ":" ^ (match o with OpDelete -> "D" | OpUpdate -> "U")
let rows_str rows = match List.sort compare (List.map row_str rows) with [] -> "." | l -> String.concat "," l

let outcome_of_wait = function
  | Waiting -> "WAIT"
  | Succeeded -> "OK"
  | Failed_with c -> "ERR:" ^ code_str c

(* monitors shared by the scripted and the end-to-end domains: [seen] = (state, failure) of the events the
   handler consumed, in order *)
let monitor_truth id ~sync ~seen ~outcome ~where =
  if outcome = "OK" then begin
    if not (List.exists (fun (st, _) -> spec_awaited sync st) seen) then
      specviol id "c08_ok_without_awaited_stage"
        (Printf.sprintf "%s: success returned (sync=%d) but no event with the awaited stage had been delivered" where sync)
  end
  else if String.length outcome > 4 && String.sub outcome 0 4 = "ERR:" then begin
    let c = ios (String.sub outcome 4 (String.length outcome - 4)) in
    match List.filter (fun (st, _) -> st = 4) seen with
    | [] -> specviol id "c08_error_without_failed_transaction" (Printf.sprintf "%s: error code %d although no FAILED state had been delivered" where c)
    | (_, f) :: _ ->
      if spec_code_of_failure f <> c then
        specviol id "c08_error_not_the_recorded_failure"
          (Printf.sprintf "%s: error code %d for recorded failure %s (expected code %d)" where c
             (match f with None -> "none" | Some x -> string_of_int x) (spec_code_of_failure f))
  end

let () =
  each_line (function
    | [ "h.status"; id; ctor; code ] ->
      stat "h.status";
      let ci = ios ctor in
      let e = List.nth all_ctors ci in
      if int_of_n (n_of_ctor e) <> ci then mismatch id "constructor numbering";
      let m = int_of_n (n_of_code (lib_status e)) in
      seen_distinct ("st" ^ ctor);
      if m <> ios code then
        mismatch id (Printf.sprintf "errors.Status of constructor %d: table says code %d, the library answers %s" ci m code)

    | [ "h.loop"; id; kind; sync; label; events; cm; index; outcome; resp ] ->
      stat ("h.loop." ^ kind);
      stat ("h.loop.stream." ^ label);
      let evs = List.map (fun e -> match String.split_on_char ':' e with
          | [ st; f; sy ] -> { ev_sync = sync_of_int (ios sy); ev_state = state_of_int (ios st); ev_failure = failure_of_string f }
          | _ -> failwith "bad event") (split ',' events) in
      let idx = ios index in
      seen_distinct (String.concat "|" [ "l"; kind; sync; events; cm ]);
      stat ("h.loop.outcome." ^ (if String.length outcome > 3 && String.sub outcome 0 3 = "ERR" then "ERR" else outcome));
      if outcome = "NILNIL" then specviol id "c08_no_answer_value" "the handler returned neither a response nor an error";
      (if kind = "set" then begin
          let rows = parse_rows cm in
          let cmap = change_map_of rows in
          let log = List.init (idx - 1) (fun _ -> ([], [])) in
          let _, o = set_handler log (bytes_of_string "id") cmap evs in
          (match o with
           | SetWaiting -> if outcome <> "WAIT" then mismatch id (Printf.sprintf "set loop events=%s: model keeps waiting, implementation %s" events outcome)
           | SetErr c -> if outcome <> "ERR:" ^ code_str c then mismatch id (Printf.sprintf "set loop events=%s cm=%s: model ERR:%s, implementation %s" events cm (code_str c) outcome)
           | SetOk r ->
             if outcome <> "OK" then mismatch id (Printf.sprintf "set loop events=%s cm=%s: model OK, implementation %s" events cm outcome)
             else begin
               match String.split_on_char '|' resp with
               | [ rrows; idok; ridx; extok ] ->
                 let odd = String.length label > 9 && String.sub label (String.length label - 9) 9 = "-oddpaths" in
                 (* arbitrary path text (not what Set's validation lets through): the textual round trip of a path is
                    property C16's subject; compare targets and operations only *)
                 let proj s = List.sort compare (List.map (fun r -> match String.split_on_char ':' r with [ t; _; o ] -> t ^ ":" ^ o | _ -> r) (split ',' s)) in
                 if odd then begin
                   if proj (rows_str r.resp_rows) <> proj rrows then mismatch id (Printf.sprintf "response rows (targets, operations): model %s implementation %s" (rows_str r.resp_rows) rrows)
                 end
                 else if rows_str r.resp_rows <> rrows then mismatch id (Printf.sprintf "response rows: model %s implementation %s" (rows_str r.resp_rows) rrows);
                 if int_of_n r.resp_index <> ios ridx then mismatch id (Printf.sprintf "response index: model %d implementation %s" (int_of_n r.resp_index) ridx);
                 if idok <> "true" || extok <> "true" then mismatch id "response does not carry the created transaction's identifier";
                 (* the property, directly: exactly the change map's rows *)
                 if (not odd) && rrows <> cm then specviol id "c08_response_not_exact" (Printf.sprintf "change map %s, response %s" cm rrows);
                 if odd && proj rrows <> proj cm then specviol id "c08_response_not_exact" (Printf.sprintf "change map %s, response %s" cm rrows);
                 if idok <> "true" || ios ridx <> idx then specviol id "c08_response_wrong_id_or_index" (Printf.sprintf "created index %d, response index %s, id equal %s" idx ridx idok)
               | _ -> mismatch id "malformed response field"
             end)
        end
        else begin
          match rollback_handler (nat_of_int (idx - 1)) (bytes_of_string "id") evs with
          | RbWaiting -> if outcome <> "WAIT" then mismatch id (Printf.sprintf "rollback loop events=%s: model keeps waiting, implementation %s" events outcome)
          | RbErr c -> if outcome <> "ERR:" ^ code_str c then mismatch id (Printf.sprintf "rollback loop events=%s: model ERR:%s, implementation %s" events (code_str c) outcome)
          | RbOk (_, i) ->
            if outcome <> "OK" then mismatch id (Printf.sprintf "rollback loop events=%s: model OK, implementation %s" events outcome)
            else begin
              match String.split_on_char '|' resp with
              | [ _; idok; ridx; _ ] ->
                if int_of_n i <> ios ridx then mismatch id "rollback response index";
                if idok <> "true" || ios ridx <> idx then specviol id "c08_response_wrong_id_or_index" (Printf.sprintf "created index %d, response index %s, id equal %s" idx ridx idok)
              | _ -> mismatch id "malformed response field"
            end
        end);
      (* the property on well-formed streams (a valid history delivered under some placement) *)
      if label = "valid" || label = "valid-keypaths" then begin
        let raw = List.map (fun e -> match String.split_on_char ':' e with
            | [ st; f; _ ] -> (ios st, int_failure f) | _ -> failwith "bad event") (split ',' events) in
        (* what the handler consumed: up to and including the first event that ends the wait according to the
           specification (awaited stage or FAILED); everything if none *)
        let sy = ios sync in
        let rec upto = function
          | [] -> []
          | (st, f) :: r -> if spec_awaited sy st || st = 4 then [ (st, f) ] else (st, f) :: upto r in
        let seen = upto raw in
        (match List.rev raw with
         | (st, _) :: _ when spec_terminal st && outcome = "WAIT" ->
           specviol id "c08_unanswered_finished_transaction" (Printf.sprintf "%s sync=%s events=%s: the last delivered state is final but the handler kept waiting" kind sync events)
         | _ -> ());
        monitor_truth id ~sync:sy ~seen ~outcome ~where:(Printf.sprintf "%s events=%s change map=%s" kind events cm)
      end;
      if !nsamples < 3 then sample (Printf.sprintf "loop %s sync=%s events=%s -> %s" kind sync events outcome)

    | [ "h.watch"; id; log; watch_at; dl ] ->
      stat "h.watch";
      let ent s = (String.make 1 s.[0], String.sub s 1 (String.length s - 1)) in
      let lg = List.map ent (split ',' log) in
      let obs = List.map (fun s -> (s.[0], String.sub s 1 (String.length s - 1))) (split ',' dl) in
      let obs_markers = List.map (fun (_, m) -> m) obs in
      let n = List.length lg and wa = ios watch_at in
      seen_distinct ("w" ^ log ^ "|" ^ watch_at ^ "|" ^ dl);
      let model j k = List.map (fun m -> "A" ^ m) (log_delivered (fun a b -> a = b) lg "A" (nat_of_int j) (nat_of_int k)) in
      let found = ref None in
      for k = wa to n do
        for j = 0 to wa do
          if !found = None && model j k = obs_markers then found := Some (j, k)
        done
      done;
      (* the harness stops collecting 300 us after a delivery that shows the latest record of A.  When the replay already
         shows it while the event loop is still behind (j small), the events written before it are cut short: the
         observation is then a proper PREFIX of the model's delivery that contains that latest record *)
      (let last_a = match List.rev (List.filter (fun (w, _) -> w = "A") lg) with (_, m) :: _ -> Some ("A" ^ m) | [] -> None in
       let rec is_prefix a b = match a, b with [], _ -> true | x :: a', y :: b' -> x = y && is_prefix a' b' | _ -> false in
       match last_a with
       | Some la when !found = None && List.mem la obs_markers ->
         for k = wa to n do
           for j = 0 to wa do
             if !found = None && is_prefix obs_markers (model j k) then begin found := Some (j, k); stat "h.watch.cut-short-after-latest" end
           done
         done
       | _ -> ());
      (match !found with
       | None -> mismatch id (Printf.sprintf "watch delivery not explained by Watch2: log=%s watchAt=%s delivered=%s" log watch_at dl)
       | Some (j, k) ->
         if j < k then stat "h.watch.registered-before-snapshot(j<k)" else stat "h.watch.j=k";
         (* first event is the replay iff the snapshot found the transaction; no other replay *)
         let snap = List.exists (fun (w, _) -> w = "A") (List.filteri (fun i _ -> i < k) lg) in
         (match obs with
          | (t, _) :: rest ->
            if snap && t <> 'R' then mismatch id "first event is not the replay";
            if List.exists (fun (t, _) -> t = 'R') rest then mismatch id "replay event after the first position"
          | [] -> ()));
      (* the property's premise, directly: the latest record of the watched transaction reaches the watcher *)
      (match List.rev (List.filter (fun (w, _) -> w = "A") lg) with
       | (_, last_marker) :: _ ->
         if not (List.mem ("A" ^ last_marker) obs_markers) then
           specviol id "c08_final_record_never_delivered"
             (Printf.sprintf "writes %s, watch on A opened after %s writes, delivered %s: the latest record of A never reached the watcher (a handler waiting on it would wait for ever)" log watch_at dl)
       | [] -> ());
      if List.exists (fun (_, m) -> String.length m > 0 && m.[0] = 'B') obs then
        specviol id "c08_watch_foreign_transaction" (Printf.sprintf "watch for A delivered an event of B: %s" dl)

    | [ "h.e2e"; id; kind; sync; label; h; dl; outcome; final; lead; requested; stored; resp; idok ] ->
      stat "h.e2e";
      stat ("h.e2e.scenario." ^ (match String.split_on_char '/' label with s :: _ -> s | [] -> label));
      stat ("h.e2e.place." ^ (match String.split_on_char '/' label with [ _; p ] -> p | _ -> "?"));
      stat ("h.e2e.outcome." ^ (if String.length outcome > 3 && String.sub outcome 0 3 = "ERR" then "ERR" else outcome));
      let sy = ios sync in
      let hist = List.map (fun e -> match String.split_on_char ':' e with
          | [ v; st; f ] -> (ios v, ios st, f) | _ -> failwith "bad history entry") (split ',' h) in
      let del = List.map (fun e -> match String.split_on_char ':' e with
          | [ v; st; f; s ] -> (ios v, ios st, f, ios s) | _ -> failwith "bad delivered entry") (split ',' dl) in
      let hs = List.map (fun (_, st, f) -> { st_state = state_of_int st; st_failure = failure_of_string f }) hist in
      let hv = List.map (fun (v, _, _) -> v) hist in
      let dv = List.map (fun (v, _, _, _) -> v) del in
      seen_distinct (String.concat "|" [ "e"; kind; sync; label;
                                         String.concat "," (List.map (fun (_, st, f) -> string_of_int st ^ f) hist);
                                         String.concat "," (List.map (fun (_, st, f, _) -> string_of_int st ^ f) del); outcome ]);
      (* (1) Watch2: the delivered versions are a prefix of delivered h j k for an admissible placement *)
      let n = List.length hist in
      let rec is_prefix a b = match a, b with [], _ -> true | x :: a', y :: b' -> x = y && is_prefix a' b' | _ -> false in
      let found = ref None and exact = ref false in
      for k = 1 to n do
        for j = 0 to k do
          if (not !exact) && dv = delivered hv (nat_of_int j) (nat_of_int k) then begin found := Some (j, k); exact := true end
        done
      done;
      for k = 1 to n do
        for j = 0 to k do
          if !found = None && is_prefix dv (delivered hv (nat_of_int j) (nat_of_int k)) then found := Some (j, k)
        done
      done;
      (match !found with
       | None -> if del <> [] then mismatch id (Printf.sprintf "e2e %s: delivery not explained by Watch2: h=%s delivered=%s" label h dl)
       | Some (j, k) when (not !exact) && outcome = "WAIT" -> stat "h.e2e.gave-up-mid-delivery"
       | Some (j, k) ->
         if j < k then stat "h.e2e.registered-before-snapshot(j<k)" else stat "h.e2e.j=k";
         if k = n then stat "h.e2e.snapshot-at-end" else if k = 1 then stat "h.e2e.snapshot-at-create" else stat "h.e2e.snapshot-in-the-middle";
         (* whole pipeline on the recorded history *)
         (match List.rev hist with
          | (_, st, _) :: _ when spec_terminal st ->
            let w = (if kind = "set" then set_wait_placed else rollback_wait_placed) (sync_of_int sy) hs (nat_of_int j) (nat_of_int k) in
            if outcome_of_wait w <> outcome then
              mismatch id (Printf.sprintf "e2e %s: model on (h, j=%d, k=%d) gives %s, implementation %s; h=%s" label j k (outcome_of_wait w) outcome h)
          | _ -> ()));
      (* (2) Handler: the loop on exactly the delivered events *)
      let evs = List.map (fun (_, st, f, s) -> { ev_sync = sync_of_int s; ev_state = state_of_int st; ev_failure = failure_of_string f }) del in
      let w = (if kind = "set" then set_wait else rollback_wait) evs in
      if outcome_of_wait w <> outcome then
        mismatch id (Printf.sprintf "e2e %s: model loop on delivered=%s gives %s, implementation %s" label dl (outcome_of_wait w) outcome);
      (* (3) the property, directly on the observation *)
      let fstate, ffail = match String.split_on_char ':' final with
        | [ st; f; _ ] when st <> "?" -> (ios st, int_failure f) | _ -> (-1, None) in
      if outcome = "WAIT" && spec_terminal fstate && ios lead >= 100 then
        specviol id "c08_unanswered_finished_transaction"
          (Printf.sprintf "%s %s sync=%s: the transaction was final (%s) %s ms before the handler gave up at its deadline; h=%s delivered=%s" kind label sync final lead h dl);
      let seen = List.map (fun (_, st, f, _) -> (st, int_failure f)) del in
      monitor_truth id ~sync:sy ~seen ~outcome ~where:(Printf.sprintf "%s %s h=%s delivered=%s" kind label h dl);
      if outcome = "OK" then begin
        if sy = 1 && fstate <> 3 then specviol id "c08_ok_without_awaited_stage" (Printf.sprintf "%s %s: synchronous success but the final record is %s" kind label final);
        if idok <> "1" then specviol id "c08_response_wrong_id_or_index" (Printf.sprintf "%s %s: the record stored under the returned index is not the returned transaction" kind label);
        if kind = "set" && (resp <> requested || stored <> requested) then
          specviol id "c08_response_not_exact" (Printf.sprintf "%s: requested %s, stored %s, response %s" label requested stored resp)
      end;
      if String.length outcome > 4 && String.sub outcome 0 4 = "ERR:" then begin
        let c = ios (String.sub outcome 4 (String.length outcome - 4)) in
        if fstate <> 4 then specviol id "c08_error_without_failed_transaction" (Printf.sprintf "%s %s: error %d but the final record is %s" kind label c final)
        else if spec_code_of_failure ffail <> c then
          specviol id "c08_error_not_the_recorded_failure" (Printf.sprintf "%s %s: error %d, final record %s" kind label c final)
      end;
      sample (Printf.sprintf "%s sync=%s %s h=%s delivered=%s -> %s (final %s)" kind sync label h dl outcome final)

    | [ "h.stall"; id; sync; writes; outcome; alive ] ->
      stat "h.stall";
      stat ("h.stall.outcome." ^ (if String.length outcome > 3 && String.sub outcome 0 3 = "ERR" then "ERR" else outcome));
      seen_distinct ("s" ^ id);
      (* a Set on a transaction that runs through to APPLIED must be answered *)
      if outcome <> "OK" then specviol id "c08_unanswered_finished_transaction" (Printf.sprintf "stall probe: Set sync=%s on a transaction driven to APPLIED in %s writes -> %s" sync writes outcome);
      if alive <> "1" then
        specviol id "c08_event_loop_blocked_by_departed_watcher"
          (Printf.sprintf "after a Set (sync=%s, %s status writes in quick succession) had returned %s and its context was cancelled, the transaction store delivered no event to a new watcher for 1.2 s" sync writes outcome)
    | "h.e2e.refused" :: _ -> stat "h.e2e.refused-before-create"
    | _ -> stat "ignored")

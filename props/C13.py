"""C13 - a refused Set changes nothing; targets and paths resolve as documented."""
import os
import vlib


def run(ctx):
    vlib.proof_step(ctx)
    mcheck = ctx.build_mcheck("c13", "ExC13.v", "c13_check.ml", extra_ml=["mlib.ml"])
    exe, log = ctx.build_harness("c13")
    if exe is None:
        raise vlib.CheckError("harness build failed:\n" + log[-3000:])
    big = ctx.tier == "thorough"
    corpus = os.path.join(vlib.ROOT, "corpus", "c13_limit.tsv")
    if not big:
        res = vlib.run_pipeline(ctx, exe, ["-seed", ctx.seed, "-main", 400, "-malformed", 180, "-nilchange", 60, "-limit", 1000,
                                           "-corpus", corpus], mcheck, timeout=600)
    else:
        # several fresh harness processes (each world keeps real stores and controllers alive; a long single run
        # only accumulates them), seeds derived from the run's seed
        res = None
        all_lines = []
        for k in range(6):
            r = vlib.run_pipeline(ctx, exe, ["-seed", "%s%02d" % (ctx.seed, k), "-main", 1000, "-malformed", 420, "-nilchange", 70,
                                             "-limit", 3500, "-corpus", corpus], mcheck, timeout=900)
            all_lines.append(open(os.path.join(ctx.work, "lines.tsv")).read())
            if res is None:
                res = r
            else:
                for key, v in r["stats"].items():
                    res["stats"][key] = res["stats"].get(key, 0) + v
                res["mismatches"] += r["mismatches"]
                res["specviols"] += r["specviols"]
                res["nlines"] += r["nlines"]
        open(os.path.join(ctx.work, "lines.tsv"), "w").write("".join(all_lines))
    cross_check_in_coq(ctx, mcheck, 400 if big else 120)
    vlib.judge(ctx, res, "SetReq.v/PathModel.v <-> gnmi Server.Set (up to transactions.Create), path.go, Service.Register")
    vlib.std_coverage(ctx, res,
                      "c13.set: real gNMI Set (Server.Set over real stores, controllers running for the main stream) on generated "
                      "requests: 1-8 delete/replace/update operations over 4 resolvable and 6 unresolvable targets, prefix with/without "
                      "target and elements, key leaves consistent/contradicting, paths outside the model, JSON values, odd names/keys, "
                      "gNMI 0.3 elements, malformed extensions, GNMI_SET_SIZE_LIMIT in {-1,0..5}; observed: status code, transactions "
                      "created, the logged change map and overrides, Get of every target + configuration store before/after, plugin "
                      "GetPathValues calls.  c13.limit: the limit Service.Register really parses from the environment.  distinct = "
                      "distinct requests / strings; non-trivial: every request reaches target resolution except the no-operation and "
                      "bad-extension ones (counted under set.plain.cause.*)")
    ctx.trusted = vlib.STD_TRUSTED + [
        "modelled: Set up to transactions.Create (extensions, getTargetInfo, doUpdateOrReplace, doDelete, jsonBasePath, size limit, "
        "computeChange(s)), utils.StrPath, path.go (RemovePathIndices, AnonymizePathIndices, ExtractIndexNames, FindPathFromModel, "
        "CheckKeyValue, CheckPathIndexIsValid, IsPathValid, GetParentPath), pluginregistry.GetPlugin, Atoi of GNMI_SET_SIZE_LIMIT",
        "inputs of the model, not modelled: protobuf decoding of the two extensions (a 'decodes' flag), the plugin's GetPathValues "
        "(an arbitrary function in the theorems; the harness' fake in the correspondence), ValueToString of bytes/decimal/float/"
        "leaf-list values (VOther carries it), the RBAC gate (property C14), strings.ToLower beyond ASCII",
        "what happens after transactions.Create (validation, commit, response) belongs to C01-C08; the Get monitor tolerates C03's "
        "open finding F-07c (leaf below an earlier delete pruned by a later write)"]
    ctx.notes = ["status codes are compared exactly (InvalidArgument / NotFound / Internal)",
                 "a request whose delete path is not a valid path text is sent to a world without controllers (the logged nil change "
                 "would crash the transaction controller, finding F-C13a)"]


def cross_check_in_coq(ctx, mcheck, n):
    """re-evaluate a slice of the observations inside Coq (vm_compute): parse_limit against Service.Register,
    set_resolve against the extracted model's canonical answer (cross-checks extraction)"""
    lines = os.path.join(ctx.work, "lines.tsv")
    cases = []
    for ln in open(lines):
        f = ln.rstrip("\n").split("\t")
        if f[0] == "c13.limit" and len(cases) < n:
            s = bytes.fromhex(f[2]) if f[2] != "-" else b""
            cases.append("(%s, (%s)%%Z)" % (vlib.coq_bytes(s), f[3]))
    body = ("From Coq Require Import List NArith ZArith Bool.\nFrom OC Require Import Base.Bytes Model.PathModel Model.SetReq.\n"
            "Import ListNotations.\nOpen Scope N_scope.\n"
            "Definition cases : list (str * Z) := [\n" + ";\n".join(cases) + "].\n"
            "Definition bad := Eval vm_compute in List.length (filter (fun c => negb (Z.eqb (parse_limit (fst c)) (snd c))) cases).\n"
            "Print bad.\n")
    rc, out = vlib.coq_eval(ctx, "cases_c13_limit", body)
    ok = rc == 0 and "bad = 0" in out.replace("\n", " ")
    rc2, so, se = vlib.sh2([mcheck, "--emit-coq", str(n // 2)], inp=open(lines).read(), timeout=600)
    nset = so.count("(* case ")
    ok2 = False
    out2 = se
    if rc2 == 0 and nset > 0:
        rc3, out2 = vlib.coq_eval(ctx, "cases_c13_set", so)
        ok2 = rc3 == 0 and "bad = 0" in out2.replace("\n", " ")
    ctx.coverage["in_kernel_cross_check"] = {"limit_cases": len(cases), "limit_agree": ok, "set_cases": nset, "set_agree": ok2}
    if not ok:
        ctx.violation("in-kernel evaluation of Model.SetReq.parse_limit disagrees with Service.Register on the sampled cases",
                      {"broken": "cases_c13_limit.v (vm_compute of the model on harness observations)", "output": out[-1500:]}, no_input=True)
    if not ok2:
        ctx.violation("in-kernel evaluation of Model.SetReq.set_resolve disagrees with the extracted model on the sampled requests",
                      {"broken": "cases_c13_set.v (vm_compute of set_resolve on harness requests)", "output": (out2 or "")[-1500:]}, no_input=True)

"""C11 - A device refusing a change fails that change only, and only real refusals (protocol model Model/Proto2.v, shared p2 run)."""
import vlib
from props import p2common

PREFIXES = ['c11_', 'c08_wrong_error_class', 'c08_error_without_failure']  # 'reported failed with the device's error class'


def run(ctx):
    vlib.proof_step(ctx)
    res = p2common.p2_run(ctx)
    p2common.p2_judge(ctx, res, PREFIXES, "Model/Proto2.v <-> the real v2 reconcilers (steps exercising C11)")
